// Package c12: the IPFS proxy intercepts exactly the pinning endpoints and relays the rest.
package c12

import (
	"bytes"
	"context"
	"encoding/json"
	"fmt"
	"io"
	"io/ioutil"
	"mime/multipart"
	"net"
	"net/http"
	"net/textproto"
	"net/url"
	"strings"
	"time"

	"verif/fw"
	"verif/gen"
	"verif/sim"

	cid "github.com/ipfs/go-cid"
	"github.com/ipfs/ipfs-cluster/api"
	"github.com/ipfs/ipfs-cluster/api/ipfsproxy"
	peer "github.com/libp2p/go-libp2p-core/peer"
	ma "github.com/multiformats/go-multiaddr"
)

func init() {
	fw.Register(&fw.Prop{
		ID:    "C12",
		Level: "exploration",
		Rule: "A real ipfsproxy.Server sits between an HTTP client and a recording fake IPFS daemon (unique status/body per request), with a recording RPC service behind it. " +
			"Case families: (a) hijacked routes (pin/add, pin/rm, pin/ls, pin/update, add, repo/stat, repo/gc) in ?arg= and single-segment /{arg} style, with valid and invalid paths and their options (type, unpin, only-hash, pin, trickle/layout, chunker, raw-leaves, cid-version, ...) under POST, GET and PUT; " +
			"(b) the same paths under DELETE/PATCH/OPTIONS/HEAD and arbitrary other clean paths, queries and bodies under every method. " +
			"Oracle: hijacked and valid => exactly the corresponding recorded cluster operation(s) with the requested path/options, and the daemon never received that path under POST/GET/PUT; " +
			"hijacked and answered with an error while every scripted RPC succeeded => zero mutating RPCs (PinPath, UnpinPath, Unpin, Pin, BlockPut, RepoGC); " +
			"everything else => the daemon received the same method, path, raw query and body bytes, and the client received the daemon's status and body. " +
			"distinct_nontrivial counts distinct (family, route, style, method, option-shape, outcome) keys.",
		Assumptions: []string{
			"multi-segment /{arg} forms (e.g. /api/v0/pin/add/a/b) are not generated: it is ambiguous which side owns them",
			"only clean paths are generated (no '//', '.', '..'): the router redirects unclean paths before relaying",
			"the proxy's own OPTIONS and header-extraction requests to the daemon are expected and ignored by the oracle; hop-by-hop headers are not compared",
		},
		Cases: func(tier string) int {
			if tier == "thorough" {
				return 20000
			}
			return 800
		},
		MinEvals: func(tier string) int {
			if tier == "thorough" {
				return 300000
			}
			return 10000
		},
		ChildSetup:    setup,
		ChildTeardown: teardown,
		Run:           run,
	})
}

type env struct {
	ipfs    *sim.FakeIPFS
	rec     *sim.RPCRecorder
	proxy   *ipfsproxy.Server
	base    string
	proxies []*ipfsproxy.Server // plain, traced
	bases   []string
	hc      *http.Client
	failRPC string
}

func setup(c *fw.Ctx) {
	e := &env{hc: &http.Client{Timeout: 30 * time.Second, CheckRedirect: func(*http.Request, []*http.Request) error { return http.ErrUseLastResponse }}}
	var err error
	e.ipfs, err = sim.NewFakeIPFS()
	if err != nil {
		fmt.Println("C12 setup:", err)
		return
	}
	e.rec = sim.NewRPCRecorder(func(ctx context.Context, call sim.Call, out interface{}) error {
		if e.failRPC != "" && call.Name() == e.failRPC {
			return fmt.Errorf("scripted failure of %s", call.Name())
		}
		switch o := out.(type) {
		case *api.Pin:
			switch in := call.In.(type) {
			case *api.PinPath:
				rest := in.Path
				for _, ns := range []string{"/ipfs/", "/ipns/", "/ipld/"} {
					rest = strings.TrimPrefix(rest, ns)
				}
				parts := strings.Split(rest, "/")
				ci, err := cid.Decode(parts[0])
				if err != nil {
					return fmt.Errorf("cannot resolve %s", in.Path)
				}
				*o = *api.PinWithOpts(ci, in.PinOptions)
			case *api.Pin:
				*o = *in
			case cid.Cid:
				*o = *api.PinCid(in)
			}
		case *cid.Cid:
			parts := strings.Split(strings.TrimPrefix(call.In.(string), "/ipfs/"), "/")
			ci, err := cid.Decode(parts[0])
			if err != nil {
				return fmt.Errorf("cannot resolve %v", call.In)
			}
			*o = ci
		case *[]*api.Pin:
			*o = []*api.Pin{api.PinCid(gen.UCid(1)), api.PinCid(gen.UCid(2))}
		case *[]peer.ID:
			if call.Name() == "Cluster.BlockAllocate" {
				*o = []peer.ID{gen.Peer(0)}
			} else {
				*o = []peer.ID{}
			}
		case *api.GlobalRepoGC:
			o.PeerMap = map[string]*api.RepoGC{peer.Encode(gen.Peer(0)): {Peer: gen.Peer(0), Keys: []api.IPFSRepoGC{{Key: gen.UCid(4)}}}}
		}
		return nil
	})
	// two proxies over the same daemon and the same RPC service: a plain one and one with
	// tracing on (what cmdutils.SetupTracing switches on for a daemon started with tracing)
	for _, tracing := range []bool{false, true} {
		cfg := &ipfsproxy.Config{}
		cfg.Default()
		cfg.Tracing = tracing
		// the proxy does not expose its listener: reserve a free port for it
		tmp, err := net.Listen("tcp", "127.0.0.1:0")
		if err != nil {
			fmt.Println("C12 setup:", err)
			return
		}
		port := tmp.Addr().(*net.TCPAddr).Port
		tmp.Close()
		la, _ := ma.NewMultiaddr(fmt.Sprintf("/ip4/127.0.0.1/tcp/%d", port))
		cfg.ListenAddr = []ma.Multiaddr{la}
		cfg.NodeAddr, _ = ma.NewMultiaddr(e.ipfs.Multiaddr())
		px, err := ipfsproxy.New(cfg)
		if err != nil {
			fmt.Println("C12 setup proxy:", err)
			return
		}
		px.SetClient(e.rec.Client)
		base := fmt.Sprintf("http://127.0.0.1:%d", port)
		// wait until it serves
		for i := 0; i < 200; i++ {
			res, err := e.hc.Get(base + "/api/v0/version")
			if err == nil {
				res.Body.Close()
				break
			}
			time.Sleep(10 * time.Millisecond)
		}
		e.proxies = append(e.proxies, px)
		e.bases = append(e.bases, base)
	}
	e.proxy, e.base = e.proxies[0], e.bases[0]
	c.Store["env"] = e
}

func teardown(c *fw.Ctx) {
	if e, ok := c.Store["env"].(*env); ok {
		ctx, cancel := context.WithTimeout(context.Background(), 10*time.Second)
		defer cancel()
		for _, px := range e.proxies {
			px.Shutdown(ctx)
		}
		e.ipfs.Close()
	}
}

var mutating = map[string]bool{"Cluster.PinPath": true, "Cluster.UnpinPath": true, "Cluster.Unpin": true, "Cluster.Pin": true, "IPFSConnector.BlockPut": true, "Cluster.RepoGC": true, "Cluster.BlockAllocate": false}

func names(cs []sim.Call) string {
	var s []string
	for _, c := range cs {
		s = append(s, c.Name())
	}
	return strings.Join(s, ",")
}

type resp struct {
	status  int
	body    []byte
	hdr     http.Header
	trailer http.Header
	err     error
}

func (e *env) do(method, u string, body []byte, ctype string) resp {
	var rd io.Reader
	if body != nil {
		rd = bytes.NewReader(body)
	}
	req, err := http.NewRequest(method, u, rd)
	if err != nil {
		return resp{err: err}
	}
	if ctype != "" {
		req.Header.Set("Content-Type", ctype)
	}
	req.Close = true
	res, err := e.hc.Do(req)
	if err != nil {
		return resp{err: err}
	}
	defer res.Body.Close()
	b, _ := ioutil.ReadAll(res.Body)
	return resp{status: res.StatusCode, body: b, hdr: res.Header, trailer: res.Trailer}
}

// daemonSaw returns the requests the daemon received for path under a method
// that the proxy hijacks.
func daemonSaw(reqs []sim.HTTPReq, path string) []sim.HTTPReq {
	var out []sim.HTTPReq
	for _, r := range reqs {
		if r.Path == path && (r.Method == "POST" || r.Method == "GET" || r.Method == "PUT") {
			out = append(out, r)
		}
	}
	return out
}

func run(c *fw.Ctx, idx int) {
	e, ok := c.Store["env"].(*env)
	if !ok {
		c.Inconclusive("proxy not built")
		return
	}
	r := c.Rand("main")
	e.failRPC = ""
	// every other group of four cases goes through the proxy that has tracing on
	e.proxy, e.base = e.proxies[(idx/4)%2], e.bases[(idx/4)%2]
	if (idx/4)%2 == 1 {
		c.Cover("proxy-with-tracing")
	}
	switch idx % 4 {
	case 0, 1:
		hijacked(c, e, r)
	case 2:
		relayed(c, e, r)
	case 3:
		addCases(c, e, r)
	}
}

func hijacked(c *fw.Ctx, e *env, r *fw.Rand) {
	for n := 0; n < 30; n++ {
		method := r.Pick("POST", "POST", "GET", "PUT")
		route := r.Pick("pin/add", "pin/rm", "pin/ls", "pin/update", "repo/stat", "repo/gc")
		style := "query"
		target := gen.UCid(r.Intn(8))
		sub := r.Pick("", "", "/a", "/a/b")
		argValid := true
		noArg := false
		arg := "/ipfs/" + target.String() + sub
		switch r.Intn(8) {
		case 0:
			arg = target.String() // bare cid is a valid path
			sub = ""
		case 1:
			arg = r.Pick("notapath", "/ipfs/", "/ipfs/zzzz", "Qm", "/ipld/")
			argValid = false
		case 2:
			// no argument at all: still the proxy's request to answer (with an error)
			if route == "pin/add" || route == "pin/rm" {
				noArg = true
				argValid = false
			}
		}
		q := url.Values{}
		p := "/api/v0/" + route
		var wantCalls []string
		mode := api.PinModeRecursive
		unpin := true
		oddBool := false
		switch route {
		case "pin/add", "pin/rm":
			if argValid && r.Chance(1, 4) {
				// the other namespaces: a name to be resolved, or an IPLD path - not the same request as /ipfs/<the same text>
				arg = r.Pick("/ipns/", "/ipld/") + target.String() + r.Pick("", "", "/", sub)
				sub = "ns"
			}
			if r.Chance(1, 3) && argValid && sub == "" {
				style = "slash"
				p += "/" + url.PathEscape(strings.TrimPrefix(arg, "/ipfs/"))
				arg = strings.TrimPrefix(arg, "/ipfs/")
			} else if !noArg {
				q.Set("arg", arg)
			}
			if route == "pin/add" {
				if t := r.Pick("", "recursive", "direct"); t != "" {
					q.Set("type", t)
					mode = api.PinModeFromString(t)
				}
				if r.Bool() {
					q.Set("progress", "true")
				}
				wantCalls = []string{"Cluster.PinPath"}
			} else {
				wantCalls = []string{"Cluster.UnpinPath"}
			}
		case "pin/ls":
			switch r.Intn(3) {
			case 0:
				argValid = true
				arg = ""
				wantCalls = []string{"Cluster.Pins"}
			default:
				if argValid {
					arg = target.String()
					if r.Chance(1, 3) {
						style = "slash"
						p += "/" + arg
					} else {
						q.Set("arg", arg)
					}
				} else {
					q.Set("arg", arg)
				}
				wantCalls = []string{"Cluster.PinGet"}
			}
		case "pin/update":
			to := gen.UCid(r.Range(8, 15))
			switch r.Intn(6) {
			case 0:
				argValid = false // no args
			case 1:
				q.Add("arg", arg)
				argValid = false // one arg only
			default:
				q.Add("arg", arg)
				q.Add("arg", "/ipfs/"+to.String())
			}
			if u := r.Pick("", "false", "true", "true", "false", "yes", "1", "True", "0", "no"); u != "" {
				q.Set("unpin", u)
				unpin = u != "false"
				oddBool = u != "true" && u != "false"
			}
			wantCalls = []string{"IPFSConnector.Resolve", "Cluster.PinPath"}
			if unpin {
				wantCalls = append(wantCalls, "Cluster.Unpin")
			}
		case "repo/stat":
			argValid = true
			wantCalls = []string{"Consensus.Peers"}
		case "repo/gc":
			argValid = true
			if r.Bool() {
				q.Set("stream-errors", "true")
			}
			wantCalls = []string{"Cluster.RepoGC"}
		}
		// a quarter of the requests percent-escape one character of the command
		// part of the path (the same request for every HTTP server and for the daemon)
		sent := p
		escaped := "plain"
		if r.Chance(1, 4) {
			k := len("/api/v0/") + r.Intn(len(route))
			sent = p[:k] + fmt.Sprintf("%%%02X", p[k]) + p[k+1:]
			escaped = "escaped-letter"
			if p[k] == '/' {
				escaped = "escaped-slash"
			}
		}
		full := e.base + sent
		if len(q) > 0 {
			full += "?" + q.Encode()
		}
		e.rec.Reset()
		e.ipfs.ResetLog()
		c.Journal("%s %s", method, full)
		res := e.do(method, full, nil, "")
		if res.err != nil {
			c.Inconclusive("http: " + res.err.Error())
			continue
		}
		calls := e.rec.Calls()
		dreqs := e.ipfs.Requests()
		c.Eval(fmt.Sprintf("hijack/%s/%s/%s/valid=%v/%d", route, style, method, argValid, res.status/100))
		c.Cover(fmt.Sprintf("hijack/%s/%s", route, escaped))
		if saw := daemonSaw(dreqs, strings.SplitN(p, "?", 2)[0]); len(saw) > 0 {
			c.Violation("C12/hijacked-request-reached-daemon/"+route, fmt.Sprintf("%s %s: the daemon received %s %s?%s", method, full, saw[0].Method, saw[0].Path, saw[0].RawQuery), nil)
		}
		var js interface{}
		if json.Unmarshal(bytes.TrimSpace(firstLine(res.body)), &js) != nil && len(res.body) > 0 {
			c.Violation("C12/hijacked-response-not-json/"+route, fmt.Sprintf("status %d body %.200q", res.status, res.body), nil)
		}
		if !argValid {
			if res.status < 400 {
				c.Violation("C12/invalid-argument-accepted/"+route, fmt.Sprintf("%s %s answered %d", method, full, res.status), nil)
			}
			for _, cl := range calls {
				if mutating[cl.Name()] {
					c.Violation("C12/error-response-but-operation-performed/"+route, fmt.Sprintf("%s %s answered %d and performed %s", method, full, res.status, names(calls)), nil)
				}
			}
			continue
		}
		if oddBool {
			// a value that is not literally true/false may be refused or interpreted;
			// refused means: nothing was done
			if res.status >= 400 {
				for _, cl := range calls {
					if mutating[cl.Name()] {
						c.Violation("C12/error-response-but-operation-performed/"+route+"/odd-boolean", fmt.Sprintf("%s %s answered %d and performed %s", method, full, res.status, names(calls)), nil)
						break
					}
				}
			}
			continue
		}
		if res.status >= 400 {
			c.Violation("C12/valid-hijacked-request-refused/"+route, fmt.Sprintf("%s %s answered %d: %.200s", method, full, res.status, res.body), nil)
			continue
		}
		if names(calls) != strings.Join(wantCalls, ",") {
			c.Violation("C12/wrong-operations/"+route, fmt.Sprintf("%s %s performed [%s], want [%s]", method, full, names(calls), strings.Join(wantCalls, ",")), nil)
			continue
		}
		// arguments
		switch route {
		case "pin/add", "pin/rm":
			pp := calls[0].In.(*api.PinPath)
			wantPath := arg
			if !strings.HasPrefix(wantPath, "/") {
				wantPath = "/ipfs/" + wantPath
			}
			if pp.Path != wantPath {
				c.Violation("C12/wrong-argument/path/"+route, fmt.Sprintf("requested %q, cluster got %q", wantPath, pp.Path), nil)
			}
			if route == "pin/add" && pp.Mode != mode {
				c.Violation("C12/wrong-argument/mode", fmt.Sprintf("type=%s requested, cluster got mode %s", q.Get("type"), pp.Mode), nil)
			}
			if !bytes.Contains(res.body, []byte(target.String())) {
				c.Violation("C12/response-lacks-cid/"+route, fmt.Sprintf("%.200s", res.body), nil)
			}
		case "pin/ls":
			if len(calls) == 1 && calls[0].Name() == "Cluster.PinGet" {
				if g := calls[0].In.(cid.Cid); !g.Equals(target) {
					c.Violation("C12/wrong-argument/pinls", "cid differs", nil)
				}
			}
		case "pin/update":
			wantFrom := arg
			if !strings.HasPrefix(wantFrom, "/") {
				wantFrom = "/ipfs/" + wantFrom
			}
			if g := calls[0].In.(string); g != wantFrom {
				c.Violation("C12/wrong-argument/update-from", fmt.Sprintf("from %q requested, resolve got %q", arg, g), nil)
			}
			pp := calls[1].In.(*api.PinPath)
			if !pp.PinUpdate.Equals(target) {
				c.Violation("C12/wrong-argument/update-source", "PinUpdate is not the resolved from-cid", nil)
			}
			if len(calls) == 3 {
				if up := calls[2].In.(*api.Pin); !up.Cid.Equals(target) {
					c.Violation("C12/wrong-argument/update-unpin", "unpinned another cid than the source", nil)
				}
			}
		}
		if n == 0 {
			c.Sample(map[string]interface{}{"family": "hijacked", "request": method + " " + p + "?" + q.Encode(), "rpcs": names(calls), "status": res.status})
		}
	}
	// hijacked route with a failing RPC: error response, nothing after the failure
	e.failRPC = "Cluster.PinPath"
	e.rec.Reset()
	res := e.do("POST", e.base+"/api/v0/pin/update?arg=/ipfs/"+gen.UCid(1).String()+"&arg=/ipfs/"+gen.UCid(2).String(), nil, "")
	if res.err == nil {
		c.Eval("hijack/pin/update/rpc-failure")
		if res.status < 400 {
			c.Violation("C12/rpc-failure-reported-as-success/pin/update", fmt.Sprintf("status %d", res.status), nil)
		}
		for _, cl := range e.rec.Calls() {
			if cl.Name() == "Cluster.Unpin" {
				c.Violation("C12/update-unpinned-source-although-pin-failed", "the source was unpinned although pinning the target failed", nil)
			}
		}
	}
	e.failRPC = ""
}

func firstLine(b []byte) []byte {
	if i := bytes.IndexByte(b, '\n'); i >= 0 {
		return b[:i]
	}
	return b
}

func relayed(c *fw.Ctx, e *env, r *fw.Rand) {
	hij := []string{"/api/v0/pin/add", "/api/v0/pin/rm", "/api/v0/pin/ls", "/api/v0/pin/update", "/api/v0/add", "/api/v0/repo/stat", "/api/v0/repo/gc"}
	for n := 0; n < 40; n++ {
		var method, p string
		if r.Chance(1, 3) {
			// hijacked path under a method the proxy does not intercept
			method = r.Pick("DELETE", "PATCH", "OPTIONS", "HEAD")
			p = hij[r.Intn(len(hij))]
			if r.Chance(1, 3) {
				p += "/" + gen.UCid(r.Intn(8)).String()
			}
		} else {
			method = r.Pick("GET", "POST", "PUT", "DELETE", "PATCH", "OPTIONS", "HEAD")
			p = r.Pick("/api/v0/cat", "/api/v0/dag/get", "/api/v0/pin/verify", "/api/v0/pin", "/api/v0/pins/add", "/api/v0/repo/version", "/api/v0/add2",
				"/api/v0/block/put", "/api/v0/swarm/peers", "/", "/api/v1/pin/add", "/ipfs/"+gen.UCid(3).String(), "/api/v0/object/patch/add-link", "/webui", "/api/v0/name/publish",
				"/api/v0/files/"+r.Pick("ls", "write", "rm"), "/pin/add", "/api/v0/pin/addx")
		}
		q := url.Values{}
		for i := r.Intn(4); i > 0; i-- {
			q.Add(r.Pick("arg", "type", "recursive", "x", "only-hash", "enc"), r.Pick("", "1", "true", "/ipfs/"+gen.UCid(2).String(), "a b&c", "ü"))
		}
		var body []byte
		ctype := "application/octet-stream"
		if method != "GET" && method != "HEAD" && method != "OPTIONS" && r.Bool() {
			body = r.Bytes(r.Intn(2000))
			if r.Chance(1, 3) {
				// a form body is the daemon's to read, not the proxy's
				ctype = "application/x-www-form-urlencoded"
				body = []byte(r.Pick("arg=%2Fipfs%2Fx&recursive=true", "a=1&b=2&b=3", "x=a+b%26c", "k="+r.Str(r.Range(1, 200))))
			}
		}
		full := e.base + p
		rawq := q.Encode()
		if r.Chance(1, 4) {
			// queries as clients write them by hand: separators and escapes the proxy has no business normalising
			rawq = r.Pick("arg=/ipfs/"+gen.UCid(2).String()+"/a;b.txt&offset=3", "a=1;b=2", "x=%zz&y=1", "arg=a%2", "arg=a+b&arg=c%20d", "&&x=1&", "flag", "x=1&x=1")
		}
		if rawq != "" {
			full += "?" + rawq
		}
		e.rec.Reset()
		e.ipfs.ResetLog()
		c.Journal("%s %s body=%d", method, full, len(body))
		res := e.do(method, full, body, ctype)
		if res.err != nil {
			c.Inconclusive("http: " + res.err.Error())
			continue
		}
		calls := e.rec.Calls()
		c.Eval(fmt.Sprintf("relay/%s/hijackedpath=%v/q=%d/body=%v/form=%v/handq=%v", method, strings.HasPrefix(p, "/api/v0/pin/") || contains(hij, p), len(q), body != nil, ctype != "application/octet-stream", rawq != q.Encode()))
		if len(calls) != 0 {
			c.Violation("C12/non-hijacked-request-performed-cluster-operation", fmt.Sprintf("%s %s performed %s", method, full, names(calls)), nil)
		}
		var got *sim.HTTPReq
		for _, dr := range e.ipfs.Requests() {
			dr := dr
			if dr.Method == method && dr.Path == p {
				got = &dr
			}
		}
		if got == nil {
			c.Violation("C12/not-relayed/"+method, fmt.Sprintf("%s %s never reached the daemon (status %d, body %.120q)", method, full, res.status, res.body), nil)
			continue
		}
		if got.RawQuery != rawq {
			c.Violation("C12/relayed-query-changed", fmt.Sprintf("sent %q, daemon got %q", rawq, got.RawQuery), nil)
		}
		if !bytes.Equal(got.Body, body) && !(len(got.Body) == 0 && len(body) == 0) {
			c.Violation("C12/relayed-body-changed", fmt.Sprintf("sent %d bytes, daemon got %d", len(body), len(got.Body)), nil)
		}
		if method != "HEAD" {
			want := fmt.Sprintf("fake-ipfs-answer seq=%d ", got.Seq)
			wantStatus := 200 + got.Seq%3
			if got.Handled != "echo" {
				continue // an API path the fake daemon really implements: its answer is not the echo
			}
			if !bytes.HasPrefix(res.body, []byte(want)) {
				c.Violation("C12/daemon-response-not-returned/body", fmt.Sprintf("daemon answered %q..., client got %.120q", want, res.body), nil)
			}
			if res.status != wantStatus {
				c.Violation("C12/daemon-response-not-returned/status", fmt.Sprintf("daemon answered %d, client got %d", wantStatus, res.status), nil)
			}
		}
	}
}

func contains(l []string, s string) bool {
	for _, x := range l {
		if x == s {
			return true
		}
	}
	return false
}

func addCases(c *fw.Ctx, e *env, r *fw.Rand) {
	for n := 0; n < 6; n++ {
		var buf bytes.Buffer
		mw := multipart.NewWriter(&buf)
		w1, _ := mw.CreateFormFile("file", "f.bin")
		w1.Write(r.Bytes(r.Range(1, 5000)))
		mw.Close()
		q := url.Values{}
		valid := true
		wantUnpin := false
		shape := "plain"
		switch r.Intn(10) {
		case 0:
			q.Set("only-hash", "true")
			valid = false
			shape = "only-hash"
		case 1:
			q.Set("pin", "false")
			wantUnpin = true
			shape = "pin=false"
		case 2:
			q.Set("trickle", "true")
			shape = "trickle"
		case 3:
			q.Set("chunker", "size-1024")
			shape = "chunker"
		case 4:
			q.Set("raw-leaves", "true")
			q.Set("cid-version", "1")
			shape = "cidv1"
		case 5:
			q.Set("layout", "bogus")
			valid = false
			shape = "bad-layout"
		case 6:
			q.Set("cid-version", "x")
			valid = false
			shape = "bad-cid-version"
		case 7:
			q.Set("wrap-with-directory", "true")
			shape = "wrap"
		}
		if r.Chance(1, 3) {
			q.Set("stream-channels", "false")
			shape += "+buffered"
		}
		method := r.Pick("POST", "POST", "PUT")
		e.rec.Reset()
		e.ipfs.ResetLog()
		// an upload whose first part is fine and whose later part cannot be read
		// (impossible content type, or the body ends between parts)
		if valid && !wantUnpin && r.Chance(1, 5) {
			var b2 bytes.Buffer
			mw2 := multipart.NewWriter(&b2)
			p1, _ := mw2.CreateFormFile("file", "first.bin")
			p1.Write(r.Bytes(r.Range(1, 3000)))
			kind := r.Pick("bad-content-type", "truncated")
			if kind == "bad-content-type" {
				h := textproto.MIMEHeader{}
				h.Set("Content-Disposition", `form-data; name="file"; filename="second.bin"`)
				h.Set("Content-Type", "a/b/c; =")
				p2, _ := mw2.CreatePart(h)
				p2.Write(r.Bytes(100))
				mw2.Close()
			} else {
				p2, _ := mw2.CreateFormFile("file", "second.bin")
				p2.Write(r.Bytes(2000))
				// no closing boundary, and cut inside the second part's header area
				cut := bytes.LastIndex(b2.Bytes(), []byte("--"+mw2.Boundary()))
				b2.Truncate(cut + len(mw2.Boundary())/2)
			}
			res := e.do(method, e.base+"/api/v0/add?"+q.Encode(), b2.Bytes(), mw2.FormDataContentType())
			if res.err != nil {
				c.Inconclusive("http add: " + res.err.Error())
				continue
			}
			time.Sleep(50 * time.Millisecond)
			pins := 0
			for _, cl := range e.rec.Calls() {
				if cl.Name() == "Cluster.Pin" {
					pins++
				}
			}
			answeredError := res.status >= 400 || res.trailer.Get("X-Stream-Error") != "" || bytes.Contains(res.body, []byte(`"Type":"error"`))
			c.Eval(fmt.Sprintf("add/later-part-%s/%s/error=%v", kind, shape, answeredError))
			if answeredError && pins > 0 {
				c.Violation("C12/error-response-but-operation-performed/add/later-part-"+kind, fmt.Sprintf("the upload's later part was unreadable, the proxy answered an error (status %d, trailer %q) and %d Cluster.Pin calls were made", res.status, res.trailer.Get("X-Stream-Error"), pins), nil)
			}
			continue
		}
		badBody := r.Chance(1, 8)
		var res resp
		if badBody {
			valid = false
			shape = "bad-body"
			res = e.do(method, e.base+"/api/v0/add?"+q.Encode(), []byte("plain"), "text/plain")
		} else {
			res = e.do(method, e.base+"/api/v0/add?"+q.Encode(), buf.Bytes(), mw.FormDataContentType())
		}
		if res.err != nil {
			c.Inconclusive("http add: " + res.err.Error())
			continue
		}
		if wantUnpin {
			time.Sleep(150 * time.Millisecond)
		}
		calls := e.rec.Calls()
		c.Eval(fmt.Sprintf("add/%s/%s/%d", shape, method, res.status/100))
		if saw := daemonSaw(e.ipfs.Requests(), "/api/v0/add"); len(saw) > 0 {
			c.Violation("C12/hijacked-request-reached-daemon/add", "the daemon received the add request", nil)
		}
		var puts, pins, unpins int
		var pinnedCid, unpinnedCid cid.Cid
		for _, cl := range calls {
			switch cl.Name() {
			case "IPFSConnector.BlockPut":
				puts++
			case "Cluster.Pin":
				pins++
				if pp, ok := cl.In.(*api.Pin); ok {
					pinnedCid = pp.Cid
				}
			case "Cluster.Unpin":
				unpins++
				if pp, ok := cl.In.(*api.Pin); ok {
					unpinnedCid = pp.Cid
				}
			}
		}
		if !valid {
			if res.status < 400 {
				c.Violation("C12/invalid-argument-accepted/add/"+shape, fmt.Sprintf("status %d", res.status), nil)
			}
			if puts+pins+unpins > 0 {
				c.Violation("C12/error-response-but-operation-performed/add/"+shape, fmt.Sprintf("answered %d and performed %d block puts, %d pins", res.status, puts, pins), nil)
			}
			continue
		}
		if res.status >= 400 || puts == 0 || pins != 1 {
			c.Violation("C12/add/operation/"+shape, fmt.Sprintf("valid add: status %d, %d block puts, %d pins; body %.200s", res.status, puts, pins, res.body), nil)
			continue
		}
		if wantUnpin != (unpins == 1) {
			c.Violation("C12/add/pin-option", fmt.Sprintf("pin=false requested=%v, unpins performed=%d", wantUnpin, unpins), nil)
		}
		if wantUnpin && unpins == 1 && !(unpinnedCid.Defined() && unpinnedCid.Equals(pinnedCid)) {
			c.Violation("C12/add/pin-option-unpins-something-else", fmt.Sprintf("pin=false: the content was pinned as %s and the unpin was issued for %s (%s)", pinnedCid, unpinnedCid, shape), nil)
		}
	}
}
