// Package c15: configuration round-trips, validates totally, hides secrets.
package c15

import (
	"bytes"
	"encoding/base64"
	"encoding/json"
	"fmt"
	crypto "github.com/libp2p/go-libp2p-core/crypto"
	"os"
	"path/filepath"
	"runtime/debug"
	"sort"
	"strings"
	"time"

	"verif/fw"
	"verif/gen"

	ipfscluster "github.com/ipfs/ipfs-cluster"
	"github.com/ipfs/ipfs-cluster/api/ipfsproxy"
	"github.com/ipfs/ipfs-cluster/api/rest"
	"github.com/ipfs/ipfs-cluster/config"
	"github.com/ipfs/ipfs-cluster/consensus/crdt"
	"github.com/ipfs/ipfs-cluster/consensus/raft"
	"github.com/ipfs/ipfs-cluster/datastore/badger"
	"github.com/ipfs/ipfs-cluster/datastore/leveldb"
	"github.com/ipfs/ipfs-cluster/informer/disk"
	"github.com/ipfs/ipfs-cluster/informer/numpin"
	"github.com/ipfs/ipfs-cluster/ipfsconn/ipfshttp"
	"github.com/ipfs/ipfs-cluster/monitor/pubsubmon"
	"github.com/ipfs/ipfs-cluster/observations"
	"github.com/ipfs/ipfs-cluster/pintracker/stateless"
	peer "github.com/libp2p/go-libp2p-core/peer"
	ma "github.com/multiformats/go-multiaddr"
)

type section struct {
	name    string
	typ     config.SectionType
	envKey  string
	newCfg  func() config.ComponentConfig
	elided  map[string]interface{} // keys the section omits on save while they hold the default, with a sample value
	secrets []string               // json keys that carry secrets
}

const (
	canarySecret = "c0ffee00c0ffee00c0ffee00c0ffee00c0ffee00c0ffee00c0ffee00c0ffee11"
	canaryPass   = "CANARY-pa55-w0rd"
	// base64 protobuf ed25519 private key (generated once for this harness; not used anywhere else)
	canaryKey = "CAESQJZ0wHQyoWGizG5eSATrDtTVlyyr99O8726jIu1lf2D+3VJBBAu6HXPRkbdNINBWlPMn+PK3bO6EgGGuaou8bKg="
)

var sections = []section{
	{"cluster", config.Cluster, "cluster", func() config.ComponentConfig { return &ipfscluster.Config{} },
		map[string]interface{}{"follower_mode": true, "peerstore_file": "peerstore2"}, []string{"secret", "private_key"}},
	{"raft", config.Consensus, "cluster_raft", func() config.ComponentConfig { return &raft.Config{} },
		map[string]interface{}{"data_folder": "raftdata", "datastore_namespace": "/r", "heartbeat_timeout": "3s", "election_timeout": "3s",
			"commit_timeout": "100ms", "max_append_entries": 128, "trailing_logs": 20000, "snapshot_interval": "3m", "snapshot_threshold": 9000,
			"leader_lease_timeout": "2s"}, nil},
	{"crdt", config.Consensus, "cluster_crdt", func() config.ComponentConfig { return &crdt.Config{} },
		map[string]interface{}{"rebroadcast_interval": "2m", "peerset_metric": "ping", "datastore_namespace": "/c"}, nil},
	{"restapi", config.API, "cluster_restapi", func() config.ComponentConfig { return &rest.Config{} },
		map[string]interface{}{"libp2p_listen_multiaddress": []interface{}{"/ip4/127.0.0.1/tcp/9601"}, "id": "", "private_key": ""},
		[]string{"basic_auth_credentials", "private_key"}},
	{"ipfsproxy", config.API, "cluster_ipfsproxy", func() config.ComponentConfig { return &ipfsproxy.Config{} },
		map[string]interface{}{"node_https": true, "extract_headers_extra": []interface{}{"X-A"}, "extract_headers_path": "/api/v0/id", "extract_headers_ttl": "7m"}, nil},
	{"ipfshttp", config.IPFSConn, "cluster_ipfshttp", func() config.ComponentConfig { return &ipfshttp.Config{} },
		map[string]interface{}{"unpin_disable": true}, nil},
	{"stateless", config.PinTracker, "cluster_stateless", func() config.ComponentConfig { return &stateless.Config{} },
		map[string]interface{}{"max_pin_queue_size": 999}, nil},
	{"pubsubmon", config.Monitor, "cluster_pubsubmon", func() config.ComponentConfig { return &pubsubmon.Config{} }, nil, nil},
	{"disk", config.Informer, "cluster_disk", func() config.ComponentConfig { return &disk.Config{} }, nil, nil},
	{"numpin", config.Informer, "cluster_numpin", func() config.ComponentConfig { return &numpin.Config{} }, nil, nil},
	{"metrics", config.Observations, "cluster_metrics", func() config.ComponentConfig { return &observations.MetricsConfig{} }, nil, nil},
	{"tracing", config.Observations, "cluster_tracing", func() config.ComponentConfig { return &observations.TracingConfig{} }, nil, nil},
	{"badger", config.Datastore, "cluster_badger", func() config.ComponentConfig { return &badger.Config{} },
		map[string]interface{}{"folder": "bdg"}, nil},
	{"leveldb", config.Datastore, "cluster_leveldb", func() config.ComponentConfig { return &leveldb.Config{} },
		map[string]interface{}{"folder": "ldb"}, nil},
}

func init() {
	config.ConfigSaveInterval = 5 * time.Millisecond // Manager.Shutdown waits one tick per registered section
	fw.Register(&fw.Prop{
		ID:    "C15",
		Level: "exploration",
		Rule: "For each of the 14 component sections: Default() -> ToJSON gives the document; every JSON leaf (plus the keys the section elides at default, held as data) " +
			"is perturbed with pairs (v1,v2) of semantically different well-formed values chosen by the leaf's kind (duration, multiaddress, number, bool, string, list, map), " +
			"alone and together with a second perturbed leaf, in the section alone, inside a full config.Manager document saved to and loaded from a file, and through environment variables. " +
			"Oracle: Default validates; an accepted document validates, and save->load->save is a fixed point; two accepted documents that differ in one non-zero well-formed value save differently " +
			"(a setting silently dropped or replaced by its default collapses them); zero/empty/malformed values may be refused or accepted but never panic; ToDisplayJSON never shows planted secrets. " +
			"distinct_nontrivial counts distinct (section, leaf path, value kind, accepted/refused) keys.",
		Assumptions: []string{
			"sections are compared through their own ToJSON text (config structs are not comparable by reflection: they embed channels); a field that neither load nor save touches is invisible to this oracle",
			"environment variable names are derived from the JSON key (PREFIX_KEYWITHOUTUNDERSCORES); an env var that has no effect is counted as 'ineffective', not judged",
		},
		Cases: func(tier string) int {
			if tier == "thorough" {
				return 14 * 600
			}
			return 14 * 80
		},
		MinEvals: func(tier string) int {
			if tier == "thorough" {
				return 100000
			}
			return 50000
		},
		Run: run,
	})
}

// ----------------------------------------------------------------- json walk

type leaf struct {
	path []string
	val  interface{}
}

func leaves(prefix []string, v interface{}, out *[]leaf) {
	switch t := v.(type) {
	case map[string]interface{}:
		last := ""
		if len(prefix) > 0 {
			last = prefix[len(prefix)-1]
		}
		if len(t) == 0 || last == "basic_auth_credentials" || last == "headers" || isStringMap(t) && !isSection(prefix) {
			*out = append(*out, leaf{append([]string{}, prefix...), v})
			return
		}
		keys := make([]string, 0, len(t))
		for k := range t {
			keys = append(keys, k)
		}
		sort.Strings(keys)
		for _, k := range keys {
			leaves(append(prefix, k), t[k], out)
		}
	default:
		*out = append(*out, leaf{append([]string{}, prefix...), v})
	}
}

func isSection(prefix []string) bool { return len(prefix) == 0 }

// isStringMap: a JSON object that is a user map (headers, credentials), not a struct.
func isStringMap(m map[string]interface{}) bool {
	for k := range m {
		if strings.ToLower(k) != k || strings.Contains(k, "-") { // header names etc.
			return true
		}
	}
	return false
}

func setPath(doc map[string]interface{}, path []string, v interface{}) {
	m := doc
	for _, k := range path[:len(path)-1] {
		nx, ok := m[k].(map[string]interface{})
		if !ok {
			nx = map[string]interface{}{}
			m[k] = nx
		}
		m = nx
	}
	m[path[len(path)-1]] = v
}

func clone(doc map[string]interface{}) map[string]interface{} {
	b, _ := json.Marshal(doc)
	var out map[string]interface{}
	d := json.NewDecoder(bytes.NewReader(b))
	d.UseNumber()
	d.Decode(&out)
	return out
}

// ----------------------------------------------------------------- values

type cand struct {
	v    interface{}
	kind string
	zero bool // zero/empty/"unset" class or malformed: only no-panic + idempotence demanded
}

func isDuration(s string) bool {
	if s == "" {
		return false
	}
	_, err := time.ParseDuration(s)
	return err == nil
}

func isMaddr(s string) bool {
	if !strings.HasPrefix(s, "/") {
		return false
	}
	_, err := ma.NewMultiaddr(s)
	return err == nil
}

func candidates(r *fw.Rand, key string, def interface{}) []cand {
	var cs []cand
	add := func(kind string, zero bool, vs ...interface{}) {
		for _, v := range vs {
			cs = append(cs, cand{v, kind, zero})
		}
	}
	if strings.HasSuffix(key, "_per_level") {
		// lists of numbers whose default is null
		add("number-list", false, []interface{}{1, 1.5, 2}, []interface{}{2}, []interface{}{1, 2, 3, 4})
		add("number-list-zero", true, []interface{}{}, nil)
		add("number-list-malformed", true, []interface{}{"a"}, "x")
		return cs
	}
	switch t := def.(type) {
	case bool:
		add("bool", false, true, false)
	case json.Number:
		n, _ := t.Int64()
		for _, v := range []int64{n + 1, n + 2, 1, 2, 7, 1000, 123456} {
			if v != 0 {
				add("number", false, v)
			}
		}
		add("number-neg", false, int64(-1), int64(-2))
		add("number-huge", false, int64(1)<<40)
		add("number-zero", true, int64(0))
		add("number-malformed", true, "12", 1.5, true)
	case string:
		switch {
		case isDuration(t) || strings.HasSuffix(key, "_timeout") || strings.HasSuffix(key, "_interval") || strings.HasSuffix(key, "_ttl") || strings.HasSuffix(key, "_period") || strings.HasSuffix(key, "_age"):
			add("duration", false, "90s", "1h", "7m13s", "250ms", "1ns", "36h")
			add("duration-neg", false, "-1s", "-5m")
			add("duration-zero", true, "0s", "")
			add("duration-malformed", true, "5", "1 hour", "abc", 5)
		case isMaddr(t) || strings.Contains(key, "multiaddress"):
			add("maddr", false, "/ip4/127.0.0.1/tcp/1234", "/ip4/0.0.0.0/tcp/9999", "/dns4/localhost/tcp/80", "/ip6/::1/tcp/77", "/ip4/10.1.2.3/tcp/5001")
			add("maddr-zero", true, "")
			add("maddr-malformed", true, "/ip4/1", "localhost:80", "/tcp", 7)
		case key == "secret":
			add("secret", false, canarySecret, strings.Repeat("ab", 32))
			add("secret-zero", true, "")
			add("secret-malformed", true, "abcd", strings.Repeat("zz", 32), 1)
		default:
			add("string", false, "abc", "x-y_z", "a/b/c", strings.Repeat("q", 300), "Zürich ✓", "ABC", "Abc", "a/b/c/", "a//b/c", "abc ")
			add("string-zero", true, "")
			add("string-malformed", true, 3, []interface{}{"a"})
		}
	case []interface{}:
		if key == "init_peerset" || key == "trusted_peers" {
			p := func(i int) string { return peer.Encode(gen.Peer(i)) }
			add("peer-list", false, []interface{}{p(0)}, []interface{}{p(0), p(1)}, []interface{}{p(2)}, []interface{}{p(3), p(4), p(5)})
			add("peer-list-zero", true, []interface{}{}, nil)
			add("peer-list-malformed", true, []interface{}{"nope"}, []interface{}{5}, "x")
			break
		}
		isAddr := strings.Contains(key, "multiaddress") || strings.Contains(key, "addresses")
		for _, e := range t {
			if s, ok := e.(string); ok && isMaddr(s) {
				isAddr = true
			}
		}
		if isAddr {
			add("maddr-list", false, []interface{}{"/ip4/127.0.0.1/tcp/1234"}, []interface{}{"/ip4/127.0.0.1/tcp/1234", "/ip6/::1/tcp/77"},
				[]interface{}{"/dns4/localhost/tcp/80"}, []interface{}{"/ip4/10.1.2.3/tcp/5001", "/ip4/10.1.2.4/tcp/5001", "/ip4/10.1.2.5/tcp/5001"})
			add("maddr-list-zero", true, []interface{}{}, nil)
			add("maddr-list-malformed", true, []interface{}{"nope"}, []interface{}{5}, "x")
		} else {
			add("list", false, []interface{}{"a"}, []interface{}{"a", "b"}, []interface{}{"GET"}, []interface{}{"X-One", "X-Two", "X-Three"},
				// the same names in another spelling are another setting
				[]interface{}{"x-one", "X-TWO"}, []interface{}{"X-One", "X-Two"}, []interface{}{"A"}, []interface{}{"b", "a"})
			add("list-zero", true, []interface{}{}, nil)
			add("list-malformed", true, []interface{}{5}, "x", map[string]interface{}{})
		}
	case map[string]interface{}:
		if key == "basic_auth_credentials" {
			add("map", false, map[string]interface{}{"u": canaryPass}, map[string]interface{}{"u": canaryPass, "v": "w"}, map[string]interface{}{"admin": "x"})
		} else {
			add("map", false, map[string]interface{}{"A": []interface{}{"b"}}, map[string]interface{}{"A": []interface{}{"c"}, "D": []interface{}{"e"}},
				map[string]interface{}{"X-Y": []interface{}{"1", "2"}}, map[string]interface{}{"x-y": []interface{}{"1", "2"}}, map[string]interface{}{"X-Y": []interface{}{"2", "1"}})
		}
		add("map-zero", true, map[string]interface{}{}, nil)
		add("map-malformed", true, map[string]interface{}{"a": 5}, "x", []interface{}{})
	case nil:
		add("null", true, nil, "x", map[string]interface{}{"a": "b"})
	default:
		add("other", true, def)
	}
	return cs
}

// ----------------------------------------------------------------- oracle

type loaded struct {
	ok   bool
	err  string
	text string // ToJSON after load
	cfg  config.ComponentConfig
}

func site(stack []byte) string {
	lines := strings.Split(string(stack), "\n")
	seen := false
	for _, l := range lines {
		if strings.HasPrefix(l, "panic(") {
			seen = true
			continue
		}
		if !seen || strings.HasPrefix(l, "\t") {
			continue
		}
		fn := l
		if i := strings.LastIndex(fn, "("); i > 0 {
			fn = fn[:i]
		}
		if strings.HasPrefix(fn, "github.com/ipfs/ipfs-cluster") {
			return strings.TrimPrefix(fn, "github.com/ipfs/ipfs-cluster")
		}
	}
	return "?"
}

// loadSection loads doc into a fresh section object and applies the
// single-document part of the oracle (validate, fixed point, no panic).
func loadSection(c *fw.Ctx, s *section, doc map[string]interface{}, what string) (res loaded) {
	raw, _ := json.Marshal(doc)
	c.Journal("load %s %s", s.name, raw)
	defer func() {
		if rec := recover(); rec != nil {
			c.Violation("C15/"+s.name+"/panic@"+site(debug.Stack()), fmt.Sprintf("%s: LoadJSON/ToJSON panicked: %v", what, rec), json.RawMessage(raw))
			res = loaded{}
		}
	}()
	cfg := s.newCfg()
	cfg.SetBaseDir(c.Dir)
	if err := cfg.LoadJSON(raw); err != nil {
		return loaded{err: err.Error()}
	}
	res.ok = true
	res.cfg = cfg
	if err := cfg.Validate(); err != nil {
		c.Violation("C15/"+s.name+"/accepted-but-invalid/"+what, "LoadJSON accepted a configuration that Validate rejects: "+err.Error(), json.RawMessage(raw))
	}
	t1, err := cfg.ToJSON()
	if err != nil {
		c.Violation("C15/"+s.name+"/tojson-error/"+what, "ToJSON of an accepted configuration failed: "+err.Error(), json.RawMessage(raw))
		return
	}
	res.text = string(t1)
	cfg2 := s.newCfg()
	cfg2.SetBaseDir(c.Dir)
	if err := cfg2.LoadJSON(t1); err != nil {
		c.Violation("C15/"+s.name+"/reload-error/"+what, "a saved configuration does not load: "+err.Error(), map[string]interface{}{"in": json.RawMessage(raw), "saved": json.RawMessage(t1)})
		return
	}
	t2, err := cfg2.ToJSON()
	if err != nil || string(t2) != string(t1) {
		c.Violation("C15/"+s.name+"/not-fixed-point/"+what, "save->load->save is not a fixed point", map[string]interface{}{"in": json.RawMessage(raw), "saved1": json.RawMessage(t1), "saved2": json.RawMessage(t2)})
	}
	return
}

func defaultDoc(c *fw.Ctx, s *section) (map[string]interface{}, config.ComponentConfig) {
	cfg := s.newCfg()
	cfg.SetBaseDir(c.Dir)
	if err := cfg.Default(); err != nil {
		c.Violation("C15/"+s.name+"/default-error", err.Error(), nil)
		return nil, nil
	}
	if err := cfg.Validate(); err != nil {
		c.Violation("C15/"+s.name+"/default-invalid", "Default() does not validate: "+err.Error(), nil)
	}
	raw, err := cfg.ToJSON()
	if err != nil {
		c.Violation("C15/"+s.name+"/default-tojson", err.Error(), nil)
		return nil, nil
	}
	var doc map[string]interface{}
	d := json.NewDecoder(bytes.NewReader(raw))
	d.UseNumber()
	if err := d.Decode(&doc); err != nil {
		c.Violation("C15/"+s.name+"/default-notjson", err.Error(), string(raw))
		return nil, nil
	}
	return doc, cfg
}

func pathStr(p []string) string { return strings.Join(p, ".") }

func sameJSON(a, b interface{}) bool {
	x, _ := json.Marshal(a)
	y, _ := json.Marshal(b)
	return string(x) == string(y)
}

func run(c *fw.Ctx, idx int) {
	s := &sections[idx%len(sections)]
	round := idx / len(sections)
	r := c.Rand("main")
	doc, _ := defaultDoc(c, s)
	if doc == nil {
		return
	}
	c.Eval("default/" + s.name)
	// planted secrets in the base document
	if s.name == "cluster" {
		doc["secret"] = canarySecret
	}
	if s.name == "restapi" {
		doc["basic_auth_credentials"] = map[string]interface{}{"canaryuser": canaryPass}
		// half of the rounds the REST API has its own libp2p identity: a private key to hide
		if round%2 == 1 {
			if id := canaryKeyID(); id != "" {
				doc["private_key"] = canaryKey
				doc["id"] = id
				doc["libp2p_listen_multiaddress"] = []interface{}{"/ip4/127.0.0.1/tcp/9601"}
			}
		}
	}
	var ls []leaf
	leaves(nil, doc, &ls)
	for k, v := range s.elided {
		found := false
		for _, l := range ls {
			if len(l.path) == 1 && l.path[0] == k {
				found = true
			}
		}
		if !found {
			b, _ := json.Marshal(v)
			var vv interface{}
			d := json.NewDecoder(bytes.NewReader(b))
			d.UseNumber()
			d.Decode(&vv)
			ls = append(ls, leaf{[]string{k}, vv})
		}
	}
	sort.Slice(ls, func(i, j int) bool { return pathStr(ls[i].path) < pathStr(ls[j].path) })

	base := loadSection(c, s, doc, "base")
	if !base.ok {
		c.Violation("C15/"+s.name+"/default-not-loadable", "Default()->ToJSON does not load: "+base.err, doc)
		return
	}
	checkSecrets(c, s, base.cfg)

	switch round % 4 {
	case 0, 1: // single-leaf pairs (round 0: every leaf, first pairs; others: random)
		for li, l := range ls {
			if round > 0 && !r.Chance(1, 2) {
				continue
			}
			key := l.path[len(l.path)-1]
			cs := candidates(r, key, l.val)
			results := make([]loaded, len(cs))
			for i, cd := range cs {
				d := clone(doc)
				setPath(d, l.path, cd.v)
				results[i] = loadSection(c, s, d, "leaf:"+pathStr(l.path))
				c.Eval(fmt.Sprintf("%s/%s/%s/%v", s.name, pathStr(l.path), cd.kind, results[i].ok))
				if li == 0 && i == 0 && round == 0 {
					c.Sample(map[string]interface{}{"section": s.name, "leaf": pathStr(l.path), "value": cd.v, "accepted": results[i].ok, "error": results[i].err})
				}
			}
			// injectivity between accepted non-zero candidates of the same kind family
			for i := range cs {
				for j := i + 1; j < len(cs); j++ {
					if cs[i].zero || cs[j].zero || !results[i].ok || !results[j].ok || sameJSON(cs[i].v, cs[j].v) {
						continue
					}
					c.Eval(fmt.Sprintf("%s/%s/distinct/%s~%s", s.name, pathStr(l.path), cs[i].kind, cs[j].kind))
					if results[i].text == results[j].text {
						c.Violation("C15/"+s.name+"/setting-lost/"+pathStr(l.path),
							fmt.Sprintf("two accepted configurations that differ in %s (%v vs %v) save identically: the setting is dropped or replaced", pathStr(l.path), cs[i].v, cs[j].v),
							map[string]interface{}{"v1": cs[i].v, "v2": cs[j].v, "saved": json.RawMessage(results[i].text)})
					}
				}
			}
		}
	case 2: // two leaves perturbed together
		for n := 0; n < 40; n++ {
			l1, l2 := ls[r.Intn(len(ls))], ls[r.Intn(len(ls))]
			if pathStr(l1.path) == pathStr(l2.path) {
				continue
			}
			c1 := candidates(r, l1.path[len(l1.path)-1], l1.val)
			c2 := candidates(r, l2.path[len(l2.path)-1], l2.val)
			a, b := c1[r.Intn(len(c1))], c1[r.Intn(len(c1))]
			o := c2[r.Intn(len(c2))]
			d1, d2 := clone(doc), clone(doc)
			setPath(d1, l1.path, a.v)
			setPath(d1, l2.path, o.v)
			setPath(d2, l1.path, b.v)
			setPath(d2, l2.path, o.v)
			r1 := loadSection(c, s, d1, "pair:"+pathStr(l1.path))
			r2 := loadSection(c, s, d2, "pair:"+pathStr(l1.path))
			c.Eval(fmt.Sprintf("%s/pair/%s+%s/%v", s.name, pathStr(l1.path), pathStr(l2.path), r1.ok && r2.ok))
			if r1.ok && r2.ok && !a.zero && !b.zero && !sameJSON(a.v, b.v) && r1.text == r2.text {
				c.Violation("C15/"+s.name+"/setting-lost/"+pathStr(l1.path),
					fmt.Sprintf("with %s=%v: configurations differing in %s (%v vs %v) save identically", pathStr(l2.path), o.v, pathStr(l1.path), a.v, b.v),
					map[string]interface{}{"saved": json.RawMessage(r1.text)})
			}
		}
	case 3: // full file through the manager + environment
		managerCase(c, s, r, doc, ls)
		envCase(c, s, r, doc, ls, base)
	}
}

func checkSecrets(c *fw.Ctx, s *section, cfg config.ComponentConfig) {
	if len(s.secrets) == 0 {
		return
	}
	b, err := cfg.ToDisplayJSON()
	c.Eval("display/" + s.name)
	if err != nil {
		c.Violation("C15/"+s.name+"/display-error", err.Error(), nil)
		return
	}
	for _, can := range []string{canarySecret, canaryPass, canaryKey} {
		if bytes.Contains(b, []byte(can)) {
			c.Violation("C15/"+s.name+"/secret-displayed", "ToDisplayJSON shows a secret", string(b))
		}
	}
}

func newManager(c *fw.Ctx) (*config.Manager, map[string]config.ComponentConfig) {
	m := config.NewManager()
	comps := map[string]config.ComponentConfig{}
	for i := range sections {
		s := &sections[i]
		cfg := s.newCfg()
		m.RegisterComponent(s.typ, cfg)
		comps[s.name] = cfg
	}
	return m, comps
}

var sectionKey = map[config.SectionType]string{config.Consensus: "consensus", config.API: "api", config.IPFSConn: "ipfs_connector",
	config.PinTracker: "pin_tracker", config.Monitor: "monitor", config.Informer: "informer", config.Observations: "observations", config.Datastore: "datastore"}

func managerCase(c *fw.Ctx, s *section, r *fw.Rand, doc map[string]interface{}, ls []leaf) {
	defer func() {
		if rec := recover(); rec != nil {
			c.Violation("C15/manager/panic@"+site(debug.Stack()), fmt.Sprintf("config.Manager panicked: %v", rec), nil)
		}
	}()
	m, _ := newManager(c)
	defer m.Shutdown()
	if err := m.Default(); err != nil {
		c.Violation("C15/manager/default-error", err.Error(), nil)
		return
	}
	path := filepath.Join(c.Dir, fmt.Sprintf("service-%d.json", c.CaseIdx()))
	if err := m.SaveJSON(path); err != nil {
		c.Violation("C15/manager/default-save-error", "default full configuration cannot be saved: "+err.Error(), nil)
		return
	}
	defer os.Remove(path)
	raw, _ := os.ReadFile(path)
	var full map[string]interface{}
	d := json.NewDecoder(bytes.NewReader(raw))
	d.UseNumber()
	d.Decode(&full)
	locate := func(full map[string]interface{}) map[string]interface{} {
		if s.typ == config.Cluster {
			x, _ := full["cluster"].(map[string]interface{})
			return x
		}
		sec, _ := full[sectionKey[s.typ]].(map[string]interface{})
		if sec == nil {
			return nil
		}
		x, _ := sec[s.name].(map[string]interface{})
		return x
	}
	if locate(full) == nil {
		c.Violation("C15/manager/section-missing/"+s.name, "section absent from the saved full configuration", string(raw))
		return
	}
	// a Manager that does not have this section's component registered (another consensus,
	// another datastore ...) keeps the section as the file has it when it saves
	if s.typ != config.Cluster {
		l := ls[r.Intn(len(ls))]
		cs := candidates(r, l.path[len(l.path)-1], l.val)
		cd := cs[r.Intn(len(cs))]
		f := clone(full)
		sec := locate(f)
		setPath(sec, l.path, cd.v)
		wantSec, _ := json.Marshal(sec)
		fb, _ := json.MarshalIndent(f, "", " ")
		p := filepath.Join(c.Dir, fmt.Sprintf("svc-partial-%d.json", c.CaseIdx()))
		os.WriteFile(p, fb, 0o600)
		m3 := config.NewManager()
		for i := range sections {
			o := &sections[i]
			if o.name == s.name {
				continue
			}
			m3.RegisterComponent(o.typ, o.newCfg())
		}
		if err := m3.LoadJSONFromFile(p); err == nil {
			if out, err := m3.ToJSON(); err == nil {
				var of map[string]interface{}
				dd := json.NewDecoder(bytes.NewReader(out))
				dd.UseNumber()
				dd.Decode(&of)
				gotSec, _ := json.Marshal(locate(of))
				c.Eval("manager/unregistered-section-kept/" + s.name)
				if string(gotSec) != string(wantSec) {
					c.Violation("C15/manager/unregistered-section-changed/"+s.name, "a Manager without this section's component loaded a full file and saved it: the section is not what the file had",
						map[string]interface{}{"file": json.RawMessage(wantSec), "saved": json.RawMessage(gotSec)})
				}
			}
		}
		m3.Shutdown()
		os.Remove(p)
	}
	// relocation: what a full file saves as must not depend on the directory it was loaded from
	for n := 0; n < 6; n++ {
		l := ls[r.Intn(len(ls))]
		cs := candidates(r, l.path[len(l.path)-1], l.val)
		cd := cs[r.Intn(len(cs))]
		f := clone(full)
		sec := locate(f)
		if s.name == "cluster" {
			sec["secret"] = canarySecret
		}
		setPath(sec, l.path, cd.v)
		fb, _ := json.MarshalIndent(f, "", " ")
		var outs [2]string
		var oks [2]bool
		for i, sub := range []string{fmt.Sprintf("reloc-a-%d", c.CaseIdx()), fmt.Sprintf("reloc-b-%d/deeper", c.CaseIdx())} {
			d := filepath.Join(c.Dir, sub)
			os.MkdirAll(d, 0o755)
			p := filepath.Join(d, "service.json")
			os.WriteFile(p, fb, 0o600)
			mm, _ := newManager(c)
			if err := mm.LoadJSONFromFile(p); err == nil {
				if out, err := mm.ToJSON(); err == nil {
					outs[i], oks[i] = string(out), true
				}
			}
			mm.Shutdown()
			os.RemoveAll(filepath.Join(c.Dir, strings.SplitN(sub, "/", 2)[0]))
		}
		c.Eval(fmt.Sprintf("manager-relocation/%s/%s/%v", s.name, pathStr(l.path), oks[0] && oks[1]))
		if oks[0] != oks[1] {
			c.Violation("C15/manager/acceptance-depends-on-file-location/"+s.name, fmt.Sprintf("the same full file (%s = %v) is accepted in one directory and refused in another", pathStr(l.path), cd.v), nil)
		} else if oks[0] && outs[0] != outs[1] {
			c.Violation("C15/manager/saved-configuration-depends-on-file-location/"+s.name+"/"+pathStr(l.path),
				fmt.Sprintf("the same full file (%s = %v) loaded from two directories saves differently: a setting was rewritten relative to the file's location", pathStr(l.path), cd.v),
				map[string]interface{}{"a": outs[0], "b": outs[1]})
		}
	}
	// environment through the Manager: a variable of this section has the same effect
	// whether the file spells the section out (at its defaults) or leaves it out
	if s.typ != config.Cluster {
		for n := 0; n < 6; n++ {
			l := ls[r.Intn(len(ls))]
			cs := candidates(r, l.path[len(l.path)-1], l.val)
			cd := cs[r.Intn(len(cs))]
			ev, ok := envValue(cd.v)
			if !ok || ev == "" {
				continue
			}
			name := envName(s, l.path)
			var secs [2]string
			var oks [2]bool
			for i := 0; i < 2; i++ {
				f := clone(full)
				if i == 1 {
					grp, _ := f[sectionKey[s.typ]].(map[string]interface{})
					delete(grp, s.name)
				}
				fb, _ := json.MarshalIndent(f, "", " ")
				p := filepath.Join(c.Dir, fmt.Sprintf("svc-env-%d-%d-%d.json", c.CaseIdx(), n, i))
				os.WriteFile(p, fb, 0o600)
				mm, _ := newManager(c)
				c.Journal("manager env %s=%q section-in-file=%v", name, ev, i == 0)
				if err := mm.LoadJSONFromFile(p); err == nil {
					os.Setenv(name, ev)
					err = mm.ApplyEnvVars()
					os.Unsetenv(name)
					if err == nil {
						if out, err := mm.ToJSON(); err == nil {
							var of map[string]interface{}
							dd := json.NewDecoder(bytes.NewReader(out))
							dd.UseNumber()
							dd.Decode(&of)
							sb, _ := json.Marshal(locate(of))
							secs[i], oks[i] = string(sb), true
						}
					}
				}
				mm.Shutdown()
				os.Remove(p)
			}
			c.Eval(fmt.Sprintf("manager-env/%s/%s/%v/%v", s.name, pathStr(l.path), oks[0], oks[1]))
			if oks[0] && oks[1] && secs[0] != secs[1] {
				c.Violation("C15/manager/env-ignored-for-section-left-out/"+s.name,
					fmt.Sprintf("%s=%q: the saved section differs between a file that spells the section out at its defaults and one that leaves it out", name, ev),
					map[string]interface{}{"section-in-file": json.RawMessage(secs[0]), "section-left-out": json.RawMessage(secs[1])})
			}
		}
	}
	for n := 0; n < 12; n++ {
		l := ls[r.Intn(len(ls))]
		cs := candidates(r, l.path[len(l.path)-1], l.val)
		a, b := cs[r.Intn(len(cs))], cs[r.Intn(len(cs))]
		texts := [2]string{}
		oks := [2]bool{}
		for i, cd := range []cand{a, b} {
			f := clone(full)
			sec := locate(f)
			if s.name == "cluster" {
				sec["secret"] = canarySecret
			}
			setPath(sec, l.path, cd.v)
			fb, _ := json.MarshalIndent(f, "", " ")
			p := filepath.Join(c.Dir, fmt.Sprintf("svc-%d-%d-%d.json", c.CaseIdx(), n, i))
			os.WriteFile(p, fb, 0o600)
			c.Journal("manager %s %s=%v", s.name, pathStr(l.path), cd.v)
			m2, _ := newManager(c)
			err := m2.LoadJSONFromFile(p)
			c.Eval(fmt.Sprintf("manager/%s/%s/%s/%v", s.name, pathStr(l.path), cd.kind, err == nil))
			if err == nil {
				oks[i] = true
				if verr := m2.Validate(); verr != nil {
					c.Violation("C15/manager/accepted-but-invalid/"+s.name, verr.Error(), json.RawMessage(fb))
				}
				p2 := p + ".saved"
				if serr := m2.SaveJSON(p2); serr != nil {
					c.Violation("C15/manager/save-error/"+s.name, serr.Error(), json.RawMessage(fb))
				} else {
					sb, _ := os.ReadFile(p2)
					texts[i] = string(sb)
					m3, _ := newManager(c)
					if lerr := m3.LoadJSONFromFile(p2); lerr != nil {
						c.Violation("C15/manager/reload-error/"+s.name, lerr.Error(), json.RawMessage(sb))
					} else {
						p3 := p + ".saved2"
						m3.SaveJSON(p3)
						sb2, _ := os.ReadFile(p3)
						if string(sb2) != string(sb) {
							c.Violation("C15/manager/not-fixed-point/"+s.name, "full file save->load->save is not a fixed point", map[string]interface{}{"leaf": pathStr(l.path), "value": cd.v})
						}
						os.Remove(p3)
						m3.Shutdown()
					}
					if db, derr := m2.ToDisplayJSON(); derr == nil {
						for _, can := range []string{canarySecret, canaryPass, canaryKey} {
							if bytes.Contains(db, []byte(can)) {
								c.Violation("C15/manager/secret-displayed", "Manager.ToDisplayJSON shows a secret", string(db))
							}
						}
					}
					os.Remove(p2)
				}
			}
			m2.Shutdown()
			os.Remove(p)
		}
		if oks[0] && oks[1] && !a.zero && !b.zero && !sameJSON(a.v, b.v) && texts[0] == texts[1] && texts[0] != "" {
			c.Violation("C15/manager/setting-lost/"+s.name+"/"+pathStr(l.path),
				fmt.Sprintf("full files differing in %s.%s (%v vs %v) save identically", s.name, pathStr(l.path), a.v, b.v), nil)
		}
	}
}

func envName(s *section, path []string) string {
	parts := []string{strings.ToUpper(s.envKey)}
	for _, p := range path {
		parts = append(parts, strings.ToUpper(strings.ReplaceAll(p, "_", "")))
	}
	return strings.Join(parts, "_")
}

func envValue(v interface{}) (string, bool) {
	switch t := v.(type) {
	case string:
		return t, true
	case bool:
		return fmt.Sprint(t), true
	case int64:
		return fmt.Sprint(t), true
	case json.Number:
		return t.String(), true
	case []interface{}:
		var ss []string
		for _, e := range t {
			s, ok := e.(string)
			if !ok {
				return "", false
			}
			ss = append(ss, s)
		}
		return strings.Join(ss, ","), true
	}
	return "", false
}

func envCase(c *fw.Ctx, s *section, r *fw.Rand, doc map[string]interface{}, ls []leaf, base loaded) {
	// with no variable set, applying the environment changes nothing - whatever the file said
	for n := 0; n < 12; n++ {
		l := ls[r.Intn(len(ls))]
		cs := candidates(r, l.path[len(l.path)-1], l.val)
		cd := cs[r.Intn(len(cs))]
		d := clone(doc)
		setPath(d, l.path, cd.v)
		raw, _ := json.Marshal(d)
		func() {
			defer func() {
				if rec := recover(); rec != nil {
					c.Violation("C15/"+s.name+"/env-panic@"+site(debug.Stack()), fmt.Sprintf("ApplyEnvVars panicked with an empty environment: %v", rec), nil)
				}
			}()
			cfg := s.newCfg()
			cfg.SetBaseDir(c.Dir)
			if err := cfg.LoadJSON(raw); err != nil {
				return
			}
			t1, err1 := cfg.ToJSON()
			if err1 != nil {
				return
			}
			if err := cfg.ApplyEnvVars(); err != nil {
				c.Eval(fmt.Sprintf("env-empty/%s/%s/refused", s.name, pathStr(l.path)))
				return
			}
			t2, err2 := cfg.ToJSON()
			c.Eval(fmt.Sprintf("env-empty/%s/%s/%s", s.name, pathStr(l.path), cd.kind))
			if err2 != nil || string(t1) != string(t2) {
				c.Violation("C15/"+s.name+"/empty-environment-changed-the-configuration/"+pathStr(l.path),
					"load, ApplyEnvVars with no variable set, save: the saved configuration differs from the one saved before the environment step",
					map[string]interface{}{"before": json.RawMessage(t1), "after": json.RawMessage(t2), "error": fmt.Sprint(err2)})
			}
		}()
	}
	var effective []leaf // leaves whose variable was seen to take effect over the default
	defer func() {
		// every switch of the section, every time: the file says true, the environment says
		// false. (A variable name that has no effect at all is left alone.)
		probe := func(l leaf, fileV interface{}, ev string) (saved string, ok bool) {
			defer func() {
				if rec := recover(); rec != nil {
					ok = false
				}
			}()
			fd := clone(doc)
			setPath(fd, l.path, fileV)
			raw, _ := json.Marshal(fd)
			cfg := s.newCfg()
			cfg.SetBaseDir(c.Dir)
			if cfg.LoadJSON(raw) != nil {
				return "", false
			}
			name := envName(s, l.path)
			if ev != "" {
				os.Setenv(name, ev)
				defer os.Unsetenv(name)
			}
			if cfg.ApplyEnvVars() != nil {
				return "", false
			}
			t, err := cfg.ToJSON()
			return string(t), err == nil
		}
		for _, l := range ls {
			if _, isBool := l.val.(bool); !isBool {
				continue
			}
			fTrue, ok1 := probe(l, true, "")
			fFalse, ok2 := probe(l, false, "")
			upT, ok3 := probe(l, false, "true")
			if !ok1 || !ok2 || !ok3 || fTrue == fFalse || upT != fTrue {
				continue // the switch cannot be set through the file, or the variable name has no effect
			}
			down, ok4 := probe(l, true, "false")
			if !ok4 {
				continue
			}
			c.Eval(fmt.Sprintf("env-over-file/switch/%s/%s", s.name, pathStr(l.path)))
			if down != fFalse {
				leafKey := pathStr(l.path)
				if len(l.path) > 1 && strings.HasSuffix(l.path[0], "_options") {
					leafKey = l.path[0] + ".<any switch>" // one merge of an options struct, one call site
				}
				c.Violation("C15/"+s.name+"/env-false-ignored-over-file-true/"+leafKey,
					fmt.Sprintf("%s=true switches %s on over a file that says false, but %s=false does not switch it off over a file that says true", envName(s, l.path), pathStr(l.path), envName(s, l.path)),
					map[string]interface{}{"saved": down})
			}
		}
		// the variable wins over what the file says, not only over the default: the file sets
		// the leaf to one accepted value, the environment to another
		for n := 0; n < 12 && len(effective) > 0; n++ {
			l := effective[r.Intn(len(effective))]
			cs := candidates(r, l.path[len(l.path)-1], l.val)
			fileV, envV := cs[r.Intn(len(cs))], cs[r.Intn(len(cs))]
			ev, ok := envValue(envV.v)
			if !ok || ev == "" || fileV.zero || sameJSON(fileV.v, envV.v) {
				continue
			}
			if envV.zero || strings.Contains(envV.kind, "malformed") || strings.Contains(fileV.kind, "malformed") {
				continue // only well-formed, non-zero values are demanded
			}
			if ev == "false" || ev == "0" || ev == "0s" {
				continue // zero-class values: numbers are not demanded (zero means unset here); booleans are enumerated below
			}
			fd, ed := clone(doc), clone(doc)
			setPath(fd, l.path, fileV.v)
			setPath(ed, l.path, envV.v)
			fileL := loadSection(c, s, fd, "env-file:"+pathStr(l.path))
			want := loadSection(c, s, ed, "env-want:"+pathStr(l.path))
			if !fileL.ok || !want.ok || fileL.text == want.text {
				continue
			}
			name := envName(s, l.path)
			func() {
				defer func() {
					if rec := recover(); rec != nil {
						c.Violation("C15/"+s.name+"/env-panic@"+site(debug.Stack()), fmt.Sprintf("ApplyEnvVars panicked with %s=%q: %v", name, ev, rec), nil)
					}
				}()
				raw, _ := json.Marshal(fd)
				cfg := s.newCfg()
				cfg.SetBaseDir(c.Dir)
				if cfg.LoadJSON(raw) != nil {
					return
				}
				c.Journal("env over file %s=%q (file: %v)", name, ev, fileV.v)
				os.Setenv(name, ev)
				err := cfg.ApplyEnvVars()
				os.Unsetenv(name)
				if err != nil {
					return
				}
				t, terr := cfg.ToJSON()
				if terr != nil {
					return
				}
				c.Eval(fmt.Sprintf("env-over-file/%s/%s/%s", s.name, pathStr(l.path), envV.kind))
				if string(t) == fileL.text {
					leafKey := pathStr(l.path)
					if s.name == "badger" && l.path[0] == "badger_options" && (ev == "false" || ev == "0" || ev == "0s") {
						// one defect, one key: the badger loader merges options skipping zero
						// values (known finding), whichever option and whichever way it arrives
						leafKey = "badger_options.<any>=zero-value"
					}
					c.Violation("C15/"+s.name+"/env-value-ignored-over-file-value/"+leafKey,
						fmt.Sprintf("%s=%q takes effect over the default but is ignored when the file says %v: the file's value is kept and saved", name, ev, fileV.v),
						map[string]interface{}{"saved": json.RawMessage(t), "expected": json.RawMessage(want.text)})
				}
			}()
		}
	}()
	for n := 0; n < 25; n++ {
		l := ls[r.Intn(len(ls))]
		cs := candidates(r, l.path[len(l.path)-1], l.val)
		cd := cs[r.Intn(len(cs))]
		ev, ok := envValue(cd.v)
		if !ok || ev == "" {
			continue
		}
		name := envName(s, l.path)
		// expected: same as loading the value through JSON
		d := clone(doc)
		setPath(d, l.path, cd.v)
		viaJSON := loadSection(c, s, d, "env-ref:"+pathStr(l.path))
		func() {
			defer func() {
				if rec := recover(); rec != nil {
					c.Violation("C15/"+s.name+"/env-panic@"+site(debug.Stack()), fmt.Sprintf("ApplyEnvVars panicked with %s=%q: %v", name, ev, rec), nil)
				}
			}()
			raw, _ := json.Marshal(doc)
			cfg := s.newCfg()
			cfg.SetBaseDir(c.Dir)
			if err := cfg.LoadJSON(raw); err != nil {
				return
			}
			c.Journal("env %s=%q", name, ev)
			os.Setenv(name, ev)
			err := cfg.ApplyEnvVars()
			os.Unsetenv(name)
			if err != nil {
				c.Eval(fmt.Sprintf("env/%s/%s/%s/refused", s.name, pathStr(l.path), cd.kind))
				return
			}
			t, terr := cfg.ToJSON()
			if terr != nil {
				// ApplyEnvVars of several sections does not validate; an invalid value shows up here
				c.Eval(fmt.Sprintf("env/%s/%s/%s/unsavable", s.name, pathStr(l.path), cd.kind))
				return
			}
			switch {
			case string(t) == base.text && (!viaJSON.ok || viaJSON.text != base.text):
				c.Eval(fmt.Sprintf("env/%s/%s/%s/ineffective", s.name, pathStr(l.path), cd.kind))
				c.Count("env_ineffective", 1)
			case viaJSON.ok && string(t) == viaJSON.text:
				c.Eval(fmt.Sprintf("env/%s/%s/%s/same-as-json", s.name, pathStr(l.path), cd.kind))
				c.Count("env_effective", 1)
				if string(t) != base.text {
					effective = append(effective, l)
				}
			case !viaJSON.ok:
				// JSON refuses the value but the environment path accepted it and changed the configuration
				if verr := cfg.Validate(); verr != nil {
					c.Eval(fmt.Sprintf("env/%s/%s/%s/accepted-unvalidated", s.name, pathStr(l.path), cd.kind))
					c.Count("env_accepts_what_validate_rejects", 1)
				} else {
					c.Eval(fmt.Sprintf("env/%s/%s/%s/accepted-json-refused", s.name, pathStr(l.path), cd.kind))
				}
			default:
				if cd.zero {
					c.Eval(fmt.Sprintf("env/%s/%s/%s/zero-differs", s.name, pathStr(l.path), cd.kind))
					return
				}
				c.Violation("C15/"+s.name+"/env-differs-from-json/"+pathStr(l.path),
					fmt.Sprintf("%s=%q yields a different configuration than the same value in the file", name, ev),
					map[string]interface{}{"env": json.RawMessage(t), "json": json.RawMessage(viaJSON.text)})
			}
		}()
	}
}

// canaryKeyID is the peer id that belongs to canaryKey.
func canaryKeyID() string {
	b, err := base64.StdEncoding.DecodeString(canaryKey)
	if err != nil {
		return ""
	}
	k, err := crypto.UnmarshalPrivateKey(b)
	if err != nil {
		return ""
	}
	id, err := peer.IDFromPrivateKey(k)
	if err != nil {
		return ""
	}
	return peer.Encode(id)
}
