// Package trk is the component-level rig for the stateless pin tracker: the
// real tracker + operation table, a real dsstate as the shared pinset, the
// model IPFS daemon behind a recording RPC service.
package trk

import (
	"context"
	"errors"
	"time"

	"verif/sim"

	cid "github.com/ipfs/go-cid"
	ds "github.com/ipfs/go-datastore"
	dssync "github.com/ipfs/go-datastore/sync"
	"github.com/ipfs/ipfs-cluster/api"
	"github.com/ipfs/ipfs-cluster/pintracker/stateless"
	"github.com/ipfs/ipfs-cluster/state"
	"github.com/ipfs/ipfs-cluster/state/dsstate"
	peer "github.com/libp2p/go-libp2p-core/peer"
)

// Rig is one tracker under test with its surroundings.
type Rig struct {
	Self peer.ID
	St   *dsstate.State
	IPFS *sim.IPFSModel
	Rec  *sim.RPCRecorder
	T    *stateless.Tracker
}

// New builds a rig.
func New(self peer.ID, queue, concurrent int) *Rig {
	r := &Rig{Self: self, IPFS: sim.NewIPFSModel(self)}
	r.St, _ = dsstate.New(dssync.MutexWrap(ds.NewMapDatastore()), "/t", dsstate.DefaultHandle())
	r.Rec = sim.NewRPCRecorder(func(ctx context.Context, call sim.Call, out interface{}) error {
		if call.Service != "IPFSConnector" {
			return errors.New("rig: unexpected RPC " + call.Name())
		}
		switch call.Method {
		case "Pin":
			return r.IPFS.Pin(ctx, call.In.(*api.Pin))
		case "Unpin":
			return r.IPFS.Unpin(ctx, call.In.(*api.Pin).Cid)
		case "PinLsCid":
			st, err := r.IPFS.PinLsCid(ctx, call.In.(*api.Pin))
			if err != nil {
				return err
			}
			*(out.(*api.IPFSPinStatus)) = st
			return nil
		case "PinLs":
			m, err := r.IPFS.PinLs(ctx, call.In.(string))
			if err != nil {
				return err
			}
			*(out.(*map[string]api.IPFSPinStatus)) = m
			return nil
		}
		return errors.New("rig: unexpected RPC " + call.Name())
	})
	cfg := &stateless.Config{}
	cfg.Default()
	cfg.MaxPinQueueSize = queue
	cfg.ConcurrentPins = concurrent
	r.T = stateless.New(cfg, self, "verif", func(ctx context.Context) (state.ReadOnly, error) { return r.St, nil })
	r.T.SetClient(r.Rec.Client)
	return r
}

// Close shuts the tracker down.
func (r *Rig) Close() {
	ctx, cancel := context.WithTimeout(context.Background(), 10*time.Second)
	defer cancel()
	r.T.Shutdown(ctx)
}

// Pending tells whether any operation is queued or in progress, or a call is
// inside the model daemon.
func (r *Rig) Pending(ctx context.Context) bool {
	if r.IPFS.Inflight() > 0 {
		return true
	}
	for _, pi := range r.T.StatusAll(ctx, api.TrackerStatusUndefined) {
		switch pi.Status {
		case api.TrackerStatusPinQueued, api.TrackerStatusUnpinQueued, api.TrackerStatusPinning, api.TrackerStatusUnpinning:
			return true
		}
	}
	return false
}

// Quiesce waits until nothing is pending for two consecutive polls.
func (r *Rig) Quiesce(ctx context.Context, limit time.Duration) bool {
	deadline := time.Now().Add(limit)
	calm := 0
	for time.Now().Before(deadline) {
		if r.Pending(ctx) {
			calm = 0
		} else {
			calm++
			if calm >= 3 {
				return true
			}
		}
		time.Sleep(2 * time.Millisecond)
	}
	return false
}

// IsErrorStatus: an error status in the sense of the property.
func IsErrorStatus(s api.TrackerStatus) bool {
	return s == api.TrackerStatusPinError || s == api.TrackerStatusUnpinError || s == api.TrackerStatusClusterError || s == api.TrackerStatusUnexpectedlyUnpinned
}

// StatusOf finds the entry of c in a listing (nil = absent).
func StatusOf(list []*api.PinInfo, c cid.Cid) *api.PinInfo {
	for _, pi := range list {
		if pi.Cid.Equals(c) {
			return pi
		}
	}
	return nil
}
