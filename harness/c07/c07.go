// Package c07: untrusted peers cannot alter the pinset, drive IPFS or read closed endpoints.
package c07

import (
	"context"
	"encoding/json"
	"fmt"
	pubsub "github.com/libp2p/go-libp2p-pubsub"
	ma "github.com/multiformats/go-multiaddr"
	"os"
	"path/filepath"
	"reflect"
	"sort"
	"strings"
	"time"

	"verif/fw"
	"verif/gen"
	"verif/sim"

	cid "github.com/ipfs/go-cid"
	ipfscluster "github.com/ipfs/ipfs-cluster"
	"github.com/ipfs/ipfs-cluster/api"
	"github.com/ipfs/ipfs-cluster/consensus/crdt"
	"github.com/ipfs/ipfs-cluster/version"
	host "github.com/libp2p/go-libp2p-core/host"
	peer "github.com/libp2p/go-libp2p-core/peer"
	rpc "github.com/libp2p/go-libp2p-gorpc"
)

func init() {
	fw.Register(&fw.Prop{
		ID:    "C07",
		Level: "exploration",
		Rule: "A real Cluster peer (real rpc_api.go, rpc_policy.go and the real IsTrustedPeer of raft resp. crdt) listens on a real libp2p host; remote callers are real libp2p hosts with the cluster secret using rpc.NewClient. " +
			"The endpoint list is enumerated at run time by reflection over the five exported *RPCAPI types (an added endpoint is included automatically); for every endpoint x caller (remote B, remote U) x trust configuration " +
			"(Raft; CRDT with explicit list [B], empty list, '*'; after Trust(U)+Distrust(B) at run time) one call with a well-typed argument is made and classified by rpc.IsAuthorizationError. " +
			"Rules (data in the harness, from the property text): an untrusted remote caller is authorised on at most {Cluster.ID, Cluster.Version, Cluster.PeerAdd}; the local-only endpoints are refused to every remote caller under every configuration; in Raft every peer is trusted. " +
			"Pubsub family: three real CRDT peers; untrusted U publishes pins, control replica C (trusts U, itself not trusted by B) must receive them (propagation proven) while B must not have them two rebroadcast rounds later; after Trust(U) on B it obtains them; after Distrust(U) later updates are ignored again. " +
			"distinct_nontrivial counts distinct (configuration, caller class, endpoint, verdict class) keys.",
		Assumptions: []string{
			"that trusted callers succeed is not demanded (availability is not C07); only the authorisation class of the answer is judged",
			"unknown (newly added) endpoints are checked against the untrusted-caller rule only",
			"pubsub: not reaching propagation to the control replica within 30 s makes the scenario inconclusive (antecedent false)",
		},
		Cases: func(tier string) int {
			if tier == "thorough" {
				return 120
			}
			return 12
		},
		Children: func(string) int { return 6 },
		MinEvals: func(tier string) int {
			if tier == "thorough" {
				return 8000
			}
			return 700
		},
		CaseTimeout: 300 * time.Second,
		Run:         run,
	})
}

// the endpoints an untrusted caller may reach, and the local-only ones
var openToAll = map[string]bool{"Cluster.ID": true, "Cluster.Version": true, "Cluster.PeerAdd": true}

var localOnly = map[string]bool{}

func init() {
	for _, e := range strings.Fields(`Cluster.BlockAllocate Cluster.ConnectGraph Cluster.Join Cluster.Pin Cluster.PinGet Cluster.PinPath Cluster.Pins
		Cluster.Recover Cluster.RecoverAll Cluster.RepoGC Cluster.SendInformerMetric Cluster.SendInformersMetrics Cluster.Alerts Cluster.Status
		Cluster.StatusAll Cluster.StatusAllLocal Cluster.StatusLocal Cluster.Unpin Cluster.UnpinPath
		PinTracker.RecoverAll PinTracker.Track PinTracker.Untrack
		IPFSConnector.BlockGet IPFSConnector.ConfigKey IPFSConnector.Pin IPFSConnector.PinLs IPFSConnector.PinLsCid IPFSConnector.Resolve IPFSConnector.Unpin
		Consensus.Peers PeerMonitor.LatestMetrics PeerMonitor.MetricNames`) {
		localOnly[e] = true
	}
}

type endpoint struct {
	svc, method string
	in, out     reflect.Type
}

func endpoints() []endpoint {
	var out []endpoint
	for _, svc := range []interface{}{&ipfscluster.ClusterRPCAPI{}, &ipfscluster.PinTrackerRPCAPI{}, &ipfscluster.IPFSConnectorRPCAPI{}, &ipfscluster.ConsensusRPCAPI{}, &ipfscluster.PeerMonitorRPCAPI{}} {
		t := reflect.TypeOf(svc)
		name := ipfscluster.RPCServiceID(svc)
		for i := 0; i < t.NumMethod(); i++ {
			m := t.Method(i)
			if m.Type.NumIn() != 4 || m.Type.NumOut() != 1 {
				continue
			}
			out = append(out, endpoint{name, m.Name, m.Type.In(2), m.Type.In(3)})
		}
	}
	sort.Slice(out, func(i, j int) bool { return out[i].svc+out[i].method < out[j].svc+out[j].method })
	return out
}

func argFor(t reflect.Type, caller peer.ID) interface{} {
	c := gen.UCid(2)
	switch t {
	case reflect.TypeOf(struct{}{}):
		return struct{}{}
	case reflect.TypeOf(&api.Pin{}):
		p := api.PinCid(c)
		p.ReplicationFactorMin, p.ReplicationFactorMax = -1, -1
		return p
	case reflect.TypeOf(&api.PinPath{}):
		return &api.PinPath{Path: "/ipfs/" + c.String()}
	case reflect.TypeOf(cid.Cid{}):
		return c
	case reflect.TypeOf(peer.ID("")):
		return caller
	case reflect.TypeOf(api.Multiaddr{}):
		m, _ := api.NewMultiaddr("/ip4/127.0.0.1/tcp/1/p2p/" + peer.Encode(caller))
		return m
	case reflect.TypeOf(""):
		return "ping"
	case reflect.TypeOf(&api.NodeWithMeta{}):
		return &api.NodeWithMeta{Cid: c, Data: []byte("x")}
	}
	if t.Kind() == reflect.Ptr {
		return reflect.New(t.Elem()).Interface()
	}
	return reflect.Zero(t).Interface()
}

type caller struct {
	name   string
	h      host.Host
	client *rpc.Client
}

func newCaller(ctx context.Context, name string, keyIdx int, target host.Host) (*caller, error) {
	h, _, _, err := sim.NewNetHost(ctx, gen.Key(keyIdx), sim.NetSecret, nil, nil)
	if err != nil {
		return nil, err
	}
	sim.ConnectAll(ctx, []host.Host{h, target})
	return &caller{name, h, rpc.NewClient(h, version.RPCProtocol)}, nil
}

func run(c *fw.Ctx, idx int) {
	if idx%6 == 5 {
		pubsubCase(c, idx)
		return
	}
	matrixCase(c, idx)
}

func matrixCase(c *fw.Ctx, idx int) {
	ctx := context.Background()
	r := c.Rand("main")
	kind := []string{"raft", "crdt-list", "crdt-empty", "crdt-all", "crdt-runtime"}[idx%6%5]
	base := r.Intn(6) * 3 // vary identities
	dir := filepath.Join(c.Dir, fmt.Sprintf("case%d", idx))
	os.RemoveAll(dir)
	defer os.RemoveAll(dir)
	A := &sim.NetPeer{Idx: 0, Key: gen.Key(base), Dir: filepath.Join(dir, "A")}
	if err := A.PrepareHost(ctx); err != nil {
		c.Inconclusive("host: " + err.Error())
		return
	}
	B, err := newCaller(ctx, "B", base+1, A.Host)
	if err != nil {
		c.Inconclusive("caller: " + err.Error())
		return
	}
	defer B.h.Close()
	U, err := newCaller(ctx, "U", base+2, A.Host)
	if err != nil {
		c.Inconclusive("caller: " + err.Error())
		return
	}
	defer U.h.Close()
	opts := sim.NetOpts{Peers: []peer.ID{A.ID}}
	// authorization must not depend on settings that have nothing to do with trust:
	// a third of the rounds run with tracing enabled
	// ... nor on follower mode (a peer that does not write to the pinset keeps every door
	// shut that a full member keeps shut): a third of the rounds each, independently
	tracing, follower := r.Chance(1, 3), r.Chance(1, 3)
	// ... nor on whether pins of a lost member are re-allocated (disable_repinning; the
	// harness default is true): every second round runs with re-allocation enabled
	repin := idx%2 == 0
	{
		opts.Tune = func(cfg *ipfscluster.Config) {
			cfg.Tracing = tracing
			cfg.FollowerMode = follower
			cfg.DisableRepinning = !repin
		}
		if repin {
			c.Cover("matrix/repinning-enabled")
		}
		if tracing {
			c.Cover("matrix/tracing-enabled")
		}
		if follower {
			c.Cover("matrix/follower-mode")
		}
	}
	trusted := map[string]bool{}
	switch kind {
	case "raft":
		opts.Consensus = "raft"
		trusted["B"], trusted["U"] = true, true
	default:
		opts.Consensus = "crdt"
		// every second round the configuration goes through the JSON loader, like a
		// service.json does; an empty trust list is then written as [], as null or not at all
		viaJSON := idx >= 6
		jsonShape := r.Pick("list", "null", "absent")
		opts.CrdtTune = func(cfg *crdt.Config) {
			if viaJSON {
				js := map[string]interface{}{"cluster_name": cfg.ClusterName, "rebroadcast_interval": "300ms"}
				switch kind {
				case "crdt-list", "crdt-runtime":
					js["trusted_peers"] = []string{peer.Encode(B.h.ID())}
				case "crdt-all":
					js["trusted_peers"] = []string{"*"}
				default:
					switch jsonShape {
					case "list":
						js["trusted_peers"] = []string{}
					case "null":
						js["trusted_peers"] = nil
					}
				}
				b, _ := json.Marshal(js)
				if err := cfg.LoadJSON(b); err != nil {
					c.Inconclusive("crdt LoadJSON: " + err.Error())
				}
				// ... followed by the environment step, as the configuration manager does for every
				// file it loads (no variable is set), and every other time by a save and a reload
				if err := cfg.ApplyEnvVars(); err != nil {
					c.Inconclusive("crdt ApplyEnvVars: " + err.Error())
				}
				if idx%2 == 1 {
					if saved, err := cfg.ToJSON(); err == nil {
						if err := cfg.LoadJSON(saved); err != nil {
							c.Inconclusive("crdt reload: " + err.Error())
						}
					}
				}
				c.Cover("config-via-json/" + kind + "/" + jsonShape)
				return
			}
			cfg.TrustAll = false
			cfg.TrustedPeers = nil
			switch kind {
			case "crdt-list", "crdt-runtime":
				cfg.TrustedPeers = []peer.ID{B.h.ID()}
			case "crdt-all":
				cfg.TrustAll = true
			}
		}
		switch kind {
		case "crdt-list":
			trusted["B"] = true
		case "crdt-all":
			trusted["B"], trusted["U"] = true, true
		}
	}
	if err := sim.StartPeer(ctx, A, opts); err != nil {
		c.Inconclusive("start peer: " + err.Error())
		return
	}
	defer A.Node.Close()
	if kind == "crdt-runtime" {
		if err := A.Node.Consensus.Trust(ctx, U.h.ID()); err != nil {
			c.Inconclusive("Trust: " + err.Error())
		}
		if err := A.Node.Consensus.Distrust(ctx, B.h.ID()); err != nil {
			c.Inconclusive("Distrust: " + err.Error())
		}
		trusted["U"], trusted["B"] = true, false
	}
	// A third member X that is down, with pins allocated to it in the pinset: an untrusted
	// caller hands X's ID (and the target's own) to the endpoints it may reach. The pinset
	// must be exactly what it was. (Everything the code under test does on these calls is
	// done before the call returns, so the comparison needs no waiting.)
	var before map[string]string
	pinsetNow := func() map[string]string {
		out := map[string]string{}
		pins, err := A.Node.Cluster.Pins(ctx)
		if err != nil {
			return nil
		}
		for _, p := range pins {
			b, _ := json.Marshal(p)
			out[p.Cid.String()] = string(b)
		}
		return out
	}
	if kind != "raft" {
		X, _ := peer.IDFromPrivateKey(gen.Key(base + 7))
		exp := time.Now().Add(time.Hour).UnixNano()
		A.Mon.SetMetrics("freespace", []*api.Metric{{Name: "freespace", Peer: A.ID, Value: "1000", Valid: true, Expire: exp}})
		A.Mon.SetMetrics("ping", []*api.Metric{{Name: "ping", Peer: A.ID, Valid: true, Expire: exp}})
		for i := 0; i < 4; i++ {
			pin := api.PinCid(gen.UCid(100 + i))
			pin.ReplicationFactorMin, pin.ReplicationFactorMax = 1, 1+i%2
			pin.Allocations = []peer.ID{X}
			if i == 3 {
				pin.Allocations = []peer.ID{A.ID, X}
				pin.ReplicationFactorMax = 2
			}
			if err := A.Node.Consensus.LogPin(ctx, pin); err != nil {
				c.Inconclusive("pre-populating the pinset: " + err.Error())
				return
			}
		}
		before = pinsetNow()
		if len(before) != 4 {
			c.Inconclusive(fmt.Sprintf("pre-populated pinset has %d entries", len(before)))
			return
		}
		for _, cl := range []*caller{B, U} {
			if trusted[cl.name] {
				continue
			}
			for _, target := range []peer.ID{X, A.ID} {
				var out api.ID
				cctx, cancel := context.WithTimeout(ctx, 5*time.Second)
				c.Journal("%s %s -> Cluster.PeerAdd(third peer %s)", kind, cl.name, target)
				err := cl.client.CallContext(cctx, A.ID, "Cluster", "PeerAdd", target, &out)
				cancel()
				c.Eval(fmt.Sprintf("%s/third-peer/%s/PeerAdd(down=%v)/repin=%v/err=%v", kind, cl.name, target == X, repin, err != nil))
				after := pinsetNow()
				for k, v := range before {
					if after != nil && after[k] != v {
						c.Violation("C07/pinset-changed-by-untrusted-callers/Cluster.PeerAdd", fmt.Sprintf("untrusted %s (%s, repinning=%v) called Cluster.PeerAdd with the ID of another peer (down=%v) and the entry of %s changed: %s -> %s", cl.name, kind, repin, target == X, k, v, after[k]), nil)
						break
					}
				}
			}
		}
	}
	eps := endpoints()
	if len(eps) < 40 {
		c.Inconclusive(fmt.Sprintf("only %d endpoints found by reflection", len(eps)))
		return
	}
	known := map[string]bool{}
	for _, e := range sim.Endpoints {
		known[e] = true
	}
	var sample []string
	for _, cl := range []*caller{B, U} {
		for _, ep := range eps {
			name := ep.svc + "." + ep.method
			arg := argFor(ep.in, cl.h.ID())
			reply := reflect.New(ep.out.Elem()).Interface()
			cctx, cancel := context.WithTimeout(ctx, 2*time.Second)
			c.Journal("%s %s -> %s", kind, cl.name, name)
			err := cl.client.CallContext(cctx, A.ID, ep.svc, ep.method, arg, reply)
			cancel()
			authErr := err != nil && rpc.IsAuthorizationError(err)
			class := "authorised"
			if authErr {
				class = "refused"
			}
			tr := trusted[cl.name]
			c.Eval(fmt.Sprintf("%s/%s(trusted=%v)/%s/%s", kind, cl.name, tr, name, class))
			detail := map[string]interface{}{"configuration": kind, "caller": cl.name, "caller_trusted": tr, "endpoint": name, "error": fmt.Sprint(err)}
			if localOnly[name] && !authErr {
				c.Violation("C07/local-only-endpoint-served-remotely/"+name, fmt.Sprintf("%s (%s, trusted=%v) reached the local-only endpoint %s: %v", cl.name, kind, tr, name, err), detail)
			}
			if !tr && !openToAll[name] && !authErr {
				c.Violation("C07/untrusted-caller-authorised/"+name, fmt.Sprintf("untrusted %s (%s) was authorised on %s: %v", cl.name, kind, name, err), detail)
			}
			if !known[name] {
				c.Count("endpoints_unknown_to_harness", 1)
			}
			if len(sample) < 6 && cl == U {
				sample = append(sample, fmt.Sprintf("%s U->%s: %s", kind, name, class))
			}
		}
	}
	// trust follows later Trust/Distrust calls, also for callers that have already been
	// served (or refused) before: flip both callers and sweep the trusted endpoints again
	if kind == "crdt-list" || kind == "crdt-runtime" {
		flip := func(cl *caller, to bool) bool {
			var err error
			if to {
				err = A.Node.Consensus.Trust(ctx, cl.h.ID())
			} else {
				err = A.Node.Consensus.Distrust(ctx, cl.h.ID())
			}
			if err != nil {
				c.Inconclusive("Trust/Distrust: " + err.Error())
				return false
			}
			trusted[cl.name] = to
			return true
		}
		if flip(B, !trusted["B"]) && flip(U, !trusted["U"]) {
			for _, cl := range []*caller{B, U} {
				for _, ep := range eps {
					name := ep.svc + "." + ep.method
					if localOnly[name] || openToAll[name] {
						continue
					}
					arg := argFor(ep.in, cl.h.ID())
					reply := reflect.New(ep.out.Elem()).Interface()
					cctx, cancel := context.WithTimeout(ctx, 2*time.Second)
					c.Journal("%s after flip %s -> %s", kind, cl.name, name)
					err := cl.client.CallContext(cctx, A.ID, ep.svc, ep.method, arg, reply)
					cancel()
					authErr := err != nil && rpc.IsAuthorizationError(err)
					tr := trusted[cl.name]
					c.Eval(fmt.Sprintf("%s/after-flip/%s(trusted=%v)/%s/refused=%v", kind, cl.name, tr, name, authErr))
					detail := map[string]interface{}{"configuration": kind, "caller": cl.name, "caller_trusted_now": tr, "endpoint": name, "error": fmt.Sprint(err)}
					if !tr && !authErr {
						c.Violation("C07/distrusted-caller-still-authorised/"+name, fmt.Sprintf("%s was served before, then Distrust was called, and it is still authorised on %s: %v", cl.name, name, err), detail)
					}
					if tr && authErr {
						c.Violation("C07/trusted-caller-still-refused/"+name, fmt.Sprintf("%s was refused before, then Trust was called, and it is still refused on %s", cl.name, name), detail)
					}
				}
			}
		}
	}
	// self: local calls are always served (a few harmless ones)
	for _, m := range []string{"ID", "Version", "Pins", "Peers"} {
		var err error
		switch m {
		case "ID":
			var o api.ID
			err = A.Node.Client.CallContext(ctx, "", "Cluster", m, struct{}{}, &o)
		case "Version":
			var o api.Version
			err = A.Node.Client.CallContext(ctx, "", "Cluster", m, struct{}{}, &o)
		case "Pins":
			var o []*api.Pin
			err = A.Node.Client.CallContext(ctx, "", "Cluster", m, struct{}{}, &o)
		case "Peers":
			var o []*api.ID
			err = A.Node.Client.CallContext(ctx, "", "Cluster", m, struct{}{}, &o)
		}
		c.Eval(kind + "/self/Cluster." + m)
		if err != nil && rpc.IsAuthorizationError(err) {
			c.Violation("C07/self-refused/Cluster."+m, "a local call was refused", nil)
		}
	}
	// nothing an untrusted caller did may have changed the pinset: with untrusted-only callers it stays empty
	if !trusted["B"] && !trusted["U"] {
		after := pinsetNow()
		c.Eval(kind + "/pinset-untouched")
		if after != nil && len(after) != len(before) {
			c.Violation("C07/pinset-changed-by-untrusted-callers", fmt.Sprintf("the pinset had %d entries, now %d", len(before), len(after)), nil)
		}
		for k, v := range before {
			if after != nil && after[k] != v {
				c.Violation("C07/pinset-changed-by-untrusted-callers", fmt.Sprintf("the entry of %s changed: %s -> %s", k, v, after[k]), nil)
				break
			}
		}
		if n := len(A.IPFS.Calls()); n > 0 {
			for _, call := range A.IPFS.Calls() {
				if call.Op == "pin" || call.Op == "unpin" || call.Op == "blockput" {
					c.Violation("C07/ipfs-driven-by-untrusted-callers", "the IPFS connector received "+call.Op, nil)
					break
				}
			}
		}
	}
	c.Sample(map[string]interface{}{"family": "rpc matrix", "configuration": kind, "endpoints": len(eps), "calls": sample})
}

func hasPin(ctx context.Context, p *sim.NetPeer, ci cid.Cid) bool {
	_, err := p.Node.Cluster.PinGet(ctx, ci)
	return err == nil
}

func waitFor(limit time.Duration, f func() bool) bool {
	deadline := time.Now().Add(limit)
	for time.Now().Before(deadline) {
		if f() {
			return true
		}
		time.Sleep(50 * time.Millisecond)
	}
	return false
}

func pubsubCase(c *fw.Ctx, idx int) {
	ctx := context.Background()
	r := c.Rand("pubsub")
	base := r.Intn(5) * 3
	dir := filepath.Join(c.Dir, fmt.Sprintf("case%d", idx))
	os.RemoveAll(dir)
	defer os.RemoveAll(dir)
	mk := func(i int, name string) *sim.NetPeer {
		return &sim.NetPeer{Idx: i, Key: gen.Key(base + i), Dir: filepath.Join(dir, name)}
	}
	U, C, B := mk(0, "U"), mk(1, "C"), mk(2, "B")
	// the replica under test runs on the host, pubsub router and signature policy the
	// code itself builds (NewClusterHost); the others on harness-built hosts with gaters
	B.RealHost = true
	var hosts []host.Host
	for _, p := range []*sim.NetPeer{U, C, B} {
		if err := p.PrepareHost(ctx); err != nil {
			c.Inconclusive("host: " + err.Error())
			return
		}
		hosts = append(hosts, p.Host)
	}
	// CRDT peers are connected only after all of them run: bitswap learns about peers
	// from connection events, and an early dial (the cluster bootstraps to every peer in
	// its peerstore) would precede the other side's bitswap
	// relay variant: the replica under test trusts the control replica (which trusts the
	// publisher and never re-announces anything itself: rebroadcast once an hour) and
	// has no direct connection to the publisher, so the publisher's signed message only
	// reaches it relayed by a peer it trusts. The signer decides, not the last hop.
	relay := (idx/6)%2 == 1
	start := func(p *sim.NetPeer, trust []peer.ID, all bool) bool {
		err := sim.StartPeer(ctx, p, sim.NetOpts{Consensus: "crdt", CrdtTune: func(cfg *crdt.Config) {
			cfg.TrustAll = all
			cfg.TrustedPeers = trust
			if relay && p == C {
				cfg.RebroadcastInterval = time.Hour // the relaying replica announces nothing itself
			}
		}})
		if err != nil {
			c.Inconclusive("start: " + err.Error())
			return false
		}
		return true
	}
	if !start(U, nil, true) {
		return
	}
	defer U.Node.Close()
	if !start(C, []peer.ID{U.ID}, false) { // C trusts U
		return
	}
	defer C.Node.Close()
	var bTrust []peer.ID // B trusts nobody (neither U nor C) ...
	if relay {
		bTrust = []peer.ID{C.ID} // ... or the relaying control replica only
	}
	if !start(B, bTrust, false) {
		return
	}
	defer B.Node.Close()
	if relay {
		U.Gater.Block(B.ID) // refuses B in both directions; B's own host has no gater
	}
	sim.ConnectAll(ctx, hosts)
	round := 700 * time.Millisecond // two rebroadcast intervals of 300 ms and change
	pinAt := func(p *sim.NetPeer, i int) (cid.Cid, bool) {
		ci := gen.Cid(70000+idx*10+i, 1)
		_, err := p.Node.Cluster.Pin(ctx, ci, api.PinOptions{ReplicationFactorMin: -1, ReplicationFactorMax: -1, Name: fmt.Sprintf("u%d", i)})
		if err != nil {
			c.Inconclusive("pin at U: " + err.Error())
			return ci, false
		}
		return ci, true
	}
	// phase 1: U publishes, C must get it, B must not
	x, ok := pinAt(U, 1)
	if !ok {
		return
	}
	if !waitFor(30*time.Second, func() bool { return hasPin(ctx, C, x) }) {
		c.Inconclusive("update never reached the control replica")
		return
	}
	time.Sleep(round)
	if relay {
		time.Sleep(2 * time.Second)
		c.Eval("pubsub/untrusted-update-relayed-by-trusted-peer-ignored")
		if hasPin(ctx, B, x) {
			c.Violation("C07/pubsub/untrusted-update-applied/relayed-by-trusted-peer", "a replica applied a pin published (signed) by a peer it does not trust because the message reached it through a peer it trusts", nil)
		}
		return
	}
	c.Eval("pubsub/untrusted-update-ignored")
	if hasPin(ctx, B, x) {
		c.Violation("C07/pubsub/untrusted-update-applied", "a replica applied a pin published by a peer it does not trust (the control replica that trusts it got it too)", nil)
		return
	}
	// phase 1b: B joins the cluster through U (as a peer started with a bootstrap address
	// does). Whom B trusts is configuration, not a by-product of whom it bootstrapped from.
	if uaddr, aerr := ma.NewMultiaddr(U.Host.Addrs()[0].String() + "/p2p/" + peer.Encode(U.ID)); aerr == nil {
		jctx, jcancel := context.WithTimeout(ctx, 20*time.Second)
		jerr := B.Node.Cluster.Join(jctx, uaddr)
		jcancel()
		if jerr == nil {
			xj, ok := pinAt(U, 5)
			if !ok {
				return
			}
			if !waitFor(30*time.Second, func() bool { return hasPin(ctx, C, xj) }) {
				c.Inconclusive("update never reached the control replica")
				return
			}
			time.Sleep(round)
			c.Eval("pubsub/untrusted-update-ignored-after-join")
			if hasPin(ctx, B, xj) || hasPin(ctx, B, x) {
				c.Violation("C07/pubsub/untrusted-update-applied/after-joining-through-that-peer", "a replica applied pins published by a peer it does not trust after it had joined the cluster through that peer", nil)
				return
			}
		} else {
			c.Cover("pubsub/join-through-untrusted-peer-failed")
		}
	}
	// phase 2: Trust(U) on B: it obtains U's updates
	if err := B.Node.Consensus.Trust(ctx, U.ID); err != nil {
		c.Inconclusive("Trust: " + err.Error())
		return
	}
	y, ok := pinAt(U, 2)
	if !ok {
		return
	}
	c.Eval("pubsub/trust-takes-effect")
	if !waitFor(30*time.Second, func() bool { return hasPin(ctx, B, y) && hasPin(ctx, B, x) }) {
		c.Violation("C07/pubsub/trust-call-not-followed", "after Trust(U) the replica still ignores U's updates (30 s)", nil)
		return
	}
	// phase 3: Distrust(U): later updates are ignored again
	if err := B.Node.Consensus.Distrust(ctx, U.ID); err != nil {
		c.Inconclusive("Distrust: " + err.Error())
		return
	}
	z, ok := pinAt(U, 3)
	if !ok {
		return
	}
	if !waitFor(30*time.Second, func() bool { return hasPin(ctx, C, z) }) {
		c.Inconclusive("update never reached the control replica")
		return
	}
	time.Sleep(round)
	c.Eval("pubsub/distrust-takes-effect")
	if hasPin(ctx, B, z) {
		c.Violation("C07/pubsub/distrust-call-not-followed", "after Distrust(U) the replica still applied U's update", nil)
	}
	// phase 4: forged author. B now trusts C. A peer F that nobody trusts runs a pubsub
	// router that does not sign and writes C's id into the author field of what it
	// publishes. A control replica D whose router accepts unsigned messages (and which
	// trusts C as B does) shows that the forgery as such works.
	if err := B.Node.Consensus.Trust(ctx, C.ID); err != nil {
		c.Inconclusive("Trust: " + err.Error())
		return
	}
	F, D := mk(3, "F"), mk(4, "D")
	F.PubSubOpts = []pubsub.Option{pubsub.WithMessageSignaturePolicy(pubsub.LaxNoSign), pubsub.WithMessageAuthor(C.ID)}
	D.PubSubOpts = []pubsub.Option{pubsub.WithMessageSignaturePolicy(pubsub.LaxNoSign)}
	for _, p := range []*sim.NetPeer{F, D} {
		if err := p.PrepareHost(ctx); err != nil {
			c.Inconclusive("host: " + err.Error())
			return
		}
	}
	if !start(F, nil, true) {
		return
	}
	defer F.Node.Close()
	if !start(D, []peer.ID{C.ID}, false) {
		return
	}
	defer D.Node.Close()
	sim.ConnectAll(ctx, []host.Host{F.Host, B.Host, D.Host})
	w, ok := pinAt(F, 4)
	if !ok {
		return
	}
	if !waitFor(30*time.Second, func() bool { return hasPin(ctx, D, w) }) {
		c.Inconclusive("the forged update never reached the lax control replica")
		return
	}
	time.Sleep(round + 2*time.Second)
	c.Eval("pubsub/unsigned-forged-author-ignored")
	if hasPin(ctx, B, w) {
		c.Violation("C07/pubsub/untrusted-update-applied/unsigned-with-forged-author", "a replica applied a pin published without signature by an untrusted peer that wrote a trusted peer's id into the author field (a control replica with lax verification got it too)", nil)
	}
	c.Sample(map[string]interface{}{"family": "pubsub", "phases": []string{"untrusted ignored", "trust followed", "distrust followed", "unsigned forged author ignored"}})
}
