// Package c13: added content is fully delivered, readable from its blocks, and pinned as asked.
package c13

import (
	"bytes"
	"context"
	"errors"
	"fmt"
	"io/ioutil"
	"sort"
	"strings"
	"sync"
	"time"

	"verif/fw"
	"verif/gen"
	"verif/mon"
	"verif/sim"

	blocks "github.com/ipfs/go-block-format"
	bserv "github.com/ipfs/go-blockservice"
	cid "github.com/ipfs/go-cid"
	ds "github.com/ipfs/go-datastore"
	dssync "github.com/ipfs/go-datastore/sync"
	bstore "github.com/ipfs/go-ipfs-blockstore"
	chunker "github.com/ipfs/go-ipfs-chunker"
	offline "github.com/ipfs/go-ipfs-exchange-offline"
	files "github.com/ipfs/go-ipfs-files"
	ipld "github.com/ipfs/go-ipld-format"
	dag "github.com/ipfs/go-merkledag"
	unixfile "github.com/ipfs/go-unixfs/file"
	"github.com/ipfs/go-unixfs/importer/balanced"
	ihelper "github.com/ipfs/go-unixfs/importer/helpers"
	"github.com/ipfs/go-unixfs/importer/trickle"
	"github.com/ipfs/ipfs-cluster/adder"
	"github.com/ipfs/ipfs-cluster/adder/sharding"
	"github.com/ipfs/ipfs-cluster/adder/single"
	"github.com/ipfs/ipfs-cluster/api"
	peer "github.com/libp2p/go-libp2p-core/peer"
	mh "github.com/multiformats/go-multihash"
)

func init() {
	fw.Register(&fw.Prop{
		ID:    "C13",
		Level: "exploration",
		Rule: "The real adder pipeline (adder, ipfsadd, single and sharding DAG services) runs over a recording RPC service (Cluster.BlockAllocate, IPFSConnector.BlockPut, Cluster.Pin) for generated file trees " +
			"(empty files, sizes around chunk and shard boundaries, nested and empty directories, many small files, more than 5984 blocks in one shard through a tiny chunker) x chunkers x balanced/trickle x raw-leaves x CID version x hash function x wrap x replication settings x shard sizes, " +
			"and with a BlockPut failure injected at the k-th call. Oracle: from the returned root the recorded blocks are closed under links and every file read back through go-unixfs equals the input bytes (tree shape and names included); " +
			"root(sharded) = root(unsharded) = root of a reference pipeline assembled from go-unixfs/importer for single files; on success exactly the root is pinned with the requested options and the allocations the blocks were sent to; " +
			"sharded adds pin a meta entry, a cluster-DAG entry and shard entries whose links partition the delivered block set, each shard below the size limit and with max_depth covering its link graph; on failure the root is not pinned. " +
			"distinct_nontrivial counts distinct (tree shape class, chunker, layout, raw-leaves, cid version, hash, wrap, sharded, fault position class, outcome) keys.",
		Assumptions: []string{
			"component level: a hostless RPC client executes every destination locally, so the oracle sees the union of delivered blocks and the pins, not which peer received what (the networked family 'e2e/' covers per-destination delivery when present)",
			"go-ipfs itself is not installed; the reference root is computed with go-unixfs/importer (the library go-ipfs uses) for single-file inputs",
		},
		Cases: func(tier string) int {
			if tier == "thorough" {
				return 6000
			}
			return 640
		},
		MinEvals: func(tier string) int {
			if tier == "thorough" {
				return 30000
			}
			return 5000
		},
		CaseTimeout: 300 * time.Second,
		Run:         run,
	})
}

// ------------------------------------------------------------ input trees

type tree struct {
	file []byte           // leaf
	dir  map[string]*tree // directory (nil for files)
}

func genBytes(r *fw.Rand, n int) []byte {
	switch r.Intn(3) {
	case 0:
		return r.Bytes(n)
	case 1: // repetitive content: identical chunks
		pat := r.Bytes(r.Range(1, 64))
		out := make([]byte, n)
		for i := range out {
			out[i] = pat[i%len(pat)]
		}
		return out
	default:
		return bytes.Repeat([]byte{byte(r.Intn(256))}, n)
	}
}

func genTree(r *fw.Rand, depth int, chunk int) *tree {
	if depth == 0 || r.Chance(1, 3) {
		sizes := []int{0, 1, chunk - 1, chunk, chunk + 1, 2 * chunk, 3*chunk + 7, r.Intn(5*chunk + 1), 174*chunk + 1}
		n := sizes[r.Intn(len(sizes))]
		if n > 400000 {
			n = 400000
		}
		if n < 0 {
			n = 0
		}
		return &tree{file: genBytes(r, n)}
	}
	t := &tree{dir: map[string]*tree{}}
	n := r.Intn(5)
	if r.Chance(1, 10) {
		n = r.Range(100, 300) // many small files
	}
	for i := 0; i < n; i++ {
		name := fmt.Sprintf("%s%d", r.Pick("f", "dir", ".hidden", "ü", "a b"), i)
		if n > 50 {
			t.dir[name] = &tree{file: genBytes(r, r.Intn(40))}
		} else {
			t.dir[name] = genTree(r, depth-1, chunk)
		}
	}
	return t
}

func (t *tree) node() files.Node {
	if t.dir == nil {
		return files.NewBytesFile(t.file)
	}
	m := map[string]files.Node{}
	for k, v := range t.dir {
		m[k] = v.node()
	}
	return files.NewMapDirectory(m)
}

func (t *tree) shape() string {
	if t.dir == nil {
		switch n := len(t.file); {
		case n == 0:
			return "file0"
		case n < 1000:
			return "fileS"
		default:
			return "fileL"
		}
	}
	switch n := len(t.dir); {
	case n == 0:
		return "dir0"
	case n > 50:
		return "dirMany"
	}
	nested := false
	for _, v := range t.dir {
		if v.dir != nil {
			nested = true
		}
	}
	if nested {
		return "dirNested"
	}
	return "dirFlat"
}

// compare walks what was read back against the input.
func compare(path string, want *tree, got files.Node) string {
	switch g := got.(type) {
	case files.Directory:
		if want.dir == nil {
			return path + ": read back a directory, input was a file"
		}
		seen := map[string]bool{}
		it := g.Entries()
		for it.Next() {
			w, ok := want.dir[it.Name()]
			if !ok {
				return path + "/" + it.Name() + ": entry was not in the input"
			}
			seen[it.Name()] = true
			if d := compare(path+"/"+it.Name(), w, it.Node()); d != "" {
				return d
			}
		}
		if it.Err() != nil {
			return path + ": " + it.Err().Error()
		}
		for k := range want.dir {
			if !seen[k] {
				return path + "/" + k + ": missing in what was read back"
			}
		}
		return ""
	case files.File:
		if want.dir != nil {
			return path + ": read back a file, input was a directory"
		}
		b, err := ioutil.ReadAll(g)
		if err != nil {
			return path + ": read error: " + err.Error()
		}
		if !bytes.Equal(b, want.file) {
			return fmt.Sprintf("%s: %d bytes read back differ from the %d input bytes", path, len(b), len(want.file))
		}
		return ""
	}
	return path + ": unexpected node type"
}

// ------------------------------------------------------------ recording side

type recorder struct {
	mu      sync.Mutex
	blocks  map[string][]byte // cid key -> data
	order   []cid.Cid
	pins    []*api.Pin
	allocs  []peer.ID
	nput    int
	putLog  []string
	failAt  int // 1-based index of the BlockPut call to fail; 0 = none
	failPin bool
	allocN  int
}

func newRecorder(allocs []peer.ID) (*recorder, *sim.RPCRecorder) {
	rc := &recorder{blocks: map[string][]byte{}, allocs: allocs}
	rpc := sim.NewRPCRecorder(func(ctx context.Context, call sim.Call, out interface{}) error {
		rc.mu.Lock()
		defer rc.mu.Unlock()
		switch call.Name() {
		case "Cluster.BlockAllocate":
			rc.allocN++
			*(out.(*[]peer.ID)) = append([]peer.ID{}, rc.allocs...)
		case "IPFSConnector.BlockPut":
			rc.nput++
			n := call.In.(*api.NodeWithMeta)
			if rc.failAt > 0 && rc.nput == rc.failAt {
				rc.putLog = append(rc.putLog, fmt.Sprintf("#%d %s FAILED", rc.nput, n.Cid))
				return errors.New("scripted block put failure")
			}
			rc.putLog = append(rc.putLog, fmt.Sprintf("#%d %s", rc.nput, n.Cid))
			k := n.Cid.KeyString()
			if _, ok := rc.blocks[k]; !ok {
				rc.order = append(rc.order, n.Cid)
			}
			rc.blocks[k] = append([]byte{}, n.Data...)
		case "Cluster.Pin":
			if rc.failPin {
				return errors.New("scripted pin failure")
			}
			p := *(call.In.(*api.Pin))
			rc.pins = append(rc.pins, &p)
			*(out.(*api.Pin)) = p
		}
		return nil
	})
	return rc, rpc
}

func (rc *recorder) dagService() (ipld.DAGService, string) {
	bs := bstore.NewBlockstore(dssync.MutexWrap(ds.NewMapDatastore()))
	for k, data := range rc.blocks {
		c, err := cid.Cast([]byte(k))
		if err != nil {
			return nil, "bad cid key"
		}
		// the data must hash to the cid it was delivered under
		sum, err := c.Prefix().Sum(data)
		if err != nil || !sum.Equals(c) {
			return nil, "block " + c.String() + " does not hash to its CID"
		}
		b, _ := blocks.NewBlockWithCid(data, c)
		bs.Put(b)
	}
	return dag.NewDAGService(bserv.New(bs, offline.Exchange(bs))), ""
}

// closure walks all links from root; returns the set reached or an error.
func closure(ctx context.Context, dsv ipld.DAGService, root cid.Cid) (map[string]bool, string) {
	seen := map[string]bool{}
	stack := []cid.Cid{root}
	for len(stack) > 0 {
		c := stack[len(stack)-1]
		stack = stack[:len(stack)-1]
		if seen[c.KeyString()] {
			continue
		}
		seen[c.KeyString()] = true
		n, err := dsv.Get(ctx, c)
		if err != nil {
			return seen, "block " + c.String() + " is linked from the root but was never delivered"
		}
		for _, l := range n.Links() {
			stack = append(stack, l.Cid)
		}
	}
	return seen, ""
}

// ------------------------------------------------------------ reference importer

func referenceRoot(data []byte, p *api.AddParams) (cid.Cid, error) {
	bs := bstore.NewBlockstore(dssync.MutexWrap(ds.NewMapDatastore()))
	dsv := dag.NewDAGService(bserv.New(bs, offline.Exchange(bs)))
	prefix, err := dag.PrefixForCidVersion(p.CidVersion)
	if err != nil {
		return cid.Undef, err
	}
	prefix.MhType = mh.Names[strings.ToLower(p.HashFun)]
	prefix.MhLength = -1
	chnk, err := chunker.FromString(bytes.NewReader(data), p.Chunker)
	if err != nil {
		return cid.Undef, err
	}
	params := ihelper.DagBuilderParams{Dagserv: dsv, RawLeaves: p.RawLeaves, Maxlinks: ihelper.DefaultLinksPerBlock, CidBuilder: &prefix}
	db, err := params.New(chnk)
	if err != nil {
		return cid.Undef, err
	}
	var nd ipld.Node
	if p.Layout == "trickle" {
		nd, err = trickle.Layout(db)
	} else {
		nd, err = balanced.Layout(db)
	}
	if err != nil {
		return cid.Undef, err
	}
	return nd.Cid(), nil
}

// ------------------------------------------------------------ one add

type addResult struct {
	root cid.Cid
	err  error
	rc   *recorder
}

func doAdd(ctx context.Context, t *tree, p *api.AddParams, allocs []peer.ID, failAt int, failPin bool) addResult {
	rc, rpc := newRecorder(allocs)
	rc.failAt = failAt
	rc.failPin = failPin
	var dgs adder.ClusterDAGService
	if p.Shard {
		dgs = sharding.New(rpc.Client, p.PinOptions, nil)
	} else {
		dgs = single.New(rpc.Client, p.PinOptions, p.Local)
	}
	// like a REST add of one file or one directory
	input := files.NewSliceDirectory([]files.DirEntry{files.FileEntry("input", t.node())})
	pp := *p
	root, err := adder.New(dgs, &pp, nil).FromFiles(ctx, input)
	return addResult{root, err, rc}
}

func run(c *fw.Ctx, idx int) {
	r := c.Rand("main")
	// the first cases are the end-to-end per-destination family (real multi-peer clusters)
	ne2e := 8
	if c.Thorough() {
		ne2e = 64
	}
	if idx < ne2e {
		e2eCase(c, r, idx)
		return
	}
	ctx := context.Background()
	p := api.DefaultAddParams()
	chunk := []int{32, 100, 1024, 262144}[r.Intn(4)]
	p.Chunker = fmt.Sprintf("size-%d", chunk)
	if r.Chance(1, 8) {
		p.Chunker = "rabin-64-128-256"
		chunk = 128
	}
	p.Layout = r.Pick("", "trickle")
	p.RawLeaves = r.Bool()
	p.CidVersion = r.Intn(2)
	if p.CidVersion == 1 && r.Chance(2, 3) {
		p.RawLeaves = true
	}
	p.HashFun = r.Pick("sha2-256", "sha2-256", "sha2-512", "blake2b-256")
	if p.HashFun != "sha2-256" {
		p.CidVersion = 1
	}
	p.Wrap = r.Chance(1, 3)
	p.Name = "n" + r.Str(4)
	nAlloc := r.Range(1, 3)
	allocs := gen.Peers(nAlloc)
	switch r.Intn(3) {
	case 0:
		p.ReplicationFactorMin, p.ReplicationFactorMax = -1, -1
	default:
		p.ReplicationFactorMin, p.ReplicationFactorMax = 1, nAlloc
	}
	if r.Chance(1, 3) {
		p.Metadata = map[string]string{"k": r.Str(3)}
	}
	if r.Chance(1, 3) {
		p.ExpireAt = gen.ExpiryBase.Add(time.Duration(r.Intn(100000)) * time.Second) // a fixed instant far ahead
	}
	var t *tree
	bigShard := idx%40 == 7 // one shard with more than 5984 links
	if bigShard {
		p.Chunker, chunk = "size-32", 32
		p.Layout = ""
		p.Wrap = false
		t = &tree{file: genBytes(r, 32*6100)}
	} else if idx%40 == 17 {
		// many nodes: more than a thousand small files below the top level (the importer's
		// directory cache is flushed and re-read along the way)
		sub := &tree{dir: map[string]*tree{}}
		for i, n := 0, r.Range(1100, 1600); i < n; i++ {
			sub.dir[fmt.Sprintf("f%05d", i)] = &tree{file: genBytes(r, r.Intn(24))}
		}
		t = &tree{dir: map[string]*tree{"sub": sub, "top.txt": {file: genBytes(r, 10)}}}
		if r.Bool() {
			t.dir["other"] = &tree{dir: map[string]*tree{"x": {file: genBytes(r, 5)}}}
		}
	} else {
		t = genTree(r, 3, chunk)
	}
	shape := t.shape()
	cfg := fmt.Sprintf("%s/%s/%s/raw=%v/v%d/%s/wrap=%v", shape, strings.SplitN(p.Chunker, "-", 2)[0]+fmt.Sprint(chunk), orS(p.Layout, "balanced"), p.RawLeaves, p.CidVersion, p.HashFun, p.Wrap)
	c.Journal("case %d %s", idx, cfg)

	// 1. unsharded
	p.Shard = false
	plain := doAdd(ctx, t, p, allocs, 0, false)
	c.Eval("single/" + cfg)
	if plain.err != nil {
		c.Violation("C13/single/add-failed", "a well-formed add failed: "+plain.err.Error(), cfg)
		return
	}
	checkDelivered(c, "single", cfg, t, p, plain)
	checkSinglePin(c, cfg, p, allocs, plain)

	// 1b. the same content as a CAR file (format=car), and a one-chunk raw-leaves file whose root is a raw block
	carFamily(ctx, c, r, "car", cfg, t, p, allocs, plain)
	{
		pt := *p
		pt.RawLeaves, pt.CidVersion, pt.Wrap, pt.Shard = true, 1, false, false
		tt := &tree{file: genBytes(r, r.Range(0, 20))}
		if tp := doAdd(ctx, tt, &pt, allocs, 0, false); tp.err == nil {
			carFamily(ctx, c, r, "car-one-block", cfg, tt, &pt, allocs, tp)
		}
	}

	// 2. reference importer (single file, not wrapped)
	if t.dir == nil && !p.Wrap {
		ref, err := referenceRoot(t.file, p)
		c.Eval("reference/" + cfg)
		if err != nil {
			c.Inconclusive("reference importer: " + err.Error())
		} else if !ref.Equals(plain.root) {
			c.Violation("C13/root-differs-from-standard-importer/"+orS(p.Layout, "balanced"), fmt.Sprintf("cluster root %s, go-unixfs importer root %s (%s)", plain.root, ref, cfg), nil)
		}
	}

	// 3. sharded
	p.Shard = true
	total := 0
	for _, b := range plain.rc.blocks {
		total += len(b)
	}
	p.ShardSize = []uint64{uint64(total/3 + 300), uint64(total/2 + 300), uint64(total*2 + 1000), uint64(5*chunk + 2000)}[r.Intn(4)]
	if bigShard {
		p.ShardSize = uint64(total * 2)
	}
	maxBlock := 0
	for _, b := range plain.rc.blocks {
		if len(b) > maxBlock {
			maxBlock = len(b)
		}
	}
	if p.ShardSize <= uint64(maxBlock) {
		p.ShardSize = uint64(maxBlock) + 300
	}
	if p.ReplicationFactorMin < 0 {
		p.ReplicationFactorMin, p.ReplicationFactorMax = 1, nAlloc // sharding everywhere makes no sense
	}
	sh := doAdd(ctx, t, p, allocs, 0, false)
	c.Eval(fmt.Sprintf("sharded/%s/big=%v", cfg, bigShard))
	if sh.err != nil {
		c.Violation("C13/sharded/add-failed", "a well-formed sharded add failed: "+sh.err.Error(), cfg)
	} else {
		if !sh.root.Equals(plain.root) {
			c.Violation("C13/sharded-root-differs", fmt.Sprintf("sharded root %s, unsharded root %s (%s)", sh.root, plain.root, cfg), nil)
		}
		checkDelivered(c, "sharded", cfg, t, p, sh)
		checkShardedPins(ctx, c, cfg, p, allocs, sh)
	}

	// 3b. a shard size below the biggest block: the add must fail, or - if an
	// implementation finds a way - every shard must still be under the limit
	if maxBlock > 64 && len(plain.rc.blocks) >= 2 && !bigShard {
		pu := *p
		pu.Shard = true
		pu.ShardSize = uint64(maxBlock - r.Intn(maxBlock/2))
		us := doAdd(ctx, t, &pu, allocs, 0, false)
		c.Eval(fmt.Sprintf("sharded-undersized/ok=%v", us.err == nil))
		if us.err == nil {
			checkShardedPins(ctx, c, cfg+"/undersized-shards", &pu, allocs, us)
		} else {
			for _, pin := range us.rc.pins {
				if pin.Cid.Equals(plain.root) {
					c.Violation("C13/sharded/failed-add-pinned-root", "the sharded add failed ("+us.err.Error()+") but the root was pinned", cfg)
				}
			}
		}
	}

	// 4. faults: a BlockPut failure at call k
	for _, sharded := range []bool{false, true} {
		p.Shard = sharded
		nput := plain.rc.nput
		if sharded {
			nput = sh.rc.nput
		}
		if nput == 0 {
			continue
		}
		var ks []int
		if nput <= 12 {
			for k := 1; k <= nput; k++ {
				ks = append(ks, k)
			}
		} else {
			ks = []int{1, 2, nput / 2, nput - 1, nput, r.Range(1, nput), r.Range(1, nput)}
		}
		if bigShard {
			ks = ks[:1]
		}
		for _, k := range ks {
			res := doAdd(ctx, t, p, allocs, k, false)
			pos := "mid"
			if k == 1 {
				pos = "first"
			} else if k >= nput-1 {
				pos = "last"
			}
			c.Eval(fmt.Sprintf("fault/sharded=%v/dests=%d/%s/err=%v", sharded, nAlloc, pos, res.err != nil))
			checkFault(ctx, c, cfg, t, p, sharded, k, nAlloc, res, plain.root)
		}
		// a failing final pin
		res := doAdd(ctx, t, p, allocs, 0, true)
		c.Eval(fmt.Sprintf("fault/pin-rpc/sharded=%v", sharded))
		if res.err == nil {
			c.Violation(fmt.Sprintf("C13/fault/pin-failure-reported-as-success/sharded=%v", sharded), "every Pin RPC failed but the add succeeded", cfg)
		}
	}
	if idx%20 == 0 {
		c.Sample(map[string]interface{}{"config": cfg, "root": plain.root.String(), "blocks": len(plain.rc.blocks), "block_puts": plain.rc.nput, "shard_size": p.ShardSize, "shard_pins": len(sh.rc.pins)})
	}
}

func orS(a, b string) string {
	if a != "" {
		return a
	}
	return b
}

func checkDelivered(c *fw.Ctx, kind, cfg string, t *tree, p *api.AddParams, res addResult) {
	ctx := context.Background()
	dsv, bad := res.rc.dagService()
	if bad != "" {
		c.Violation("C13/"+kind+"/corrupt-block", bad, cfg)
		return
	}
	if _, miss := closure(ctx, dsv, res.root); miss != "" {
		c.Violation("C13/"+kind+"/blocks-not-closed-under-links", miss, cfg)
		return
	}
	rootNode, err := dsv.Get(ctx, res.root)
	if err != nil {
		c.Violation("C13/"+kind+"/root-not-delivered", err.Error(), cfg)
		return
	}
	fn, err := unixfile.NewUnixfsFile(ctx, dsv, rootNode)
	if err != nil {
		c.Violation("C13/"+kind+"/root-not-unixfs", err.Error(), cfg)
		return
	}
	want := t
	if p.Wrap {
		want = &tree{dir: map[string]*tree{"input": t}}
	}
	c.Eval("readback/" + kind + "/" + t.shape())
	if d := compare("", want, fn); d != "" {
		c.Violation("C13/"+kind+"/content-differs", "content read back from the delivered blocks differs from the input: "+d, cfg)
	}
}

func checkSinglePin(c *fw.Ctx, cfg string, p *api.AddParams, allocs []peer.ID, res addResult) {
	pins := res.rc.pins
	if len(pins) != 1 {
		c.Violation("C13/single/pin-count", fmt.Sprintf("%d pins submitted, want exactly the root", len(pins)), cfg)
		return
	}
	pin := pins[0]
	if !pin.Cid.Equals(res.root) || pin.Type != api.DataType || pin.MaxDepth != -1 {
		c.Violation("C13/single/pin-not-root", fmt.Sprintf("pinned %s type %s depth %d, root is %s", pin.Cid, pin.Type, pin.MaxDepth, res.root), cfg)
	}
	exp := p.PinOptions
	exp.Mode = api.PinModeRecursive
	if d := mon.DeepEq(&exp, &pin.PinOptions, nil); d != "" {
		f := strings.SplitN(strings.SplitN(d, ":", 2)[0], "[", 2)[0]
		c.Violation("C13/single/pin-options/"+f, "root pinned with other options than requested: "+d, cfg)
	}
	wantAllocs := allocs
	if p.ReplicationFactorMin < 0 {
		wantAllocs = nil
	}
	if strings.Join(gen.SortedPeers(pin.Allocations), ",") != strings.Join(gen.SortedPeers(wantAllocs), ",") {
		c.Violation("C13/single/pin-allocations", fmt.Sprintf("root allocated to %d peers, blocks were sent to %d", len(pin.Allocations), len(wantAllocs)), cfg)
	}
}

func checkShardedPins(ctx context.Context, c *fw.Ctx, cfg string, p *api.AddParams, allocs []peer.ID, res addResult) {
	var meta, cdag *api.Pin
	var shards []*api.Pin
	for _, pin := range res.rc.pins {
		switch pin.Type {
		case api.MetaType:
			if meta != nil {
				c.Violation("C13/sharded/two-meta-pins", "more than one meta pin", cfg)
			}
			meta = pin
		case api.ClusterDAGType:
			cdag = pin
		case api.ShardType:
			shards = append(shards, pin)
		default:
			c.Violation("C13/sharded/unexpected-pin-type", "pin of type "+pin.Type.String(), cfg)
		}
	}
	if meta == nil || cdag == nil || len(shards) == 0 {
		c.Violation("C13/sharded/pins-missing", fmt.Sprintf("meta=%v clusterDAG=%v shards=%d", meta != nil, cdag != nil, len(shards)), cfg)
		return
	}
	if !meta.Cid.Equals(res.root) || meta.Reference == nil || !meta.Reference.Equals(cdag.Cid) {
		c.Violation("C13/sharded/meta-pin", "the meta pin is not the root referencing the cluster DAG", cfg)
	}
	if cdag.Reference == nil || !cdag.Reference.Equals(res.root) || cdag.MaxDepth != 0 || cdag.ReplicationFactorMin != -1 {
		c.Violation("C13/sharded/clusterdag-pin", "the cluster-DAG pin does not reference the root / is not a direct everywhere pin", cfg)
	}
	exp := p.PinOptions
	exp.Mode = api.PinModeRecursive
	if d := mon.DeepEq(&exp, &meta.PinOptions, nil); d != "" {
		f := strings.SplitN(strings.SplitN(d, ":", 2)[0], "[", 2)[0]
		c.Violation("C13/sharded/meta-options/"+f, "meta entry carries other options than requested: "+d, cfg)
	}
	dsv, bad := res.rc.dagService()
	if bad != "" {
		c.Violation("C13/sharded/corrupt-block", bad, cfg)
		return
	}
	// cluster DAG links = shards, in order
	cn, err := dsv.Get(ctx, cdag.Cid)
	if err != nil {
		c.Violation("C13/sharded/clusterdag-block-missing", err.Error(), cfg)
		return
	}
	shardSet := map[string]*api.Pin{}
	for _, s := range shards {
		shardSet[s.Cid.KeyString()] = s
	}
	if len(cn.Links()) != len(shards) {
		c.Violation("C13/sharded/clusterdag-links", fmt.Sprintf("cluster DAG links %d shards, %d shard pins", len(cn.Links()), len(shards)), cfg)
	}
	// data blocks reachable from the root
	data, _ := closure(ctx, dsv, res.root)
	covered := map[string]int{}
	for _, l := range cn.Links() {
		sp := shardSet[l.Cid.KeyString()]
		if sp == nil {
			c.Violation("C13/sharded/clusterdag-links-unpinned-shard", "cluster DAG links a shard that was not pinned", cfg)
			continue
		}
		// leaves of the shard DAG with their depth
		depth := 0
		var leaves []cid.Cid
		var walk func(cc cid.Cid, d int) string
		walk = func(cc cid.Cid, d int) string {
			n, err := dsv.Get(ctx, cc)
			if err != nil {
				return "shard node " + cc.String() + " not delivered"
			}
			for _, l := range n.Links() {
				if l.Cid.Type() == cid.DagCBOR && !data[l.Cid.KeyString()] {
					if m := walk(l.Cid, d+1); m != "" {
						return m
					}
					continue
				}
				leaves = append(leaves, l.Cid)
				if d+1 > depth {
					depth = d + 1
				}
			}
			return ""
		}
		if m := walk(sp.Cid, 0); m != "" {
			c.Violation("C13/sharded/shard-dag-incomplete", m, cfg)
			continue
		}
		var size uint64
		for _, lf := range leaves {
			covered[lf.KeyString()]++
			size += uint64(len(res.rc.blocks[lf.KeyString()]))
		}
		c.Eval(fmt.Sprintf("shard/links>%d/depth%d", bucket(len(leaves)), depth))
		if size >= p.ShardSize {
			c.Violation("C13/sharded/shard-over-limit", fmt.Sprintf("a shard holds %d bytes, limit %d", size, p.ShardSize), cfg)
		}
		if int(sp.MaxDepth) < depth {
			c.Violation(fmt.Sprintf("C13/sharded/shard-max-depth-too-small/depth=%d/max_depth=%d", depth, sp.MaxDepth),
				fmt.Sprintf("shard with %d links has its data blocks at depth %d but is pinned with max_depth %d", len(leaves), depth, sp.MaxDepth), cfg)
		}
		if strings.Join(gen.SortedPeers(sp.Allocations), ",") != strings.Join(gen.SortedPeers(allocs), ",") {
			c.Violation("C13/sharded/shard-allocations", "shard allocations differ from where its blocks were sent", cfg)
		}
	}
	// partition: every data block in exactly one shard, nothing else
	for k := range data {
		if covered[k] != 1 {
			c.Violation(fmt.Sprintf("C13/sharded/blocks-not-partitioned/covered=%d", covered[k]), fmt.Sprintf("a data block is linked by %d shards", covered[k]), cfg)
			break
		}
	}
	// shard links only name blocks that were delivered (directory nodes the importer
	// flushed on the way are delivered and linked too; they are not part of the final
	// content and that is allowed)
	for k := range covered {
		if _, ok := res.rc.blocks[k]; !ok {
			c.Violation("C13/sharded/shard-links-undelivered-block", "a shard links a block that was never delivered", cfg)
			break
		}
		if covered[k] != 1 {
			c.Violation("C13/sharded/blocks-not-partitioned/delivered", fmt.Sprintf("a delivered block is linked by %d shards", covered[k]), cfg)
			break
		}
	}
}

func bucket(n int) int {
	switch {
	case n > 5984:
		return 5984
	case n > 100:
		return 100
	case n > 1:
		return 1
	}
	return 0
}

func checkFault(ctx context.Context, c *fw.Ctx, cfg string, t *tree, p *api.AddParams, sharded bool, k, nAlloc int, res addResult, root cid.Cid) {
	tag := fmt.Sprintf("sharded=%v", sharded)
	if res.rc.nput < k {
		// this add issued fewer BlockPuts than k: no fault was injected
		c.Count("fault_not_reached", 1)
		if res.err != nil {
			c.Violation("C13/fault/error-without-fault/"+tag, "no fault was injected but the add failed: "+res.err.Error(), cfg)
		}
		return
	}
	rootPinned := false
	for _, pin := range res.rc.pins {
		if pin.Cid.Equals(root) && (pin.Type == api.DataType || pin.Type == api.MetaType) {
			rootPinned = true
		}
	}
	if res.err != nil {
		if rootPinned {
			c.Violation("C13/fault/failed-add-pinned-root/"+tag, fmt.Sprintf("the add failed (%v) but the root was pinned", res.err), cfg)
		}
		return
	}
	// success despite the failure: allowed only if every block was still accepted by a destination
	if nAlloc == 1 && !(p.ReplicationFactorMin < 0) {
		pl := res.rc.putLog
		lo := k - 5
		if lo < 0 {
			lo = 0
		}
		hi := k + 5
		if hi > len(pl) {
			hi = len(pl)
		}
		c.Violation("C13/fault/block-lost-but-success/"+tag, fmt.Sprintf("BlockPut #%d failed on the only destination and the add still succeeded", k),
			map[string]interface{}{"config": cfg, "puts_around": pl[lo:hi], "total_puts": len(pl), "pins": len(res.rc.pins)})
	}
	dsv, bad := res.rc.dagService()
	if bad != "" {
		c.Violation("C13/fault/corrupt-block/"+tag, bad, cfg)
		return
	}
	if _, miss := closure(ctx, dsv, res.root); miss != "" {
		pl := res.rc.putLog
		if len(pl) > 60 {
			pl = pl[:60]
		}
		c.Violation("C13/fault/success-with-missing-block/"+tag, miss, map[string]interface{}{"config": cfg, "k": k, "dests": nAlloc, "rf": p.ReplicationFactorMin, "puts": pl})
	}
	if !rootPinned {
		c.Violation("C13/fault/success-without-pin/"+tag, "the add succeeded but the root was not pinned", cfg)
	}
}

var _ = sort.Strings
