package c13

import (
	"context"
	"errors"
	"fmt"
	"os"
	"path/filepath"
	"sort"
	"strings"
	"sync"
	"sync/atomic"
	"time"

	"verif/fw"
	"verif/gen"
	"verif/mon"
	"verif/sim"

	cid "github.com/ipfs/go-cid"
	files "github.com/ipfs/go-ipfs-files"
	"github.com/ipfs/ipfs-cluster/adder"
	"github.com/ipfs/ipfs-cluster/adder/sharding"
	"github.com/ipfs/ipfs-cluster/adder/single"
	"github.com/ipfs/ipfs-cluster/api"
	host "github.com/libp2p/go-libp2p-core/host"
	peer "github.com/libp2p/go-libp2p-core/peer"
)

// e2eCase: the per-destination half of the property. A real 3-4 peer Raft
// cluster (real Cluster.BlockAllocate / allocate / Pin, real RPC between
// hosts), each peer with its own model daemon whose block store is the ground
// truth about what was delivered where. Adds are issued at any member with the
// real single / sharding DAG services.
//
// Oracle: fault-free, non-local add => every peer in the root pin's (or the
// shard pin's) allocations - every member for "everywhere" pins - holds every
// block under that pin, and no other peer was sent any block of this add;
// local add => the adding peer holds everything, nobody else was sent
// anything; a block-put failure on one destination => if the add succeeds the
// root is pinned and every block is on at least one allocated destination (the
// code's documented tolerance: the daemon fetches the rest when it pins), if
// it fails the root is not in the pinset; a failure on every destination =>
// the add fails and the root is not pinned.
func e2eCase(c *fw.Ctx, r *fw.Rand, idx int) {
	ctx := context.Background()
	dir := filepath.Join(c.Dir, fmt.Sprintf("e2e%d", idx))
	os.RemoveAll(dir)
	defer os.RemoveAll(dir)
	n := r.Range(3, 4)
	peers := make([]*sim.NetPeer, n)
	ids := make([]peer.ID, n)
	var hs []host.Host
	type fault struct {
		peer int // -1 = every peer
		at   int // k-th block put of the add (per peer), 1-based; 0 = none
	}
	var fmu sync.Mutex
	cur := fault{}
	putCount := map[int]int{}
	for i := 0; i < n; i++ {
		p := &sim.NetPeer{Idx: i, Key: gen.Key(70 + i), Dir: filepath.Join(dir, fmt.Sprintf("p%d", i))}
		if err := p.PrepareHost(ctx); err != nil {
			c.Inconclusive("host: " + err.Error())
			return
		}
		p.IPFS = sim.NewIPFSModel(p.ID)
		i := i
		p.IPFS.SetGate(func(call sim.IPFSCall) sim.Decision {
			if call.Op != "blockput" {
				return sim.Decision{}
			}
			fmu.Lock()
			defer fmu.Unlock()
			putCount[i]++
			if cur.at > 0 && putCount[i] == cur.at && (cur.peer == -1 || cur.peer == i) {
				return sim.Decision{Err: errors.New("scripted block put failure")}
			}
			return sim.Decision{}
		})
		peers[i], ids[i] = p, p.ID
		hs = append(hs, p.Host)
	}
	sim.ShareAddrs(hs)
	var wg sync.WaitGroup
	errs := make([]error, n)
	for i := range peers {
		wg.Add(1)
		go func(i int) {
			defer wg.Done()
			errs[i] = sim.StartPeer(ctx, peers[i], sim.NetOpts{Consensus: "raft", Peers: ids})
		}(i)
	}
	wg.Wait()
	defer func() {
		var cw sync.WaitGroup
		for _, p := range peers {
			if p != nil && p.Node != nil {
				cw.Add(1)
				go func(p *sim.NetPeer) { defer cw.Done(); p.Node.Close() }(p)
			}
		}
		cw.Wait()
	}()
	for _, e := range errs {
		if e != nil {
			c.Inconclusive("start: " + e.Error())
			return
		}
	}
	sim.ConnectAll(ctx, hs)
	var fs, ps []*api.Metric
	for i, id := range ids {
		exp := time.Now().Add(time.Hour).UnixNano()
		fs = append(fs, &api.Metric{Name: "freespace", Peer: id, Value: fmt.Sprint(1000 + i), Valid: true, Expire: exp})
		ps = append(ps, &api.Metric{Name: "ping", Peer: id, Valid: true, Expire: exp})
	}
	for _, p := range peers {
		p.Mon.SetMetrics("freespace", fs)
		p.Mon.SetMetrics("ping", ps)
	}
	idxOf := map[peer.ID]int{}
	for i, id := range ids {
		idxOf[id] = i
	}
	// blocks each daemon held before an add: an add's deliveries are the difference
	snapshot := func() []map[string]bool {
		out := make([]map[string]bool, n)
		for i, p := range peers {
			out[i] = map[string]bool{}
			for k := range p.IPFS.Blocks() {
				out[i][k] = true
			}
		}
		return out
	}
	adds := 8
	// in half of the cases a member (not the one adding, not the leader) goes away
	// before the last two adds while the monitors still call it healthy: block puts
	// to it fail at the RPC level (unreachable destination)
	down := -1
	downFrom := adds
	if r.Intn(2) == 0 {
		downFrom = adds - 4
	}
	for a := 0; a < adds; a++ {
		if a == downFrom {
			lead := -1
			for i, p := range peers {
				if l, e := p.Node.Consensus.Leader(ctx); e == nil && l == ids[i] {
					lead = i
				}
			}
			for i := range peers {
				if i != lead && lead >= 0 {
					down = i
					break
				}
			}
			if down >= 0 {
				c.Journal("e2e case %d: p%d stops", idx, down)
				peers[down].Node.Close()
				peers[down].Node = nil
			}
		}
		p := api.DefaultAddParams()
		chunk := []int{32, 100, 1024}[r.Intn(3)]
		p.Chunker = fmt.Sprintf("size-%d", chunk)
		p.Layout = r.Pick("", "trickle")
		p.RawLeaves = r.Bool()
		p.CidVersion = r.Intn(2)
		if p.CidVersion == 1 {
			p.RawLeaves = true
		}
		p.Name = fmt.Sprintf("add%d", a)
		t := genTree(r, 2, chunk)
		// unique content per add so that deliveries can be told apart
		uniq := []byte(fmt.Sprintf("case %d add %d %s|", idx, a, r.Str(8)))
		if t.dir == nil {
			t.file = append(uniq, t.file...)
		} else {
			t.dir["uniq"] = &tree{file: append(uniq, genBytes(r, chunk*3)...)}
		}
		at := r.Intn(n)
		if at == down {
			at = (at + 1) % n
		}
		rf := r.Pick("everywhere", "1", "2", "1-3", "user")
		switch rf {
		case "everywhere":
			p.ReplicationFactorMin, p.ReplicationFactorMax = -1, -1
		case "1":
			p.ReplicationFactorMin, p.ReplicationFactorMax = 1, 1
		case "2":
			p.ReplicationFactorMin, p.ReplicationFactorMax = 2, 2
		case "1-3":
			p.ReplicationFactorMin, p.ReplicationFactorMax = 1, 3
		case "user":
			p.ReplicationFactorMin, p.ReplicationFactorMax = 1, 1
			p.UserAllocations = []peer.ID{ids[r.Intn(n)]}
		}
		if down >= 0 {
			// several destinations, one of them unreachable
			rf = r.Pick("2", "1-3", "3")
			p.UserAllocations = nil
			switch rf {
			case "2":
				p.ReplicationFactorMin, p.ReplicationFactorMax = 2, 2
			case "1-3":
				p.ReplicationFactorMin, p.ReplicationFactorMax = 1, 3
			case "3":
				p.ReplicationFactorMin, p.ReplicationFactorMax = 2, 3
			}
		}
		p.Shard = r.Intn(3) == 0
		p.Local = !p.Shard && r.Intn(4) == 0
		if p.Shard {
			if p.ReplicationFactorMin < 0 {
				p.ReplicationFactorMin, p.ReplicationFactorMax = 1, 2
				rf = "1-2"
			}
			p.ShardSize = uint64(chunk*r.Range(6, 30) + 2000)
		}
		ft := fault{}
		sel := r.Intn(4)
		if down >= 0 {
			sel = 3
			p.Local = false
		}
		if a == 0 && down < 0 {
			// the first add of a case: sharded, one holder per shard, no fault, small shards - with
			// the members' free space changing all the time, shards end up on different peers
			p.Shard, p.Local, sel, rf = true, false, 3, "1"
			p.ReplicationFactorMin, p.ReplicationFactorMax = 1, 1
			p.UserAllocations = nil
			p.ShardSize = uint64(chunk*6 + 2000)
			t = &tree{file: genBytes(r, chunk*r.Range(25, 45))} // four shards or more
		}
		switch sel {
		case 0:
			ft = fault{peer: r.Intn(n), at: r.Range(1, 6)}
		case 1:
			ft = fault{peer: -1, at: r.Range(1, 6)}
		}
		fmu.Lock()
		cur = ft
		putCount = map[int]int{}
		fmu.Unlock()
		before := snapshot()
		cfg := fmt.Sprintf("shard=%v/local=%v/rf=%s/fault=%s", p.Shard, p.Local, rf, map[bool]string{true: "none", false: map[bool]string{true: "all", false: "one"}[ft.peer == -1]}[ft.at == 0])
		c.Journal("e2e case %d add %d at p%d %s fault=%+v", idx, a, at, cfg, ft)
		var dgs adder.ClusterDAGService
		client := peers[at].Node.Client
		if p.Shard {
			dgs = sharding.New(client, p.PinOptions, nil)
		} else {
			dgs = single.New(client, p.PinOptions, p.Local)
		}
		input := files.NewSliceDirectory([]files.DirEntry{files.FileEntry("input", t.node())})
		pp := *p
		// during a sharded add the members' free space changes after every allocation, so
		// that one shard's allocation need not be the next one's
		var rotN int64
		if sa, ok := peers[at].Node.Alloc.(*sim.SwitchAllocator); ok && p.Shard {
			sa.After = func() {
				k := int(atomic.AddInt64(&rotN, 1))
				var rot []*api.Metric
				for i, id := range ids {
					rot = append(rot, &api.Metric{Name: "freespace", Peer: id, Value: fmt.Sprint(1000 + (i+k)%n), Valid: true, Expire: time.Now().Add(time.Hour).UnixNano()})
				}
				for _, pr := range peers {
					if pr.Mon != nil {
						pr.Mon.SetMetrics("freespace", rot)
					}
				}
			}
			defer func() { sa.After = nil }()
		}
		actx, cancel := context.WithTimeout(ctx, 60*time.Second)
		root, err := adder.New(dgs, &pp, nil).FromFiles(actx, input)
		cancel()
		if sa, ok := peers[at].Node.Alloc.(*sim.SwitchAllocator); ok {
			sa.After = nil
		}
		for _, pr := range peers {
			if pr.Mon != nil {
				pr.Mon.SetMetrics("freespace", fs)
			}
		}
		fmu.Lock()
		cur = fault{}
		reached := false
		for i, k := range putCount {
			if ft.at > 0 && k >= ft.at && (ft.peer == -1 || ft.peer == i) {
				reached = true
			}
		}
		fmu.Unlock()
		c.Eval("e2e/" + cfg + fmt.Sprintf("/unreachable-member=%v/ok=%v", down >= 0, err == nil))
		detail := map[string]interface{}{"cfg": cfg, "at": at, "fault": fmt.Sprintf("%+v reached=%v", ft, reached), "err": fmt.Sprint(err), "root": root.String()}
		// deliveries of this add
		after := snapshot()
		got := make([]map[string]bool, n)
		for i := range after {
			got[i] = map[string]bool{}
			for k := range after[i] {
				if !before[i][k] {
					got[i][k] = true
				}
			}
		}
		// the pinset as the leader holds it
		lead := at
		for i, p := range peers {
			if p.Node == nil {
				continue
			}
			if l, e := p.Node.Consensus.Leader(ctx); e == nil && l == ids[i] {
				lead = i
			}
		}
		var pins []*api.Pin
		pinOf := map[string]*api.Pin{}
		load := func() {
			pins, _ = peers[lead].Node.Cluster.Pins(ctx)
			pinOf = map[string]*api.Pin{}
			for _, x := range pins {
				pinOf[x.Cid.String()] = x
			}
		}
		load()
		if err != nil && strings.Contains(err.Error(), "shard size too small") {
			continue // the generated shard size is below one of this tree's blocks: not an add the property speaks about
		}
		if err != nil {
			if (ft.at == 0 || !reached) && down < 0 {
				c.Violation("C13/e2e/add-failed-without-fault", "an add failed although no block put was made to fail: "+err.Error(), detail)
				continue
			}
			if root.Defined() && pinOf[root.String()] != nil {
				c.Violation("C13/e2e/failed-add-left-root-pinned", "the add failed but its root is in the pinset", detail)
			}
			continue
		}
		if ft.peer == -1 && reached {
			c.Violation("C13/e2e/success-although-every-destination-refused-a-block", "a block put failed on every destination and the add succeeded", detail)
			continue
		}
		waitFor(5*time.Second, func() bool { load(); return pinOf[root.String()] != nil })
		rp := pinOf[root.String()]
		if rp == nil {
			c.Violation("C13/e2e/root-not-pinned", "the add succeeded and its root is not in the pinset", detail)
			continue
		}
		faulty := ft.at > 0 && reached
		rpcFault := down >= 0
		// units: (pin, blocks under it)
		type unit struct {
			what   string
			pin    *api.Pin
			blocks map[string]bool
		}
		union := map[string]bool{}
		for i := range got {
			for k := range got[i] {
				union[k] = true
			}
		}
		var units []unit
		if !p.Shard {
			units = append(units, unit{"root", rp, union})
		} else {
			if rp.Type != api.MetaType || rp.Reference == nil {
				c.Violation("C13/e2e/sharded-root-not-meta", "sharded add: the root entry is not a meta pin with a reference", detail)
				continue
			}
			// shard pins: every pin of type shard created by this add (they reference nothing else)
			for _, x := range pins {
				if x.Type == api.ShardType && strings.HasPrefix(x.Name, p.Name) {
					units = append(units, unit{"shard", x, nil})
				}
			}
			if len(units) == 0 {
				var names []string
				for _, x := range pins {
					names = append(names, fmt.Sprintf("%s:%s", x.Name, x.Type))
				}
				detail["pins"] = names
				c.Violation("C13/e2e/no-shard-pins", "sharded add: no shard entries in the pinset", detail)
				continue
			}
		}
		if p.Shard {
			distinct := map[string]bool{}
			for _, u := range units {
				distinct[strings.Join(gen.SortedPeers(u.pin.Allocations), ",")] = true
			}
			c.Cover(fmt.Sprintf("e2e/sharded/shards=%d/distinct-allocations=%d", min(len(units), 5), min(len(distinct), 4)))
		}
		for _, u := range units {
			holders := ids
			if !mon.Everywhere(u.pin) {
				holders = u.pin.Allocations
			}
			if u.what == "root" && !mon.Everywhere(u.pin) {
				if len(holders) < p.ReplicationFactorMin || len(holders) > p.ReplicationFactorMax {
					c.Violation("C13/e2e/allocations-outside-factors", fmt.Sprintf("root pinned on %d peers, factors %d/%d", len(holders), p.ReplicationFactorMin, p.ReplicationFactorMax), detail)
				}
			}
			if u.what == "shard" {
				// the shard node is delivered to the shard's destinations; its links are the blocks under it
				var where []int
				for i := range got {
					if got[i][u.pin.Cid.KeyString()] {
						where = append(where, i)
					}
				}
				if len(where) == 0 {
					c.Violation("C13/e2e/shard-node-delivered-nowhere", "a shard's own node was delivered to no daemon", detail)
					continue
				}
				raw := peers[where[0]].IPFS.Blocks()[u.pin.Cid.KeyString()]
				nd, derr := sharding.CborDataToNode(raw, "cbor")
				if derr != nil {
					c.Inconclusive("shard node decode: " + derr.Error())
					continue
				}
				u.blocks = map[string]bool{u.pin.Cid.KeyString(): true}
				for _, l := range nd.Links() {
					u.blocks[l.Cid.KeyString()] = true
				}
			}
			isHolder := map[int]bool{}
			for _, h := range holders {
				if isHolder[idxOf[h]] {
					c.Violation("C13/e2e/allocations-list-a-peer-twice/"+u.what, fmt.Sprintf("the pin's allocations name p%d twice: %v", idxOf[h], idxList(idxOf, holders)), detail)
				}
				isHolder[idxOf[h]] = true
			}
			if rpcFault && isHolder[down] {
				faulty = true // an allocated destination was unreachable
			}
			if p.Local {
				// everything at the adding peer, nothing sent elsewhere
				for k := range u.blocks {
					if !after[at][k] {
						c.Violation("C13/e2e/local-add-block-missing-at-adding-peer", "local add: a block is missing at the adding peer", detail)
						break
					}
				}
				for i := range got {
					if i != at && len(got[i]) > 0 {
						c.Violation("C13/e2e/local-add-sent-blocks-elsewhere", fmt.Sprintf("local add: p%d was sent %d blocks", i, len(got[i])), detail)
						break
					}
				}
				continue
			}
			for k := range u.blocks {
				onSome := false
				for i := range got {
					if after[i][k] && isHolder[i] {
						onSome = true
					}
					if !got[i][k] {
						continue
					}
					if !isHolder[i] && !p.Shard {
						c.Violation("C13/e2e/block-sent-to-non-allocated-peer", fmt.Sprintf("p%d received a block but is not in the allocations %v", i, sortedIdx(isHolder)), detail)
					}
				}
				if !onSome {
					c.Violation("C13/e2e/block-on-no-allocated-peer/"+u.what, "a block under the pin is on none of the peers the pin is allocated to", detail)
					break
				}
				if !faulty {
					for i := range isHolder {
						if !after[i][k] {
							c.Violation("C13/e2e/allocated-peer-lacks-block/"+u.what, fmt.Sprintf("no block put failed, yet p%d (allocated) was not sent a block under the pin", i), detail)
							break
						}
					}
				}
			}
		}
	}
	c.Sample(map[string]interface{}{"family": "e2e", "peers": n, "adds": adds})
}

func idxList(idxOf map[peer.ID]int, ps []peer.ID) []int {
	var out []int
	for _, p := range ps {
		out = append(out, idxOf[p])
	}
	return out
}

func sortedIdx(m map[int]bool) []int {
	var out []int
	for k := range m {
		out = append(out, k)
	}
	sort.Ints(out)
	return out
}

func waitFor(limit time.Duration, f func() bool) bool {
	deadline := time.Now().Add(limit)
	for time.Now().Before(deadline) {
		if f() {
			return true
		}
		time.Sleep(50 * time.Millisecond)
	}
	return false
}

var _ = cid.Undef
