package c13

// CAR family: the blocks an ordinary add delivered are packed into a CAR file
// (header root = the root of that add) and added again with format=car. The
// same clauses are judged: the add succeeds and returns the header root, every
// block of the CAR is delivered and the delivered set is closed under links
// from the root, the content reads back, exactly the root is pinned with the
// requested options and the allocations the blocks went to, and a block-put
// failure leaves the root unpinned. The CAR is written by the harness (go-car's
// header + length-delimited sections), not by code under test.

import (
	"bytes"
	"context"
	"fmt"

	"verif/fw"

	cid "github.com/ipfs/go-cid"
	files "github.com/ipfs/go-ipfs-files"
	"github.com/ipfs/ipfs-cluster/adder"
	"github.com/ipfs/ipfs-cluster/adder/single"
	"github.com/ipfs/ipfs-cluster/api"
	car "github.com/ipld/go-car"
	carutil "github.com/ipld/go-car/util"
	peer "github.com/libp2p/go-libp2p-core/peer"
)

// makeCAR packs the recorded blocks, in the given order, under one root.
func makeCAR(root cid.Cid, order []cid.Cid, blks map[string][]byte) ([]byte, error) {
	var buf bytes.Buffer
	if err := car.WriteHeader(&car.CarHeader{Roots: []cid.Cid{root}, Version: 1}, &buf); err != nil {
		return nil, err
	}
	for _, c := range order {
		if err := carutil.LdWrite(&buf, c.Bytes(), blks[c.KeyString()]); err != nil {
			return nil, err
		}
	}
	return buf.Bytes(), nil
}

func doAddCAR(ctx context.Context, carBytes []byte, p *api.AddParams, allocs []peer.ID, failAt int) addResult {
	rc, rpc := newRecorder(allocs)
	rc.failAt = failAt
	pp := *p
	pp.Format = "car"
	pp.Wrap = false
	pp.Shard = false
	dgs := single.New(rpc.Client, pp.PinOptions, pp.Local)
	input := files.NewSliceDirectory([]files.DirEntry{files.FileEntry("input.car", files.NewBytesFile(carBytes))})
	root, err := adder.New(dgs, &pp, nil).FromFiles(ctx, input)
	return addResult{root, err, rc}
}

// carFamily re-adds what `plain` delivered as a CAR file. kind names the
// sub-family in evaluation and violation keys.
func carFamily(ctx context.Context, c *fw.Ctx, r *fw.Rand, kind, cfg string, t *tree, p *api.AddParams, allocs []peer.ID, plain addResult) {
	order := append([]cid.Cid{}, plain.rc.order...)
	// the order of sections in a CAR is not prescribed: as delivered, reversed, or root first
	switch r.Intn(3) {
	case 1:
		for i, j := 0, len(order)-1; i < j; i, j = i+1, j-1 {
			order[i], order[j] = order[j], order[i]
		}
	case 2:
		for i, o := range order {
			if o.Equals(plain.root) {
				order[0], order[i] = order[i], order[0]
			}
		}
	}
	carBytes, err := makeCAR(plain.root, order, plain.rc.blocks)
	if err != nil {
		c.Inconclusive("writing the CAR: " + err.Error())
		return
	}
	pc := *p
	pc.Wrap = false
	pc.Shard = false
	want := t
	if p.Wrap {
		want = &tree{dir: map[string]*tree{"input": t}}
	}
	res := doAddCAR(ctx, carBytes, &pc, allocs, 0)
	c.Eval(fmt.Sprintf("%s/root-codec=%d/blocks=%d", kind, plain.root.Prefix().Codec, bucket(len(order))))
	if res.err != nil {
		c.Violation("C13/"+kind+"/add-failed", "a well-formed CAR add failed: "+res.err.Error(), cfg)
		return
	}
	if !res.root.Equals(plain.root) {
		c.Violation("C13/"+kind+"/root-differs-from-header-root", fmt.Sprintf("CAR add returned %s, the CAR's root is %s", res.root, plain.root), cfg)
		return
	}
	for _, o := range order {
		if _, ok := res.rc.blocks[o.KeyString()]; !ok {
			c.Violation("C13/"+kind+"/block-of-the-car-not-delivered", fmt.Sprintf("block %s (codec %d, root=%v) is in the CAR but was never put", o, o.Prefix().Codec, o.Equals(plain.root)), cfg)
			return
		}
	}
	if len(res.rc.blocks) != len(order) {
		c.Violation("C13/"+kind+"/delivered-set-differs", fmt.Sprintf("%d distinct blocks delivered, the CAR holds %d", len(res.rc.blocks), len(order)), cfg)
	}
	checkDelivered(c, kind, cfg, want, &pc, res)
	checkSinglePin(c, cfg+"/"+kind, &pc, allocs, res)

	// a block-put failure at call k: the add fails and the root is not pinned
	nput := res.rc.nput
	if nput == 0 {
		return
	}
	for _, k := range []int{1, nput, r.Range(1, nput)} {
		fr := doAddCAR(ctx, carBytes, &pc, allocs, k)
		c.Eval(fmt.Sprintf("%s/fault/err=%v", kind, fr.err != nil))
		// with several destinations one failed put is tolerated (BlockAdder's success rule)
		if fr.err == nil {
			if len(allocs) == 1 && !(pc.ReplicationFactorMin < 0) {
				c.Violation("C13/"+kind+"/fault/put-failure-reported-as-success", fmt.Sprintf("BlockPut #%d of %d failed at the only destination but the CAR add succeeded", k, nput), cfg)
			}
			continue
		}
		for _, pin := range fr.rc.pins {
			if pin.Cid.Equals(plain.root) {
				c.Violation("C13/"+kind+"/fault/failed-add-pinned-root", "the CAR add failed ("+fr.err.Error()+") but the root was pinned", cfg)
			}
		}
	}
}
