package c09

import (
	"context"
	"errors"
	"fmt"
	"sync"
	"time"

	"verif/fw"
	"verif/gen"
	"verif/sim"

	ds "github.com/ipfs/go-datastore"
	ipfscluster "github.com/ipfs/ipfs-cluster"
	"github.com/ipfs/ipfs-cluster/api"
	host "github.com/libp2p/go-libp2p-core/host"
	peer "github.com/libp2p/go-libp2p-core/peer"
	dual "github.com/libp2p/go-libp2p-kad-dht/dual"
	pubsub "github.com/libp2p/go-libp2p-pubsub"
)

// cadenceCase: a real Cluster (its pushInformerMetrics / pushPingMetrics
// loops) publishes through a recording monitor. Oracle: per metric name, every
// successful publication happens before the previous successful one expires
// (the receiver would otherwise see this healthy peer as failed); with
// isolated publish errors (never two in a row) that still holds because the
// retry comes at TTL/4. This is the one place in C09 where wall-clock
// observations are part of the verdict; TTLs are seconds, margins >= 0.5 s.
func cadenceCase(c *fw.Ctx, r *fw.Rand) {
	ctx := context.Background()
	mon := sim.NewScriptedMonitor()
	shared := sim.NewSharedState(nil)
	ttlA := time.Duration(r.Range(2, 4)) * time.Second
	ttlB := time.Duration(r.Range(2, 4)) * time.Second
	ping := time.Duration(r.Range(1, 2)) * time.Second
	// the ping is published once per ping interval, for every interval: with a long one
	// only the first publication can be observed, and its lifetime must span the interval
	longPing := c.CaseIdx()%4 >= 2
	if longPing {
		ping = []time.Duration{20 * time.Second, 45 * time.Second, 10 * time.Minute, 3 * time.Hour}[(c.CaseIdx()/4+c.CaseIdx()%2)%4]
	}
	errMode := r.Pick("none", "isolated", "double")
	withErrors := errMode != "none"
	infA := sim.NewStubInformer("freespace")
	infA.TTL, infA.Valid, infA.Value = ttlA, true, "10"
	infB := sim.NewStubInformer("numpin")
	infB.TTL, infB.Valid, infB.Value = ttlB, true, "3"
	// isolated failures: every third publish of a name fails
	var fmu sync.Mutex
	count := map[string]int{}
	if withErrors {
		mon.PublishF = func(m *api.Metric) error {
			fmu.Lock()
			defer fmu.Unlock()
			count[m.Name]++
			if m.Name == "ping" {
				return nil
			}
			if errMode == "isolated" && count[m.Name]%3 == 2 {
				return errors.New("scripted publish error")
			}
			if errMode == "double" && (count[m.Name]%5 == 2 || count[m.Name]%5 == 3) {
				return errors.New("scripted publish error") // two in a row
			}
			return nil
		}
	}
	n, err := sim.NewNode(ctx, sim.NodeOpts{
		Key:       gen.Key(r.Intn(8)),
		Monitor:   mon,
		Informers: []ipfscluster.Informer{infA, infB},
		Tune:      func(cfg *ipfscluster.Config) { cfg.MonitorPingInterval = ping },
		Consensus: func(h host.Host, _ *pubsub.PubSub, _ *dual.DHT, _ ds.Datastore, _ *ipfscluster.Config) (ipfscluster.Consensus, error) {
			shared.SetPeers([]peer.ID{h.ID()})
			return sim.NewModelConsensus(h.ID(), shared), nil
		},
	})
	if err != nil {
		c.Inconclusive("node: " + err.Error())
		return
	}
	longest := ttlA
	if ttlB > longest {
		longest = ttlB
	}
	time.Sleep(longest*2 + longest/2)
	pubs := mon.PublishedCopy()
	n.Close()
	byName := map[string][]sim.Published{}
	for _, p := range pubs {
		byName[p.Metric.Name] = append(byName[p.Metric.Name], p)
	}
	for _, name := range []string{"freespace", "numpin", "ping"} {
		ps := byName[name]
		key := fmt.Sprintf("cadence/%s/errors=%v", name, withErrors)
		if name == "ping" && longPing {
			c.Eval("cadence/ping/long-interval")
			if len(ps) == 0 {
				c.Violation("C09/cadence/too-few-publications/ping", "no ping was published at start", nil)
				continue
			}
			life := time.Duration(ps[0].Metric.Expire - ps[0].At.UnixNano())
			if life <= ping+ping/20 {
				c.Violation("C09/cadence/ping-lifetime-does-not-span-the-ping-interval", fmt.Sprintf("monitor_ping_interval is %s (the next ping comes then) and the published ping expires after %s: a healthy peer looks failed in between", ping, life), nil)
			}
			continue
		}
		if len(ps) < 3 {
			c.Violation("C09/cadence/too-few-publications/"+name, fmt.Sprintf("metric %s was published %d times in %s (ttl-based cadence expects several)", name, len(ps), longest*2+longest/2), nil)
			continue
		}
		// after a failed publication the next attempt comes sooner than the normal
		// period (documented: TTL/4 instead of TTL/2); demanded: within 0.4 x TTL
		for i := 0; i+1 < len(ps); i++ {
			if ps[i].Err == nil || name == "ping" {
				continue
			}
			ttl := time.Duration(ps[i].Metric.Expire - ps[i].At.UnixNano())
			gap := ps[i+1].At.Sub(ps[i].At)
			c.Eval("cadence/retry-after-error/" + errMode)
			if ttl > 0 && gap > ttl*4/10 {
				c.Violation("C09/cadence/slow-retry-after-publish-error/"+name, fmt.Sprintf("publishing %s failed; the next attempt came %s later (ttl %s; a healthy peer must renew before expiry, the retry period is ttl/4)", name, gap, ttl), nil)
				break
			}
		}
		if errMode == "double" && name != "ping" {
			continue // two failures in a row may legitimately reach the expiry; only the retry pace is judged
		}
		var prev *sim.Published
		for i := range ps {
			p := ps[i]
			if p.Metric.Peer != n.ID {
				c.Violation("C09/cadence/foreign-peer", "a published metric does not carry the peer's own id", nil)
			}
			if p.Err != nil {
				continue
			}
			if prev != nil {
				c.Eval(key)
				if p.At.UnixNano() >= prev.Metric.Expire {
					c.Violation("C09/cadence/republished-after-expiry/"+name,
						fmt.Sprintf("metric %s was republished %s after the previous publication, which had expired %s earlier (ttl %s, publish errors scripted: %v)",
							name, p.At.Sub(prev.At), time.Duration(p.At.UnixNano()-prev.Metric.Expire), time.Duration(prev.Metric.Expire-prev.At.UnixNano()), withErrors), nil)
					break
				}
			}
			pp := p
			prev = &pp
		}
		// the last successful publication must not have been left to expire either
		if prev != nil {
			end := pubs[len(pubs)-1].At
			if end.UnixNano() >= prev.Metric.Expire {
				c.Violation("C09/cadence/publication-stopped/"+name, fmt.Sprintf("metric %s stopped being published: last success %s before the end of the observation, ttl %s", name, end.Sub(prev.At), time.Duration(prev.Metric.Expire-prev.At.UnixNano())), nil)
			}
		}
	}
	c.Sample(map[string]interface{}{"family": "cadence", "ttl_freespace": ttlA.String(), "ttl_numpin": ttlB.String(), "ping_interval": ping.String(), "publish_errors": errMode, "publications": len(pubs)})
}
