// Package c09: only fresh metrics from members are used; an expired peer alerts once.
package c09

import (
	"context"
	"errors"
	"fmt"
	"sort"
	"strings"
	"sync"
	"time"

	"verif/fw"
	"verif/gen"

	"github.com/ipfs/ipfs-cluster/api"
	"github.com/ipfs/ipfs-cluster/monitor/metrics"
	"github.com/ipfs/ipfs-cluster/monitor/pubsubmon"
	libp2p "github.com/libp2p/go-libp2p"
	peer "github.com/libp2p/go-libp2p-core/peer"
	pubsub "github.com/libp2p/go-libp2p-pubsub"
)

func init() {
	fw.Register(&fw.Prop{
		ID:    "C09",
		Level: "exploration",
		Rule: "Step-driven histories (no tickers): random sequences over 3 metric names x 5 peers of metric arrivals (valid/invalid, expiry one hour before/after now so the class is fixed by construction, " +
			"bursts longer than the 25-slot window), RemovePeer, failure checks over the whole store (CheckAll) or over a chosen peerset (CheckPeers), against a reference model that keeps the latest arrival per (name,peer) " +
			"and an episode flag 'expired and not yet reported'. After every step the real Store.LatestValid(name) (and pubsubmon.Monitor.LatestMetrics under nil/erroring/subset/superset peerset functions) must equal the model; " +
			"after every check the alerts drained from the real Checker must be exactly one per newly expired (peer,name) that was checked, none for live ones, none repeated, and one check later the stale metric is gone. " +
			"With 6 or more samples in a window the accrual detector decides when; there only the safety half (never while live, at most once per episode) is asserted. " +
			"Cadence (real Cluster, recording monitor) is a separate case family, see 'cadence' keys. distinct_nontrivial counts distinct (step kind, model situation) keys.",
		Assumptions: []string{
			"expiry instants are generated one hour away from now; no verdict depends on a metric expiring during a case",
			"an alert for a peer whose latest metric is invalid is not demanded (the two check paths treat it differently and the property does not say which is right)",
		},
		Cases: func(tier string) int {
			if tier == "thorough" {
				return 40000
			}
			return 2400
		},
		MinEvals: func(tier string) int {
			if tier == "thorough" {
				return 2000000
			}
			return 100000
		},
		Run: run,
	})
}

var names = []string{"ping", "freespace", "numpin"}

const npeers = 5

type mkey struct {
	name string
	peer peer.ID
}

type mstate struct {
	latest   *api.Metric // last arrival
	samples  int         // arrivals currently in the window (<= 25)
	reported bool        // alert already sent in this episode
	pending  bool        // an alert was sent and no check has since seen the metric alive or forgotten it
	vseq     string
}

func expired(m *api.Metric) bool { return m.Expire < time.Now().UnixNano() }

func run(c *fw.Ctx, idx int) {
	r := c.Rand("main")
	// the first cases of every child are the cadence family (real Cluster, wall clock)
	ncad := 8
	if c.Thorough() {
		ncad = 48
	}
	if idx < ncad {
		cadenceCase(c, r)
		return
	}
	if idx%4 == 3 {
		monitorCase(c, r)
		return
	}
	storeCheckerCase(c, r, idx%4 == 1, idx%4 == 2)
}

func genMetric(r *fw.Rand, seq int, forceLive bool) *api.Metric {
	m := &api.Metric{
		Name:  names[r.Intn(len(names))],
		Peer:  gen.Peer(r.Intn(npeers)),
		Value: fmt.Sprintf("v%d", seq), // unique: a read identifies the write it observed
		Valid: !r.Chance(1, 6),
	}
	if forceLive || !r.Chance(1, 3) {
		m.Expire = time.Now().Add(time.Hour + time.Duration(r.Intn(1000))*time.Second).UnixNano()
	} else {
		m.Expire = time.Now().Add(-time.Hour - time.Duration(r.Intn(1000))*time.Second).UnixNano()
	}
	return m
}

func fmtMetrics(ms []*api.Metric) string {
	var s []string
	for _, m := range ms {
		s = append(s, fmt.Sprintf("%s/%d/%s", m.Name, gen.PeerIndex(m.Peer), m.Value))
	}
	sort.Strings(s)
	return strings.Join(s, " ")
}

func modelLatestValid(model map[mkey]*mstate, name string) []*api.Metric {
	var out []*api.Metric
	for k, st := range model {
		if k.name != name || st.latest == nil {
			continue
		}
		if st.latest.Valid && !expired(st.latest) {
			out = append(out, st.latest)
		}
	}
	return out
}

// storeCheckerCase drives the real Store+Checker. smallWindows keeps every
// window below the accrual threshold so that "exactly once" is decidable;
// checkAllOnly uses only CheckAll.
func storeCheckerCase(c *fw.Ctx, r *fw.Rand, smallWindows, checkAllOnly bool) {
	ctx, cancel := context.WithCancel(context.Background())
	defer cancel()
	store := metrics.NewStore()
	checker := metrics.NewChecker(ctx, store, 3.0)
	model := map[mkey]*mstate{}
	namesSeen := map[string]bool{}
	var trace []string
	steps := r.Range(10, 70)
	seq := 0
	fail := func(key, msg string) {
		tr := trace
		if len(tr) > 60 {
			tr = tr[len(tr)-60:]
		}
		c.Violation(key, msg, map[string]interface{}{"trace": tr})
	}
	for s := 0; s < steps; s++ {
		kind := r.Intn(10)
		switch {
		case kind < 5: // arrivals
			burst := 1
			if r.Chance(1, 8) && !smallWindows {
				burst = r.Range(20, 40) // more than the window holds
			}
			for b := 0; b < burst; b++ {
				seq++
				m := genMetric(r, seq, false)
				k := mkey{m.Name, m.Peer}
				st := model[k]
				if st == nil {
					st = &mstate{}
					model[k] = st
				}
				if smallWindows && st.samples >= 4 {
					continue
				}
				trace = append(trace, fmt.Sprintf("add %s p%d %s valid=%v expired=%v", m.Name, gen.PeerIndex(m.Peer), m.Value, m.Valid, expired(m)))
				store.Add(m)
				namesSeen[m.Name] = true
				wasExpired := st.latest != nil && expired(st.latest) || st.latest == nil && st.reported
				st.latest = m
				if st.samples < metrics.DefaultWindowCap {
					st.samples++
				}
				if !expired(m) || !wasExpired {
					// a renewal (or any arrival after a live one) starts a new episode
					st.reported = false
				}
			}
			c.Cover(fmt.Sprintf("add/burst%v", burst > 1))
		case kind < 6: // remove peer
			p := gen.Peer(r.Intn(npeers))
			trace = append(trace, fmt.Sprintf("removepeer p%d", gen.PeerIndex(p)))
			store.RemovePeer(p)
			for k, st := range model {
				if k.peer == p {
					// the store forgets the samples; whether the failure was
					// already reported is not reset by a removal
					if st.pending {
						// the checker still remembers its alert; the removal wipes the
						// samples that could prove a renewal. What a later stale arrival
						// yields is not demanded: treat the episode as still reported.
						st.latest, st.samples, st.reported = nil, 0, true
					} else {
						delete(model, k)
					}
				}
			}
			c.Cover("removepeer")
		default: // failure check
			var checked map[peer.ID]bool
			var err error
			if checkAllOnly || r.Chance(1, 3) {
				trace = append(trace, "checkall")
				err = checker.CheckAll()
				checked = nil
			} else {
				var ps []peer.ID
				checked = map[peer.ID]bool{}
				var lbl []string
				for i := 0; i < npeers+1; i++ { // may include a peer that never reported
					if r.Bool() {
						ps = append(ps, gen.Peer(i))
						checked[gen.Peer(i)] = true
						lbl = append(lbl, fmt.Sprint(i))
					}
				}
				trace = append(trace, "checkpeers "+strings.Join(lbl, ","))
				err = checker.CheckPeers(ps)
			}
			if err != nil {
				fail("C09/check-error", "failure check returned an error: "+err.Error())
			}
			// drain alerts
			got := map[mkey]int{}
		drain:
			for {
				select {
				case a := <-checker.Alerts():
					got[mkey{a.Name, a.Peer}]++
					if a.Peer == "" || a.Name == "" {
						fail("C09/alert/empty", "alert without peer or metric name")
					}
				default:
					break drain
				}
			}
			// expectations per (name,peer) in the model
			for k, st := range model {
				if st.latest == nil {
					continue
				}
				inScope := checked == nil || checked[k.peer]
				if checked == nil && !st.latest.Valid {
					// CheckAll never looks at peers whose latest metric is invalid; not demanded
					if got[k] > 0 && !expired(st.latest) {
						fail("C09/alert/live-peer", fmt.Sprintf("alert for %s of p%d whose latest metric is unexpired", k.name, gen.PeerIndex(k.peer)))
					}
					delete(got, k)
					continue
				}
				n := got[k]
				delete(got, k)
				exp := expired(st.latest)
				sit := fmt.Sprintf("check/%v/expired=%v/reported=%v/samples>=6=%v/valid=%v/inscope=%v", checked == nil, exp, st.reported, st.samples >= 6, st.latest.Valid, inScope)
				c.Eval(sit)
				switch {
				case !inScope:
					if n > 0 {
						fail("C09/alert/peer-not-checked", fmt.Sprintf("alert for p%d which was not in the checked peerset", gen.PeerIndex(k.peer)))
					}
				case !exp:
					st.pending = false
					if n > 0 {
						fail("C09/alert/live-peer", fmt.Sprintf("alert for %s of p%d whose latest metric (%s) is unexpired", k.name, gen.PeerIndex(k.peer), st.latest.Value))
					}
				case st.reported:
					// already reported: nothing more, and the stale metric is forgotten now
					if n > 0 {
						fail("C09/alert/repeated", fmt.Sprintf("%s of p%d was already reported in this episode and is reported again (%d alerts)", k.name, gen.PeerIndex(k.peer), n))
					}
					if st.latest.Valid || checked != nil {
						if pl := store.PeerLatest(k.name, k.peer); pl != nil && st.samples < 6 {
							fail("C09/stale-metric-not-forgotten", fmt.Sprintf("%s of p%d still stored one check after it was reported", k.name, gen.PeerIndex(k.peer)))
						}
						if store.PeerLatest(k.name, k.peer) == nil {
							delete(model, k)
						}
					}
				default: // expired, in scope, not yet reported
					if n > 1 {
						fail("C09/alert/more-than-once-per-check", fmt.Sprintf("one failure check produced %d alerts for %s of p%d (window holds %d samples)", n, k.name, gen.PeerIndex(k.peer), st.samples))
					}
					if n == 0 && st.samples < 6 && st.latest.Valid {
						fail("C09/alert/expired-peer-not-reported", fmt.Sprintf("%s of p%d expired (latest %s) and the check raised no alert", k.name, gen.PeerIndex(k.peer), st.latest.Value))
					}
					if n >= 1 {
						st.reported = true
						st.pending = true
					}
					// the store may already have forgotten it (second evaluation inside the same round)
					if store.PeerLatest(k.name, k.peer) == nil {
						delete(model, k)
					}
				}
			}
			for k, n := range got {
				fail("C09/alert/unknown-peer-or-metric", fmt.Sprintf("%d alert(s) for %s of p%d which has no stored metric", n, k.name, gen.PeerIndex(k.peer)))
			}
		}
		// LatestValid after every step
		for _, name := range names {
			got := store.LatestValid(name)
			want := modelLatestValid(model, name)
			c.Eval(fmt.Sprintf("latestvalid/n%d", len(want)))
			if fmtMetrics(got) != fmtMetrics(want) {
				fail("C09/latestvalid-differs", fmt.Sprintf("LatestValid(%s) = [%s], want [%s]", name, fmtMetrics(got), fmtMetrics(want)))
				return
			}
			seen := map[peer.ID]bool{}
			for _, m := range got {
				if seen[m.Peer] {
					fail("C09/latestvalid-duplicate-peer", "more than one metric for a peer")
				}
				seen[m.Peer] = true
			}
		}
	}
	if len(trace) > 12 {
		trace = trace[:12]
	}
	c.Sample(map[string]interface{}{"family": "store+checker", "small_windows": smallWindows, "first_steps": trace})
}

func monitorCase(c *fw.Ctx, r *fw.Rand) {
	ctx, cancel := context.WithCancel(context.Background())
	defer cancel()
	// a fresh host+pubsub per monitor: a Monitor never leaves its topic
	h, err := libp2p.New(ctx, libp2p.NoListenAddrs)
	if err != nil {
		c.Inconclusive("libp2p.New: " + err.Error())
		return
	}
	defer h.Close()
	ps, err := pubsub.NewGossipSub(ctx, h)
	if err != nil {
		c.Inconclusive("pubsub: " + err.Error())
		return
	}
	cfg := &pubsubmon.Config{}
	cfg.Default()
	var peersetKind string
	var members map[peer.ID]bool
	var pf pubsubmon.PeersFunc
	switch r.Intn(4) {
	case 0:
		peersetKind = "nil"
	case 1:
		peersetKind = "error"
		pf = func(context.Context) ([]peer.ID, error) { return nil, errors.New("peerset unknown") }
	case 2:
		peersetKind = "subset"
		members = map[peer.ID]bool{}
		for i := 0; i < npeers; i++ {
			if r.Bool() {
				members[gen.Peer(i)] = true
			}
		}
	default:
		peersetKind = "superset"
		members = map[peer.ID]bool{}
		for i := 0; i < npeers+3; i++ {
			members[gen.Peer(i)] = true
		}
	}
	var pmu sync.Mutex
	if members != nil {
		// the peerset is read at every call: it changes during the history
		pf = func(context.Context) ([]peer.ID, error) {
			pmu.Lock()
			defer pmu.Unlock()
			var list []peer.ID
			for p := range members {
				list = append(list, p)
			}
			return list, nil
		}
	}
	mon, err := pubsubmon.New(ctx, cfg, ps, pf)
	if err != nil {
		c.Inconclusive("pubsubmon.New: " + err.Error())
		return
	}
	defer func() {
		// Shutdown closes rpcReady; never SetClient so the ticker-driven watcher does not run
		mon.Shutdown(ctx)
	}()
	model := map[mkey]*mstate{}
	steps := r.Range(5, 40)
	for s := 0; s < steps; s++ {
		if members != nil && r.Chance(1, 4) {
			// a member leaves or a peer joins between two reads
			p := gen.Peer(r.Intn(npeers))
			pmu.Lock()
			if members[p] {
				delete(members, p)
			} else {
				members[p] = true
			}
			pmu.Unlock()
			peersetKind = "changing"
		}
		m := genMetric(r, s, false)
		mon.LogMetric(ctx, m)
		k := mkey{m.Name, m.Peer}
		if model[k] == nil {
			model[k] = &mstate{}
		}
		model[k].latest = m
		for _, name := range names {
			got := mon.LatestMetrics(ctx, name)
			var want []*api.Metric
			for _, w := range modelLatestValid(model, name) {
				if members == nil || members[w.Peer] {
					want = append(want, w)
				}
			}
			c.Eval(fmt.Sprintf("monitor/%s/n%d", peersetKind, len(want)))
			if peersetKind == "error" {
				// peerset unknown: either nothing or the unfiltered list is acceptable
				if len(got) != 0 && fmtMetrics(got) != fmtMetrics(want) {
					c.Violation("C09/monitor/latestmetrics-differs", fmt.Sprintf("peerset error: got [%s]", fmtMetrics(got)), nil)
				}
				continue
			}
			if fmtMetrics(got) != fmtMetrics(want) {
				c.Violation("C09/monitor/latestmetrics-differs/"+peersetKind,
					fmt.Sprintf("LatestMetrics(%s) with %s peerset = [%s], want [%s]", name, peersetKind, fmtMetrics(got), fmtMetrics(want)), nil)
				return
			}
		}
	}
	c.Sample(map[string]interface{}{"family": "monitor", "peerset": peersetKind, "steps": steps})
}
