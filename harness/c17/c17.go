// Package c17: Raft membership changes are agreed by all members and never lose the pinset.
package c17

import (
	"context"
	"fmt"
	"os"
	"path/filepath"
	"sort"
	"strings"
	"sync"
	"time"

	"verif/fw"
	"verif/gen"
	"verif/mon"
	"verif/sim"

	cid "github.com/ipfs/go-cid"
	ds "github.com/ipfs/go-datastore"
	dsq "github.com/ipfs/go-datastore/query"
	ipfscluster "github.com/ipfs/ipfs-cluster"
	"github.com/ipfs/ipfs-cluster/api"
	host "github.com/libp2p/go-libp2p-core/host"
	peer "github.com/libp2p/go-libp2p-core/peer"
	ma "github.com/multiformats/go-multiaddr"
)

func init() {
	fw.Register(&fw.Prop{
		ID:    "C17",
		Level: "exploration",
		Rule: "Full real Raft Cluster peers (real PeerAdd, PeerRemove, Join, watchPeers, Shutdown, raft.Consensus) on real libp2p hosts, model IPFS, recording tracker, scripted monitor (every member healthy). " +
			"A case is a history of 4-10 steps on clusters of 1-4 peers: pin / unpin at any member, join of a new peer (started in staging mode, Join through any member), remove of a member at a leader or follower (including the leader and the peer itself), " +
			"adding a present peer, removing an absent peer, removing the last peer, restart of a member. " +
			"Oracle after every step: a successful add/remove => all remaining members report the same peerset with/without the peer within 30 s; no-ops leave peerset and pinset unchanged; removing the last peer fails; " +
			"when Join returns and Ready fires the joiner's pinset contains everything acknowledged before the join started and finally equals the others'; a removed peer's Done() closes and its Raft data folder is gone within 30 s; " +
			"with re-pinning on, the removed peer's pins were re-homed (C03/C10 predicate, not on the removed peer) before it left; the union pinset never shrinks except by unpins. " +
			"distinct_nontrivial counts distinct (step kind, cluster size, target role, outcome) keys.",
		Assumptions: []string{
			"bounded progress: agreement / catch-up / self-shutdown are demanded within 30 s after the step returned (observed: 1-3 s); not reaching quorum-dependent preconditions (no leader) makes the step inconclusive",
			"peer_watch_interval is scaled to 300 ms so that a removed peer notices within the bound",
		},
		Cases: func(tier string) int {
			if tier == "thorough" {
				return 160
			}
			return 24
		},
		Children: func(string) int { return 8 },
		MinEvals: func(tier string) int {
			if tier == "thorough" {
				return 2400
			}
			return 300
		},
		CaseTimeout: 600 * time.Second,
		Run:         run,
	})
}

type member struct {
	idx   int
	peer  *sim.NetPeer
	alive bool // running as far as the driver knows
	in    bool // believed to be in the peerset
}

type world struct {
	c       *fw.Ctx
	dir     string
	base    int
	members map[int]*member
	pins    map[string]bool // acknowledged and not unpinned
	trace   []string
}

func (w *world) id(i int) peer.ID { return gen.Peer(w.base + i) }

func (w *world) hosts() []host.Host {
	var hs []host.Host
	for _, m := range w.members {
		if m.alive && m.peer.Host != nil {
			hs = append(hs, m.peer.Host)
		}
	}
	return hs
}

func (w *world) metrics() []*api.Metric {
	var ms []*api.Metric
	for i, m := range w.members {
		if m.in {
			ms = append(ms, &api.Metric{Name: "freespace", Peer: w.id(i), Value: fmt.Sprint(100 + i), Valid: true, Expire: time.Now().Add(time.Hour).UnixNano()})
		}
	}
	return ms
}

func (w *world) refreshMonitors() {
	ms := w.metrics()
	for _, m := range w.members {
		if m.alive && m.peer.Mon != nil {
			m.peer.Mon.SetMetrics("freespace", ms)
		}
	}
}

func tuneFor(repin bool) func(cfg *ipfscluster.Config) {
	return func(cfg *ipfscluster.Config) {
		cfg.PeerWatchInterval = 300 * time.Millisecond
		cfg.ReplicationFactorMin, cfg.ReplicationFactorMax = 1, 2
		cfg.DisableRepinning = !repin
	}
}

func (w *world) prepare(ctx context.Context, i int, slow time.Duration) error {
	m := w.members[i]
	if m == nil {
		m = &member{idx: i}
		w.members[i] = m
	}
	p := &sim.NetPeer{Idx: i, Key: gen.Key(w.base + i), Dir: filepath.Join(w.dir, fmt.Sprintf("p%d", i)), SlowRaft: slow}
	if err := p.PrepareHost(ctx); err != nil {
		return err
	}
	m.peer = p
	m.alive = true
	sim.ShareAddrs(w.hosts())
	return nil
}

func (w *world) aliveIn() []int {
	var out []int
	for i, m := range w.members {
		if m.alive && m.in {
			out = append(out, i)
		}
	}
	sort.Ints(out)
	return out
}

func (w *world) peersetOf(ctx context.Context, i int) (string, error) {
	ps, err := w.members[i].peer.Node.Consensus.Peers(ctx)
	if err != nil {
		return "", err
	}
	var s []string
	for _, p := range ps {
		s = append(s, fmt.Sprint(gen.PeerIndex(p)-w.base))
	}
	sort.Strings(s)
	return strings.Join(s, ","), nil
}

func (w *world) wantPeerset() string {
	var s []string
	for i, m := range w.members {
		if m.in {
			s = append(s, fmt.Sprint(i))
		}
	}
	sort.Strings(s)
	return strings.Join(s, ",")
}

func waitUntil(limit time.Duration, f func() bool) bool {
	deadline := time.Now().Add(limit)
	for time.Now().Before(deadline) {
		if f() {
			return true
		}
		time.Sleep(100 * time.Millisecond)
	}
	return false
}

// agree waits until every alive member in the peerset reports want.
func (w *world) agree(ctx context.Context, want string) (bool, []string) {
	var views []string
	ok := waitUntil(30*time.Second, func() bool {
		views = nil
		all := true
		for _, i := range w.aliveIn() {
			got, err := w.peersetOf(ctx, i)
			views = append(views, fmt.Sprintf("p%d sees {%s} err=%v", i, got, err))
			if err != nil || got != want {
				all = false
			}
		}
		return all
	})
	return ok, views
}

func (w *world) pinsetOf(ctx context.Context, i int) (map[string]bool, error) {
	pins, err := w.members[i].peer.Node.Cluster.Pins(ctx)
	if err != nil {
		return nil, err
	}
	out := map[string]bool{}
	for _, p := range pins {
		out[p.Cid.String()] = true
	}
	return out, nil
}

func (w *world) fail(key, msg string, extra interface{}) {
	tr := w.trace
	if len(tr) > 30 {
		tr = tr[len(tr)-30:]
	}
	w.c.Violation(key, msg, map[string]interface{}{"history": tr, "extra": extra})
}

func (w *world) checkPinsets(ctx context.Context, phase string) {
	// every alive member holds every acknowledged, not unpinned CID (bounded)
	var bad string
	ok := waitUntil(30*time.Second, func() bool {
		bad = ""
		for _, i := range w.aliveIn() {
			ps, err := w.pinsetOf(ctx, i)
			if err != nil {
				bad = fmt.Sprintf("p%d: %v", i, err)
				return false
			}
			for c := range w.pins {
				if !ps[c] {
					bad = fmt.Sprintf("p%d lacks %s", i, c)
					return false
				}
			}
			for c := range ps {
				if !w.pins[c] {
					bad = fmt.Sprintf("p%d holds %s which was unpinned or never acknowledged", i, c)
					return false
				}
			}
		}
		return true
	})
	w.c.Eval("pinset/" + phase)
	if !ok {
		key := "C17/pinset-lost-or-diverged/" + phase
		w.fail(key, "after "+phase+" the members' pinsets differ from the acknowledged pins: "+bad, nil)
	}
}

// checkRehomed: every pin that listed the removed peer and would fall below
// its minimum without it has been given new allocations that exclude the
// removed peer and reach the minimum (the log entries doing so precede the
// configuration change; 10 s are allowed for the survivors to apply them).
func (w *world) checkRehomed(ctx context.Context, victim, remaining int, pinsBefore []*api.Pin) {
	if len(w.aliveIn()) == 0 {
		return
	}
	reader := w.aliveIn()[0]
	var bad, badKey string
	var detail interface{}
	n := 0
	ok := waitUntil(10*time.Second, func() bool {
		bad = ""
		n = 0
		pinsAfter, err := w.members[reader].peer.Node.Cluster.Pins(ctx)
		if err != nil {
			bad, badKey = err.Error(), "C17/remove/pinset-unreadable"
			return false
		}
		after := map[string]*api.Pin{}
		for _, p := range pinsAfter {
			after[p.Cid.String()] = p
		}
		for _, p := range pinsBefore {
			others := 0
			held := false
			for _, x := range p.Allocations {
				if x == w.id(victim) {
					held = true
				} else {
					others++
				}
			}
			if !held || p.ReplicationFactorMin < 0 {
				continue
			}
			a := after[p.Cid.String()]
			if a == nil {
				continue // the pinset check reports losses
			}
			if others >= p.ReplicationFactorMin || remaining < p.ReplicationFactorMin {
				continue
			}
			n++
			d := map[string]interface{}{"cid": p.Cid.String(), "before": idxs(w, p.Allocations), "after": idxs(w, a.Allocations), "min": p.ReplicationFactorMin, "max": p.ReplicationFactorMax, "removed": victim}
			for _, x := range a.Allocations {
				if x == w.id(victim) {
					bad, badKey, detail = "a pin of the removed peer that fell below its minimum still lists the removed peer", "C17/remove/pin-not-rehomed", d
					return false
				}
			}
			for _, x := range a.Allocations {
				if j := gen.PeerIndex(x) - w.base; w.members[j] == nil || !w.members[j].in {
					bad, badKey, detail = fmt.Sprintf("a pin of the removed peer was re-homed onto p%d, which is not a member", j), "C17/remove/pin-rehomed-onto-non-member", d
					return false
				}
			}
			if len(a.Allocations) < p.ReplicationFactorMin {
				bad, badKey, detail = fmt.Sprintf("%d allocations, min %d", len(a.Allocations), p.ReplicationFactorMin), "C17/remove/pin-under-replicated-after-rehoming", d
				return false
			}
		}
		return true
	})
	for i := 0; i < n; i++ {
		w.c.Eval("remove/rehomed")
	}
	if !ok {
		w.fail(badKey, bad, detail)
	}
}

// storeKeys counts the keys in the store under a gate (read side is not held).
func storeKeys(g *sim.GateDS) int {
	res, err := g.Datastore.Query(dsq.Query{KeysOnly: true})
	if err != nil {
		return -1
	}
	es, _ := res.Rest()
	return len(es)
}

func idxs(w *world, ps []peer.ID) []int {
	var out []int
	for _, p := range ps {
		out = append(out, gen.PeerIndex(p)-w.base)
	}
	return out
}

func run(c *fw.Ctx, idx int) {
	ctx := context.Background()
	r := c.Rand("main")
	dir := filepath.Join(c.Dir, fmt.Sprintf("case%d", idx))
	os.RemoveAll(dir)
	defer os.RemoveAll(dir)
	w := &world{c: c, dir: dir, base: r.Intn(4) * 5, members: map[int]*member{}, pins: map[string]bool{}}
	n0 := r.Range(1, 3)
	repin := r.Intn(4) != 0
	tune := tuneFor(repin)
	// small append batches make a joiner's catch-up take several rounds
	rtune := sim.RaftTune{MaxAppendEntries: []int{1, 2, 64}[r.Intn(3)], BackupsRotate: []int{1, 2, 6}[r.Intn(3)]}

	// one case in twelve follows a script: a peer joins, takes a write, is restarted (its
	// folder then holds a snapshot), is removed, and the same identity on the same folder
	// goes through all of that again - the second removal meets the backup of the first
	type forced struct {
		kind   string
		at, on int // where the call is made, whom it concerns (-1: as usual)
	}
	var script []forced
	if idx%12 == 11 {
		n0 = 2
		repin = true
		rtune.BackupsRotate = []int{1, 1, 2}[r.Intn(3)]
		script = []forced{{"join", 0, 2}, {"pin", 0, -1}, {"restart", -1, 2}, {"remove", 0, 2},
			{"join", 1, 2}, {"pin", 1, -1}, {"restart", -1, 2}, {"remove", 1, 2}, {"pin", 0, -1}}
		tune = tuneFor(repin)
	}
	// one case in twelve runs on the real monitor (pubsubmon over gossipsub, fed by the
	// peers' own informer loops, filtered by the consensus peerset): pins land on the
	// best-ranked members, which are then removed one right after the other at the same
	// member - re-homed pins must end up on members
	// one case in twelve runs a calm scripted history on a cluster that makes one try per
	// operation (commit_retries = 0): with a settled leader one try is all it takes
	if idx%12 == 8 {
		n0 = 3
		rtune.NoCommitRetries = true
		script = []forced{{"pin", 0, -1}, {"join", 0, 3}, {"pin", 1, -1}, {"add-present", 2, -1}, {"remove", 0, 3}, {"pin", 2, -1}, {"remove-absent", 1, -1}}
	}
	realMon := idx%12 == 5
	if realMon {
		n0 = 4
		repin = true
		tune = tuneFor(repin)
		script = []forced{{"pin", 0, -1}, {"pin", 1, -1}, {"pin", 0, -1}, {"pin", 2, -1}, {"remove", 0, 3}, {"remove", 0, 2}, {"pin", 1, -1}}
	}
	var init []peer.ID
	for i := 0; i < n0; i++ {
		init = append(init, w.id(i))
	}
	for i := 0; i < n0; i++ {
		if err := w.prepare(ctx, i, 0); err != nil {
			c.Inconclusive("host: " + err.Error())
			return
		}
		w.members[i].in = true
	}
	sim.ShareAddrs(w.hosts())
	var wg sync.WaitGroup
	errs := make([]error, n0)
	for i := 0; i < n0; i++ {
		wg.Add(1)
		go func(i int) {
			defer wg.Done()
			o := sim.NetOpts{Consensus: "raft", Peers: init, Tune: tune, RaftTune: rtune}
			if realMon {
				inf := sim.NewStubInformer("freespace")
				inf.Valid, inf.Value, inf.TTL = true, fmt.Sprint(100-i), 20*time.Second // the ascending allocator ranks the members removed later best
				o.RealMon, o.Informers = true, []ipfscluster.Informer{inf}
			}
			errs[i] = sim.StartPeer(ctx, w.members[i].peer, o)
		}(i)
	}
	wg.Wait()
	defer func() {
		var cw sync.WaitGroup
		for _, m := range w.members {
			if m.alive && m.peer.Node != nil {
				cw.Add(1)
				go func(m *member) { defer cw.Done(); m.peer.Node.Close() }(m)
			}
		}
		cw.Wait()
	}()
	for _, e := range errs {
		if e != nil {
			c.Inconclusive("cluster start: " + e.Error())
			return
		}
	}
	sim.ConnectAll(ctx, w.hosts())
	w.refreshMonitors()
	if realMon {
		// every member's monitor holds a metric of every member (the informer loops republish every 10 s)
		if !waitUntil(40*time.Second, func() bool {
			for _, i := range w.aliveIn() {
				if len(w.members[i].peer.Node.Monitor.LatestMetrics(ctx, "freespace")) < n0 {
					return false
				}
			}
			return true
		}) {
			c.Inconclusive("the members' metrics did not reach every monitor within 40 s")
			return
		}
		c.Cover("real-monitor")
	}
	shardParts := map[string]bool{}
	next := n0 // next unused member index (max 4 peers in total at a time, 6 identities)
	pinSeq := 0
	steps := r.Range(4, 10)
	if script != nil {
		steps = len(script)
	}
	for s := 0; s < steps; s++ {
		in := w.aliveIn()
		if len(in) == 0 {
			break
		}
		at := in[r.Intn(len(in))]
		kind := r.Pick("pin", "pin", "unpin", "join", "join", "remove", "remove", "add-present", "remove-absent", "restart")
		if len(in) >= 4 && kind == "join" {
			kind = "remove"
		}
		on := -1
		if script != nil {
			kind, on = script[s].kind, script[s].on
			if script[s].at >= 0 {
				at = script[s].at
			}
		}
		switch kind {
		case "pin":
			pinSeq++
			ci := gen.Cid(88000+idx*100+pinSeq, pinSeq)
			w.trace = append(w.trace, fmt.Sprintf("pin #%d at p%d", pinSeq, at))
			c.Journal("%s", w.trace[len(w.trace)-1])
			rf := [][2]int{{1, 1}, {1, 2}, {2, 2}, {2, 3}, {0, 0}}[r.Intn(5)]
			_, err := w.members[at].peer.Node.Cluster.Pin(ctx, ci, api.PinOptions{Name: fmt.Sprintf("n%d", pinSeq), ReplicationFactorMin: rf[0], ReplicationFactorMax: rf[1]})
			c.Eval(fmt.Sprintf("pin/n%d/rf=%d-%d/err=%v", len(in), rf[0], rf[1], err != nil))
			if err != nil && rf[0] > len(in) {
				continue // not enough peers for the requested minimum
			}
			if err != nil {
				w.fail("C17/pin-refused", "a pin on a healthy cluster failed: "+err.Error(), nil)
				continue
			}
			w.pins[ci.String()] = true
			w.checkPinsets(ctx, "pin")
		case "unpin":
			var some string
			for k := range w.pins {
				if shardParts[k] {
					continue // a shard entry cannot be unpinned on its own
				}
				some = k
				break
			}
			if some == "" {
				continue
			}
			ci, _ := cid.Decode(some)
			w.trace = append(w.trace, fmt.Sprintf("unpin %s at p%d", some[len(some)-6:], at))
			if _, err := w.members[at].peer.Node.Cluster.Unpin(ctx, ci); err != nil {
				w.fail("C17/unpin-refused", "unpin failed: "+err.Error(), nil)
				continue
			}
			delete(w.pins, some)
			c.Eval(fmt.Sprintf("unpin/n%d", len(in)))
			w.checkPinsets(ctx, "unpin")
		case "join":
			if next >= 6 && on < 0 {
				continue
			}
			j := next
			if on >= 0 {
				j = on // a given identity (possibly one that was a member before) on its old folder
				if j >= next {
					next = j + 1
				}
			} else {
				next++
			}
			// half of the joiners sit behind a slow link for Raft traffic until they have joined
			var slow time.Duration
			if r.Intn(2) == 0 {
				slow = 3 * time.Millisecond
			}
			if err := w.prepare(ctx, j, slow); err != nil {
				c.Inconclusive("host: " + err.Error())
				return
			}
			// a third of the joins find a long log: the joiner's catch-up then
			// takes many append rounds, which widens the window in which a peer
			// that does not wait would report ready
			if r.Intn(3) == 0 {
				var bw sync.WaitGroup
				base := pinSeq
				pinSeq += 4
				var bmu sync.Mutex
				okc := map[string]bool{}
				for g := 0; g < 4; g++ {
					bw.Add(1)
					go func(g int) {
						defer bw.Done()
						ci := gen.Cid(88000+idx*100+base+1+g, g)
						for k := 0; k < 40; k++ {
							_, err := w.members[in[(g+k)%len(in)]].peer.Node.Cluster.Pin(ctx, ci, api.PinOptions{Name: fmt.Sprintf("bulk-%d-%d", g, k)})
							if err == nil {
								bmu.Lock()
								okc[ci.String()] = true
								bmu.Unlock()
							}
						}
					}(g)
				}
				bw.Wait()
				for k := range okc {
					w.pins[k] = true
				}
				w.trace = append(w.trace, fmt.Sprintf("bulk: 160 pin operations on 4 cids (%d acknowledged cids)", len(okc)))
				c.Eval("join/after-bulk")
				w.checkPinsets(ctx, "bulk")
			}
			before := map[string]bool{}
			for k := range w.pins {
				before[k] = true
			}
			w.trace = append(w.trace, fmt.Sprintf("join p%d through p%d (cluster of %d)", j, at, len(in)))
			c.Journal("%s", w.trace[len(w.trace)-1])
			// half of the joins hold back every write to the joiner's state
			// store: while held, the joiner cannot have caught up, so neither
			// Join may return nor Ready fire (a logical, not a timed, check)
			var gate *sim.GateDS
			if len(before) > 0 && r.Intn(2) == 0 {
				w.members[j].peer.WrapStore = func(d ds.Datastore) ds.Datastore {
					gate = sim.NewGateDS(d)
					gate.Hold()
					return gate
				}
			}
			err := sim.StartPeer(ctx, w.members[j].peer, sim.NetOpts{Consensus: "raft", Staging: true, Tune: tune, NoWaitReady: true, RaftTune: rtune})
			if err != nil {
				c.Inconclusive("start joiner: " + err.Error())
				w.members[j].alive = false
				continue
			}
			sim.ShareAddrs(w.hosts())
			target := w.members[at].peer.Host
			addr, _ := ma.NewMultiaddr(fmt.Sprintf("%s/p2p/%s", target.Addrs()[0], peer.Encode(target.ID())))
			// L0: every write acknowledged before the join has a log index <= L0
			var l0 uint64
			for _, i := range in {
				if rh := sim.RaftHandle(w.members[i].peer.Node.Consensus); rh != nil && rh.LastIndex() > l0 {
					l0 = rh.LastIndex()
				}
			}
			jn := w.members[j].peer.Node
			jrh := sim.RaftHandle(jn.Consensus)
			if jrh == nil {
				c.Inconclusive("no raft handle")
				return
			}
			// observers: what the joiner holds at the moment Join returns / it reports ready
			type obs struct {
				what    string
				err     error
				applied uint64 // raft's applied index: entries handed to the FSM
				pins    map[string]bool
				perr    error
			}
			look := func(what string, err error) obs {
				o := obs{what: what, err: err, applied: jrh.AppliedIndex()}
				if gate == nil {
					o.pins, o.perr = w.pinsetOf(ctx, j)
				}
				return o
			}
			readyObs := make(chan obs, 1)
			go func() {
				select {
				case <-jn.Cluster.Ready():
					readyObs <- look("the new peer reported ready", nil)
				case <-jn.Cluster.Done():
				}
			}()
			// optionally a write races with the join at some member
			var cwg sync.WaitGroup
			var concCid cid.Cid
			var concErr error
			if r.Intn(2) == 0 {
				pinSeq++
				concCid = gen.Cid(88000+idx*100+pinSeq, pinSeq)
				from := in[r.Intn(len(in))]
				w.trace = append(w.trace, fmt.Sprintf("  (pin #%d at p%d concurrently with the join)", pinSeq, from))
				cwg.Add(1)
				go func() {
					defer cwg.Done()
					_, concErr = w.members[from].peer.Node.Cluster.Pin(ctx, concCid, api.PinOptions{Name: "concurrent"})
				}()
			}
			joinObs := make(chan obs, 1)
			go func() {
				err := jn.Cluster.Join(ctx, addr)
				joinObs <- look("Join returned successfully", err)
			}()
			judge := func(o obs, gated bool) {
				if o.err != nil {
					return
				}
				c.Eval(fmt.Sprintf("join/observed/%s/gated=%v", strings.Fields(o.what)[0], gated))
				c.Journal("  observed: %s applied=%d l0=%d gated=%v", o.what, o.applied, l0, gated)
				if o.applied < l0 {
					w.fail("C17/join/ready-before-log-caught-up", fmt.Sprintf("%s when its Raft applied index was %d, below the index %d of writes acknowledged before the join started", o.what, o.applied, l0), nil)
					return
				}
				if gated {
					// writes are held back: whatever the state store holds now is what had been applied
					n := storeKeys(gate)
					if n < len(before) {
						w.fail("C17/join/ready-before-pinset-caught-up/entries-handed-to-fsm-but-not-applied",
							fmt.Sprintf("%s while its state store held %d of the %d pins acknowledged before the join (Raft's applied index %d counts entries queued for the FSM; the FSM had not written them yet - store writes held back by the harness)", o.what, n, len(before), o.applied), nil)
					}
					return
				}
				if o.perr != nil {
					w.fail("C17/join/pinset-unreadable", o.perr.Error(), nil)
					return
				}
				for k := range before {
					if !o.pins[k] {
						w.fail("C17/join/ready-before-pinset-caught-up/entries-handed-to-fsm-but-not-applied", fmt.Sprintf("%s while it still lacked a pin acknowledged before the join started (Raft's applied index %d >= %d: handed to the FSM, not yet written)", o.what, o.applied, l0), k)
						break
					}
				}
			}
			var jo obs
			gotJoin, gotReady := false, false
			if gate != nil {
				// hold until the joiner's FSM has tried to write (it received
				// entries) and a little longer, then look at what happened meanwhile
				waitUntil(10*time.Second, func() bool { return gate.WaitingWrites() > 0 })
				time.Sleep(700 * time.Millisecond)
				c.Eval(fmt.Sprintf("join/gated/fsm-waiting=%v", gate.WaitingWrites() > 0))
				select {
				case jo = <-joinObs:
					gotJoin = true
					judge(jo, true)
				default:
				}
				select {
				case o := <-readyObs:
					gotReady = true
					judge(o, true)
				default:
				}
				gate.Release()
			}
			if !gotJoin {
				select {
				case jo = <-joinObs:
					judge(jo, false)
				case <-time.After(90 * time.Second):
					w.fail("C17/join/never-returns", "Join did not return within 90 s", nil)
					return
				}
			}
			err = jo.err
			if sl := w.members[j].peer.Slow; sl != nil {
				sl.SetDelay(0)
				c.Eval("join/slow-link")
			}
			cwg.Wait()
			if concCid.Defined() {
				c.Eval(fmt.Sprintf("join/concurrent-pin/err=%v", concErr != nil))
				if concErr == nil {
					w.pins[concCid.String()] = true
				} else {
					// outcome unknown to the driver: settle it from the members' state
					time.Sleep(500 * time.Millisecond)
					if ps, e := w.pinsetOf(ctx, at); e == nil && ps[concCid.String()] {
						w.pins[concCid.String()] = true
					}
				}
			}
			c.Eval(fmt.Sprintf("join/n%d/err=%v", len(in), err != nil))
			if err != nil && strings.Contains(err.Error(), "context canceled") {
				// the joiner shut itself down while catching up: its peer watcher (every 300 ms
				// here, every 5 s by default) looked at a replayed configuration from before
				// its own addition. A start-up race of the tree that this harness's short
				// interval amplifies; the Join fails with an error, which breaks no clause
				c.Inconclusive("joiner stopped itself while catching up (peer watcher saw a configuration from before its addition): " + err.Error())
				jn.Close()
				return
			}
			if err != nil {
				w.fail("C17/join-failed", fmt.Sprintf("joining a healthy cluster of %d failed: %v", len(in), err), nil)
				jn.Close()
				w.members[j].alive = false
				continue
			}
			if !gotReady {
				select {
				case o := <-readyObs:
					judge(o, false)
				case <-time.After(30 * time.Second):
					w.fail("C17/join/never-ready", "the joined peer does not report ready within 30 s", nil)
				}
			}
			w.members[j].in = true
			sim.ConnectAll(ctx, w.hosts())
			w.refreshMonitors()
			if ok, views := w.agree(ctx, w.wantPeerset()); !ok {
				w.fail("C17/join/members-disagree-on-peerset", "30 s after a successful join the members do not all report the new peerset {"+w.wantPeerset()+"}", views)
			}
			w.checkPinsets(ctx, "join")
		case "remove":
			if len(in) == 1 {
				// removing the last peer must fail
				w.trace = append(w.trace, fmt.Sprintf("remove last peer p%d", at))
				err := w.members[at].peer.Node.Cluster.PeerRemove(ctx, w.id(at))
				c.Eval("remove-last")
				if err == nil {
					w.fail("C17/remove-last-peer-accepted", "removing the last peer of the cluster succeeded", nil)
				}
				if got, _ := w.peersetOf(ctx, at); got != w.wantPeerset() {
					w.fail("C17/remove-last-peer-changed-peerset", "peerset is now {"+got+"}", nil)
				}
				continue
			}
			victim := in[r.Intn(len(in))]
			if on >= 0 {
				victim = on
			}
			lead, _ := w.members[at].peer.Node.Consensus.Leader(ctx)
			role := "follower"
			if lead == w.id(victim) {
				role = "leader"
			}
			if victim == at {
				role += "-self"
			}
			// half of the removals find a mix on the departing peer: one pin that cannot
			// be re-allocated without it (minimum = cluster size) and pins that can
			if repin && r.Intn(2) == 0 {
				mk := func(name string, min, max int, user []peer.ID) {
					pinSeq++
					ci := gen.Cid(88000+idx*100+pinSeq, pinSeq)
					_, err := w.members[at].peer.Node.Cluster.Pin(ctx, ci, api.PinOptions{Name: name, ReplicationFactorMin: min, ReplicationFactorMax: max, UserAllocations: user})
					if err == nil {
						w.pins[ci.String()] = true
					}
				}
				mk("needs-everyone", len(in), len(in), nil)
				for k := 0; k < 3; k++ {
					mk(fmt.Sprintf("movable-%d", k), 1, 1, []peer.ID{w.id(victim)})
				}
				// ... and a part of a sharded add (a shard entry, as the adders submit it) placed there too
				pinSeq++
				sp := api.PinCid(gen.Cid(88000+idx*100+pinSeq, pinSeq))
				sp.Type, sp.MaxDepth, sp.Mode, sp.Name = api.ShardType, 1, api.PinModeRecursive, "shard-part"
				sp.ReplicationFactorMin, sp.ReplicationFactorMax = 1, 1
				sp.UserAllocations = []peer.ID{w.id(victim)}
				var spOut api.Pin
				if err := w.members[at].peer.Node.Client.CallContext(ctx, "", "Cluster", "Pin", sp, &spOut); err == nil {
					w.pins[sp.Cid.String()] = true
					shardParts[sp.Cid.String()] = true
				}
				w.trace = append(w.trace, fmt.Sprintf("  (before the removal: 1 pin with min=%d, 3 pins 1/1 and a shard entry 1/1 placed on p%d)", len(in), victim))
				w.checkPinsets(ctx, "pre-removal-pins")
			}
			// pins held by the victim before
			pinsBefore, _ := w.members[at].peer.Node.Cluster.Pins(ctx)
			w.trace = append(w.trace, fmt.Sprintf("remove p%d (%s) at p%d (cluster of %d)", victim, role, at, len(in)))
			c.Journal("%s", w.trace[len(w.trace)-1])
			rctx, cancel := context.WithTimeout(ctx, 60*time.Second)
			err := w.members[at].peer.Node.Cluster.PeerRemove(rctx, w.id(victim))
			cancel()
			c.Eval(fmt.Sprintf("remove/n%d/%s/err=%v", len(in), role, err != nil))
			if err != nil {
				// a failed removal must leave the peerset as it was
				if ok, views := w.agree(ctx, w.wantPeerset()); !ok {
					w.fail("C17/remove/failed-but-peerset-changed/"+role, "PeerRemove failed ("+err.Error()+") but the members do not report the old peerset", views)
				}
				continue
			}
			vm := w.members[victim]
			vm.in = false
			w.refreshMonitors()
			if ok, views := w.agree(ctx, w.wantPeerset()); !ok {
				w.fail("C17/remove/members-disagree-on-peerset/"+role, "30 s after a successful removal the remaining members do not all report {"+w.wantPeerset()+"}", views)
			}
			// the removed peer stops itself and discards its consensus data
			doneOK := waitUntil(30*time.Second, func() bool {
				select {
				case <-vm.peer.Node.Cluster.Done():
					return true
				default:
					return false
				}
			})
			c.Eval("remove/self-shutdown/" + role)
			if !doneOK {
				w.fail("C17/remove/removed-peer-keeps-running/"+role, "the removed peer did not shut itself down within 30 s", nil)
			} else {
				dataGone := waitUntil(10*time.Second, func() bool {
					_, err := os.Stat(vm.peer.RaftCfg.GetDataFolder())
					return os.IsNotExist(err)
				})
				if !dataGone {
					w.fail("C17/remove/consensus-data-kept/"+role, "the removed peer shut down but its Raft data folder is still in place", nil)
				}
			}
			if doneOK {
				vm.peer.Node.Close()
			} else {
				// a removed peer that did not stop itself is in an unknown state and its own
				// Shutdown may never return (reported above): it gets 20 s, then the case goes
				// on without waiting for it
				closed := make(chan struct{})
				go func(n *sim.Node) { n.Close(); close(closed) }(vm.peer.Node)
				select {
				case <-closed:
				case <-time.After(20 * time.Second):
					c.Count("removed_peer_close_abandoned", 1)
				}
			}
			vm.alive = false
			// re-homing happened before it left
			if repin {
				w.checkRehomed(ctx, victim, len(in)-1, pinsBefore)
			}
			w.checkPinsets(ctx, "remove")
		case "add-present":
			target := in[r.Intn(len(in))]
			w.trace = append(w.trace, fmt.Sprintf("add present p%d at p%d", target, at))
			_, err := w.members[at].peer.Node.Cluster.PeerAdd(ctx, w.id(target))
			c.Eval(fmt.Sprintf("add-present/n%d/err=%v", len(in), err != nil))
			if err != nil {
				w.fail("C17/add-present/refused", "adding a peer that is already a member must be a harmless no-op, it failed: "+err.Error(), nil)
			}
			if ok, views := w.agree(ctx, w.wantPeerset()); !ok {
				w.fail("C17/add-present/peerset-changed", "adding a present peer changed the peerset", views)
			}
			w.checkPinsets(ctx, "add-present")
		case "remove-absent":
			absent := gen.Peer(w.base + 4 + r.Intn(1)) // an identity that never joined... unless it did
			if m := w.members[gen.PeerIndex(absent)-w.base]; m != nil && m.in {
				continue
			}
			w.trace = append(w.trace, fmt.Sprintf("remove absent peer at p%d", at))
			err := w.members[at].peer.Node.Cluster.PeerRemove(ctx, absent)
			c.Eval(fmt.Sprintf("remove-absent/n%d/err=%v", len(in), err != nil))
			if err != nil {
				w.fail("C17/remove-absent/refused", fmt.Sprintf("removing a peer that is not a member must be a harmless no-op, on a cluster of %d it failed: %v", len(in), err), nil)
			}
			if ok, views := w.agree(ctx, w.wantPeerset()); !ok {
				w.fail("C17/remove-absent/peerset-changed", "removing an absent peer changed the peerset", views)
			}
			w.checkPinsets(ctx, "remove-absent")
		case "restart":
			if len(in) == 2 {
				continue // a 2-peer cluster has no quorum while one is down; restart is covered by C01
			}
			victim := in[r.Intn(len(in))]
			if on >= 0 {
				victim = on
			}
			w.trace = append(w.trace, fmt.Sprintf("restart p%d (cluster of %d)", victim, len(in)))
			c.Journal("%s", w.trace[len(w.trace)-1])
			w.members[victim].peer.Node.Close()
			w.members[victim].alive = false
			// while it is down (a quorum remains) the others may be asked to add it again,
			// or to remove a peer that is not a member: both stay harmless no-ops
			if len(in) >= 3 && r.Intn(2) == 0 {
				up := w.aliveIn()
				from := up[r.Intn(len(up))]
				what := r.Pick("add-present-down", "remove-absent")
				if m := w.members[4]; m != nil && m.in {
					what = "add-present-down" // that identity is a member in this history
				}
				var err error
				actx, cancel := context.WithTimeout(ctx, 30*time.Second)
				if what == "add-present-down" {
					_, err = w.members[from].peer.Node.Cluster.PeerAdd(actx, w.id(victim))
				} else {
					err = w.members[from].peer.Node.Cluster.PeerRemove(actx, gen.Peer(w.base+4))
				}
				cancel()
				w.trace = append(w.trace, fmt.Sprintf("  (while p%d is down: %s at p%d -> err=%v)", victim, what, from, err != nil))
				c.Eval(fmt.Sprintf("%s/n%d/err=%v", what, len(in), err != nil))
				if ok, views := w.agree(ctx, w.wantPeerset()); !ok {
					w.fail("C17/"+what+"/peerset-changed", fmt.Sprintf("%s while member p%d was down changed the peerset reported by the running members", what, victim), views)
				}
			}
			if err := w.prepare(ctx, victim, 0); err != nil {
				c.Inconclusive("host: " + err.Error())
				return
			}
			w.members[victim].in = true
			var ids []peer.ID
			for _, i := range w.aliveIn() {
				ids = append(ids, w.id(i))
			}
			err := sim.StartPeer(ctx, w.members[victim].peer, sim.NetOpts{Consensus: "raft", Peers: ids, Tune: tune, RaftTune: rtune})
			c.Eval(fmt.Sprintf("restart/n%d/err=%v", len(in), err != nil))
			if err != nil {
				w.fail("C17/restart/peer-does-not-come-back", "a restarted member did not become ready: "+err.Error(), nil)
				w.members[victim].alive = false
				w.members[victim].in = false
				return
			}
			sim.ConnectAll(ctx, w.hosts())
			w.refreshMonitors()
			if ok, views := w.agree(ctx, w.wantPeerset()); !ok {
				w.fail("C17/restart/members-disagree-on-peerset", "after a restart the members do not report the same peerset", views)
			}
			w.checkPinsets(ctx, "restart")
		}
	}
	c.Sample(map[string]interface{}{"initial_peers": n0, "repinning": repin, "history": w.trace})
}

var _ = mon.DeepEq
