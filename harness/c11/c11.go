// Package c11: REST API is fail-closed, authenticated and faithful to the request.
package c11

import (
	"bytes"
	"context"
	"encoding/base64"
	"encoding/json"
	"errors"
	"fmt"
	files "github.com/ipfs/go-ipfs-files"
	"github.com/ipfs/ipfs-cluster/adder"
	"github.com/ipfs/ipfs-cluster/adder/single"
	"io"
	"io/ioutil"
	"mime/multipart"
	"net/http"
	"net/url"
	"regexp"
	"sort"
	"strings"
	"time"

	"verif/fw"
	"verif/gen"
	"verif/mon"
	"verif/sim"

	cid "github.com/ipfs/go-cid"
	"github.com/ipfs/ipfs-cluster/api"
	"github.com/ipfs/ipfs-cluster/api/rest"
	"github.com/ipfs/ipfs-cluster/api/rest/client"
	peer "github.com/libp2p/go-libp2p-core/peer"
	ma "github.com/multiformats/go-multiaddr"
)

func init() {
	fw.Register(&fw.Prop{
		ID:    "C11",
		Level: "exploration",
		Rule: "A real rest.API listens on 127.0.0.1 (one instance without credentials, one with), a recording RPC service stands behind it. Case families: (a) every documented route (table held as data) and unknown paths x {GET,POST,PUT,DELETE,PATCH,OPTIONS,HEAD}; " +
			"(b) POST/DELETE /pins/{cid} and /pins/{ipfs|ipns|ipld}/{path} with every pin option valid and invalid, alone and combined (name, mode, replication, replication-min/max, shard-size, user-allocations, expire-at, expire-in, meta-*, pin-update, origins); " +
			"(c) malformed path parameters (CIDs, peer ids, paths) and JSON bodies; (d) every route and method under configured credentials with missing / wrong user / wrong password / right credentials; (e) /add multipart bodies with valid and invalid add parameters; " +
			"(f) every method of the bundled client library with generated arguments against scripted answers. Oracle: malformed => 4xx and zero recorded RPCs; well-formed => exactly the one RPC the route names with the CID/path/peer and the options the generator put in " +
			"(parsed independently; max_depth consistent with the requested mode); body = exactly one JSON value then EOF (for /add with stream-channels a stream of well-formed objects); bad credentials => 401 and zero RPCs everywhere; client: recorded args = given args, returned value = scripted answer. " +
			"distinct_nontrivial counts distinct (family, route, method, option-shape, outcome) keys.",
		Assumptions: []string{
			"an unknown 'mode' value and unparsable peer ids inside user-allocations are accepted by design (defaulted / dropped) and are not generated as invalid options",
			"libp2p-http transport of the API is not exercised (the QUIC stub prevents configuring a libp2p listen address); the HTTP handler chain is the same",
		},
		Cases: func(tier string) int {
			if tier == "thorough" {
				return 24000
			}
			return 900
		},
		MinEvals: func(tier string) int {
			if tier == "thorough" {
				return 300000
			}
			return 10000
		},
		ChildSetup:    setup,
		ChildTeardown: teardown,
		Run:           run,
	})
}

type env struct {
	rec               *sim.RPCRecorder
	open, auth, authT *rest.API
	openURL, authURL  string
	authTURL          string // credentials configured and tracing on
	scriptErr         error
	failRPC           map[string]error // per endpoint
	answers           map[string]interface{}
	hc                *http.Client
	clOpen            client.Client
}

const user, pass = "verif-user", "verif-pass"

func newAPI(rec *sim.RPCRecorder, creds map[string]string, tracing bool) (*rest.API, string, error) {
	cfg := &rest.Config{}
	cfg.Default()
	cfg.Tracing = tracing // what cmdutils.SetupTracing switches on for a daemon started with tracing
	addr, _ := ma.NewMultiaddr("/ip4/127.0.0.1/tcp/0")
	cfg.HTTPListenAddr = []ma.Multiaddr{addr}
	cfg.BasicAuthCredentials = creds
	a, err := rest.NewAPI(context.Background(), cfg)
	if err != nil {
		return nil, "", err
	}
	a.SetClient(rec.Client)
	addrs, err := a.HTTPAddresses()
	if err != nil {
		return nil, "", err
	}
	return a, "http://" + addrs[0], nil
}

func setup(c *fw.Ctx) {
	e := &env{answers: map[string]interface{}{}, hc: &http.Client{Timeout: 30 * time.Second}}
	e.rec = sim.NewRPCRecorder(func(ctx context.Context, call sim.Call, out interface{}) error {
		if e.scriptErr != nil {
			return e.scriptErr
		}
		if err := e.failRPC[call.Name()]; err != nil {
			return err
		}
		if call.Name() == "Cluster.BlockAllocate" {
			*(out.(*[]peer.ID)) = []peer.ID{gen.Peer(0)}
			return nil
		}
		if ans, ok := e.answers[call.Name()]; ok {
			b, _ := json.Marshal(ans)
			// copy through JSON-free reflection: same concrete type
			return assign(out, ans, b)
		}
		switch o := out.(type) {
		case *api.ID:
			o.ID = gen.Peer(0)
			o.Peername = "verif"
		case *api.Pin:
			if in, ok := call.In.(*api.Pin); ok {
				*o = *in
				o.Origins = nil
			} else {
				*o = *api.PinCid(gen.UCid(0))
			}
		case *api.Version:
			o.Version = "0.0.0-verif"
		case *[]peer.ID:
			*o = []peer.ID{gen.Peer(0)}
		case *api.RepoGC:
			o.Peer = gen.Peer(0)
			o.Keys = []api.IPFSRepoGC{}
		}
		return nil
	})
	var err error
	e.open, e.openURL, err = newAPI(e.rec, nil, false)
	if err != nil {
		fmt.Println("C11 setup:", err)
		return
	}
	e.auth, e.authURL, err = newAPI(e.rec, map[string]string{user: pass}, false)
	if err != nil {
		fmt.Println("C11 setup:", err)
		return
	}
	e.authT, e.authTURL, err = newAPI(e.rec, map[string]string{user: pass}, true)
	if err != nil {
		fmt.Println("C11 setup:", err)
		return
	}
	u, _ := url.Parse(e.openURL)
	e.clOpen, err = client.NewDefaultClient(&client.Config{Host: u.Hostname(), Port: u.Port(), DisableKeepAlives: true})
	if err != nil {
		fmt.Println("C11 setup client:", err)
		return
	}
	c.Store["env"] = e
}

func assign(out, ans interface{}, _ []byte) error {
	switch o := out.(type) {
	case *api.ID:
		*o = *(ans.(*api.ID))
	case *api.Pin:
		*o = *(ans.(*api.Pin))
	case *api.Version:
		*o = *(ans.(*api.Version))
	case *api.GlobalPinInfo:
		*o = *(ans.(*api.GlobalPinInfo))
	case *[]*api.GlobalPinInfo:
		*o = ans.([]*api.GlobalPinInfo)
	case *[]*api.ID:
		*o = ans.([]*api.ID)
	case *[]*api.Pin:
		*o = ans.([]*api.Pin)
	case *[]*api.Metric:
		*o = ans.([]*api.Metric)
	case *[]string:
		*o = ans.([]string)
	case *[]api.Alert:
		*o = ans.([]api.Alert)
	case *api.ConnectGraph:
		*o = *(ans.(*api.ConnectGraph))
	case *api.GlobalRepoGC:
		*o = *(ans.(*api.GlobalRepoGC))
	default:
		return fmt.Errorf("no scripted assignment for %T", out)
	}
	return nil
}

func teardown(c *fw.Ctx) {
	if e, ok := c.Store["env"].(*env); ok {
		ctx, cancel := context.WithTimeout(context.Background(), 10*time.Second)
		defer cancel()
		e.open.Shutdown(ctx)
		e.auth.Shutdown(ctx)
		e.authT.Shutdown(ctx)
	}
}

// ------------------------------------------------------------- requests

type response struct {
	status  int
	body    []byte
	trailer http.Header
	err     error
}

func (e *env) do(method, u string, body io.Reader, ctype string, creds [2]string) response {
	req, err := http.NewRequest(method, u, body)
	if err != nil {
		return response{err: err}
	}
	if ctype != "" {
		req.Header.Set("Content-Type", ctype)
	}
	switch {
	case creds[0] == "<empty>": // an explicit Basic header with an empty user name
		req.SetBasicAuth("", creds[1])
	case creds[0] == "<raw>": // a literal Authorization header
		req.Header.Set("Authorization", creds[1])
	case creds[0] != "" || creds[1] != "":
		req.SetBasicAuth(creds[0], creds[1])
	}
	req.Close = true
	res, err := e.hc.Do(req)
	if err != nil {
		return response{err: err}
	}
	defer res.Body.Close()
	b, _ := ioutil.ReadAll(res.Body)
	return response{status: res.StatusCode, body: b, trailer: res.Trailer}
}

// jsonDocs counts the JSON values in a body; ok=false when something is not JSON.
func jsonDocs(b []byte) (n int, ok bool) {
	dec := json.NewDecoder(bytes.NewReader(b))
	for {
		var v interface{}
		err := dec.Decode(&v)
		if err == io.EOF {
			return n, true
		}
		if err != nil {
			return n, false
		}
		n++
	}
}

func (e *env) checkSingleDoc(c *fw.Ctx, what string, method string, r response) {
	if method == "HEAD" {
		return
	}
	n, ok := jsonDocs(r.body)
	switch {
	case !ok:
		c.Violation("C11/body-not-json/"+what, fmt.Sprintf("status %d, body is not JSON: %.200q", r.status, r.body), nil)
	case n == 0 && r.status != http.StatusNoContent && r.status != http.StatusUnauthorized && len(bytes.TrimSpace(r.body)) == 0 && r.status != 200:
		// empty body with a non-204 status: tolerated only for statuses that carry none by definition
	case n > 1:
		c.Violation("C11/body-more-than-one-document/"+what, fmt.Sprintf("status %d, %d JSON documents in one response: %.300q", r.status, n, r.body), nil)
	}
}

// ------------------------------------------------------------- routes

type routeSpec struct {
	name   string
	method string
	pat    *regexp.Regexp          // the route's path pattern
	hashAt int                     // index of the path segment that must be a CID (0 = none)
	path   func(r *fw.Rand) string // a well-formed instance
	rpc    func(q url.Values) string
	body   func() (io.Reader, string)
}

var sampleCid = gen.UCid(1)
var samplePeer = gen.Peer(3)

func localRPC(global, local string) func(q url.Values) string {
	return func(q url.Values) string {
		if q.Get("local") == "true" {
			return local
		}
		return global
	}
}
func fixed(s string) func(url.Values) string { return func(url.Values) string { return s } }

func routes() []routeSpec {
	cidPath := func(prefix, suffix string) func(r *fw.Rand) string {
		return func(r *fw.Rand) string { return prefix + gen.UCid(r.Intn(8)).String() + suffix }
	}
	lit := func(s string) func(r *fw.Rand) string { return func(*fw.Rand) string { return s } }
	withLocal := func(f func(r *fw.Rand) string) func(r *fw.Rand) string {
		return func(r *fw.Rand) string { return f(r) + r.Pick("", "?local=true", "?local=false") }
	}
	rs := []routeSpec{
		{name: "ID", method: "GET", path: lit("/id"), rpc: fixed("Cluster.ID")},
		{name: "Version", method: "GET", path: lit("/version"), rpc: fixed("Cluster.Version")},
		{name: "Peers", method: "GET", path: lit("/peers"), rpc: fixed("Cluster.Peers")},
		{name: "PeerAdd", method: "POST", path: lit("/peers"), rpc: fixed("Cluster.PeerAdd"), body: func() (io.Reader, string) {
			return strings.NewReader(fmt.Sprintf(`{"peer_id":"%s"}`, peer.Encode(samplePeer))), "application/json"
		}},
		{name: "PeerRemove", method: "DELETE", path: func(r *fw.Rand) string { return "/peers/" + peer.Encode(gen.Peer(r.Intn(24))) }, rpc: fixed("Cluster.PeerRemove")},
		{name: "Add", method: "POST", path: lit("/add"), rpc: fixed("(add)")},
		{name: "Allocations", method: "GET", path: func(r *fw.Rand) string {
			return "/allocations" + r.Pick("", "?filter=all", "?filter=pin", "?filter=meta-pin,shard-pin", "?filter=clusterdag-pin")
		}, rpc: fixed("Cluster.Pins")},
		{name: "Allocation", method: "GET", path: cidPath("/allocations/", ""), rpc: fixed("Cluster.PinGet"), hashAt: 2},
		{name: "StatusAll", method: "GET", path: func(r *fw.Rand) string {
			return "/pins" + r.Pick("", "?local=true", "?filter=pinned", "?local=true&filter=error,queued", "?filter=pin_error,remote")
		}, rpc: localRPC("Cluster.StatusAll", "Cluster.StatusAllLocal")},
		{name: "Recover", method: "POST", path: withLocal(cidPath("/pins/", "/recover")), rpc: localRPC("Cluster.Recover", "Cluster.RecoverLocal"), hashAt: 2},
		{name: "RecoverAll", method: "POST", path: withLocal(lit("/pins/recover")), rpc: localRPC("Cluster.RecoverAll", "Cluster.RecoverAllLocal")},
		{name: "Status", method: "GET", path: withLocal(cidPath("/pins/", "")), rpc: localRPC("Cluster.Status", "Cluster.StatusLocal"), hashAt: 2},
		{name: "Pin", method: "POST", path: cidPath("/pins/", ""), rpc: fixed("Cluster.Pin"), hashAt: 2},
		{name: "PinPath", method: "POST", path: func(r *fw.Rand) string {
			return "/pins/" + r.Pick("ipfs", "ipns", "ipld") + "/" + gen.UCid(r.Intn(8)).String() + r.Pick("", "/a", "/a/b/c")
		}, rpc: fixed("Cluster.PinPath")},
		{name: "Unpin", method: "DELETE", path: cidPath("/pins/", ""), rpc: fixed("Cluster.Unpin"), hashAt: 2},
		{name: "UnpinPath", method: "DELETE", path: func(r *fw.Rand) string {
			return "/pins/" + r.Pick("ipfs", "ipns", "ipld") + "/" + gen.UCid(r.Intn(8)).String() + r.Pick("", "/x")
		}, rpc: fixed("Cluster.UnpinPath")},
		{name: "RepoGC", method: "POST", path: withLocal(lit("/ipfs/gc")), rpc: localRPC("Cluster.RepoGC", "Cluster.RepoGCLocal")},
		{name: "ConnectionGraph", method: "GET", path: lit("/health/graph"), rpc: fixed("Cluster.ConnectGraph")},
		{name: "Alerts", method: "GET", path: lit("/health/alerts"), rpc: fixed("Cluster.Alerts")},
		{name: "Metrics", method: "GET", path: func(r *fw.Rand) string { return "/monitor/metrics/" + r.Pick("ping", "freespace", "x-y_z") }, rpc: fixed("PeerMonitor.LatestMetrics")},
		{name: "MetricNames", method: "GET", path: lit("/monitor/metrics"), rpc: fixed("PeerMonitor.MetricNames")},
	}
	pats := map[string]string{
		"ID": "^/id$", "Version": "^/version$", "Peers": "^/peers$", "PeerAdd": "^/peers$", "PeerRemove": "^/peers/[^/]+$", "Add": "^/add$",
		"Allocations": "^/allocations$", "Allocation": "^/allocations/[^/]+$", "StatusAll": "^/pins$", "Recover": "^/pins/[^/]+/recover$",
		"RecoverAll": "^/pins/recover$", "Status": "^/pins/[^/]+$", "Pin": "^/pins/[^/]+$", "PinPath": "^/pins/(ipfs|ipns|ipld)/.*$",
		"Unpin": "^/pins/[^/]+$", "UnpinPath": "^/pins/(ipfs|ipns|ipld)/.*$", "RepoGC": "^/ipfs/gc$", "ConnectionGraph": "^/health/graph$",
		"Alerts": "^/health/alerts$", "Metrics": "^/monitor/metrics/[^/]+$", "MetricNames": "^/monitor/metrics$",
	}
	for i := range rs {
		rs[i].pat = regexp.MustCompile(pats[rs[i].name])
	}
	return rs
}

// match returns the route the router picks for (method, path): the first in
// table order whose method and pattern match; wellFormed tells whether its
// path parameter decodes.
func match(rs []routeSpec, m, path string) (rt *routeSpec, wellFormed bool) {
	for i := range rs {
		o := &rs[i]
		if o.method != m || !o.pat.MatchString(path) {
			continue
		}
		if o.hashAt > 0 {
			seg := strings.Split(path, "/")
			if _, err := cid.Decode(seg[o.hashAt]); err != nil {
				return o, false
			}
		}
		return o, true
	}
	return nil, false
}

var methods = []string{"GET", "POST", "PUT", "DELETE", "PATCH", "OPTIONS", "HEAD"}

var unknownPaths = []string{"/", "/nope", "/pins/recover/x/y", "/peers/a/b", "/add/more", "/api/v0/pin/ls", "/ipfs", "/health", "/monitor", "/allocations/a/b"}

func callNames(cs []sim.Call) string {
	var s []string
	for _, c := range cs {
		s = append(s, c.Name())
	}
	return strings.Join(s, ",")
}

// ------------------------------------------------------------- case

func run(c *fw.Ctx, idx int) {
	e, ok := c.Store["env"].(*env)
	if !ok {
		c.Inconclusive("API not built")
		return
	}
	r := c.Rand("main")
	e.scriptErr = nil
	e.answers = map[string]interface{}{}
	switch idx % 6 {
	case 0:
		routeSweep(c, e, r, e.openURL, [2]string{}, "open")
	case 1:
		pinOptions(c, e, r, false)
	case 2:
		pinOptions(c, e, r, true)
	case 3:
		malformed(c, e, r)
	case 4:
		authSweep(c, e, r)
	case 5:
		if r.Bool() {
			clientLib(c, e, r)
		} else {
			addCase(c, e, r)
		}
	}
}

func routeSweep(c *fw.Ctx, e *env, r *fw.Rand, base string, creds [2]string, tag string) {
	rs := routes()
	if r.Chance(1, 5) {
		e.scriptErr = errors.New("scripted RPC failure")
	}
	for _, rt := range rs {
		for _, m := range methods {
			p := rt.path(r)
			u, _ := url.Parse(base + p)
			var body io.Reader
			ctype := ""
			if pre, _ := match(rs, m, u.Path); pre != nil && pre.body != nil {
				body, ctype = pre.body()
			}
			e.rec.Reset()
			c.Journal("%s %s", m, p)
			res := e.do(m, base+p, body, ctype, creds)
			calls := e.rec.Calls()
			if res.err != nil {
				c.Inconclusive("http: " + res.err.Error())
				continue
			}
			expected := ""
			mrt, wf := match(rs, m, u.Path)
			if mrt != nil && mrt.name == "Add" {
				continue // multipart route: its own case family
			}
			if mrt != nil && wf {
				expected = mrt.rpc(u.Query())
			}
			if mrt != nil && !wf {
				// a routed request whose path parameter does not decode: malformed
				if len(calls) != 0 || res.status < 400 || res.status >= 500 {
					c.Violation("C11/malformed-but-operation-performed/cid", fmt.Sprintf("%s %s answered %d and performed [%s]", m, p, res.status, callNames(calls)), nil)
				}
				continue
			}
			c.Eval(fmt.Sprintf("sweep/%s/%s/%s/%d/rpcerr=%v", tag, rt.name, m, res.status/100, e.scriptErr != nil))
			e.checkSingleDoc(c, "sweep/"+rt.name+"/"+m, m, res)
			if expected == "" {
				// not a route for this method: nothing may be performed
				if len(calls) != 0 {
					c.Violation("C11/unrouted-method-performed-operation/"+rt.name+"/"+m, fmt.Sprintf("%s %s performed %s", m, p, callNames(calls)), nil)
				}
				if m != "OPTIONS" && (res.status < 400 || res.status >= 500) {
					c.Violation("C11/unrouted-method-status/"+rt.name+"/"+m, fmt.Sprintf("%s %s answered %d", m, p, res.status), nil)
				}
				continue
			}
			if len(calls) != 1 || calls[0].Name() != expected {
				c.Violation("C11/wrong-operation/"+mrt.name, fmt.Sprintf("%s %s must perform exactly %s, performed [%s] (status %d)", m, p, expected, callNames(calls), res.status), nil)
				continue
			}
			if e.scriptErr != nil {
				if res.status < 400 {
					c.Violation("C11/rpc-error-reported-as-success/"+mrt.name, fmt.Sprintf("RPC failed but status is %d", res.status), nil)
				}
			} else if res.status >= 400 {
				c.Violation("C11/well-formed-request-refused/"+mrt.name, fmt.Sprintf("%s %s answered %d: %.200s", m, p, res.status, res.body), nil)
			}
			checkArg(c, mrt.name, p, u.Query(), calls[0])
		}
	}
	for _, p := range unknownPaths {
		for _, m := range methods {
			e.rec.Reset()
			res := e.do(m, base+p, nil, "", creds)
			if res.err != nil {
				continue
			}
			c.Eval(fmt.Sprintf("sweep/%s/unknown/%s/%d", tag, m, res.status/100))
			if n := len(e.rec.Calls()); n != 0 {
				c.Violation("C11/unknown-path-performed-operation", fmt.Sprintf("%s %s performed %s", m, p, callNames(e.rec.Calls())), nil)
			}
			if m != "OPTIONS" && (res.status < 400 || res.status >= 500) {
				c.Violation("C11/unknown-path-status", fmt.Sprintf("%s %s answered %d", m, p, res.status), nil)
			}
			e.checkSingleDoc(c, "unknown", m, res)
		}
	}
	c.Sample(map[string]interface{}{"family": "route sweep", "routes": len(rs), "methods": methods})
}

func checkArg(c *fw.Ctx, route, p string, q url.Values, call sim.Call) {
	path := strings.SplitN(p, "?", 2)[0]
	seg := strings.Split(strings.Trim(path, "/"), "/")
	switch route {
	case "Allocation", "Status", "Recover":
		want := seg[1]
		got, ok := call.In.(cid.Cid)
		if !ok || got.String() != want {
			c.Violation("C11/wrong-argument/"+route, fmt.Sprintf("CID %s requested, RPC got %v", want, call.In), nil)
		}
	case "Pin", "Unpin":
		got, ok := call.In.(*api.Pin)
		if !ok || got.Cid.String() != seg[1] {
			c.Violation("C11/wrong-argument/"+route, fmt.Sprintf("CID %s requested, RPC got %s", seg[1], call.InJSON()), nil)
		}
	case "PinPath", "UnpinPath":
		got, ok := call.In.(*api.PinPath)
		want := "/" + strings.Join(seg[1:], "/")
		if !ok || got.Path != want {
			c.Violation("C11/wrong-argument/"+route, fmt.Sprintf("path %s requested, RPC got %s", want, call.InJSON()), nil)
		}
	case "PeerRemove":
		got, ok := call.In.(peer.ID)
		if !ok || peer.Encode(got) != seg[1] {
			c.Violation("C11/wrong-argument/"+route, "peer id differs", nil)
		}
	case "PeerAdd":
		got, ok := call.In.(peer.ID)
		if !ok || got != samplePeer {
			c.Violation("C11/wrong-argument/"+route, "peer id differs", nil)
		}
	case "Metrics":
		got, ok := call.In.(string)
		if !ok || got != seg[2] {
			c.Violation("C11/wrong-argument/"+route, "metric name differs", nil)
		}
	case "StatusAll":
		got, ok := call.In.(api.TrackerStatus)
		want := api.TrackerStatusFromString(q.Get("filter"))
		if !ok || got != want {
			c.Violation("C11/wrong-argument/"+route, fmt.Sprintf("filter %q requested, RPC got %v", q.Get("filter"), call.In), nil)
		}
	}
}

// ------------------------------------------------------------- pin options

type opt struct {
	key, val string
	valid    bool
	apply    func(po *api.PinOptions)
	shape    string
}

func genOpt(r *fw.Rand) opt {
	switch r.Intn(12) {
	case 0:
		v := r.Pick("a", "my pin", "ünï/cödé&=?", "")
		return opt{"name", v, true, func(po *api.PinOptions) { po.Name = v }, "name"}
	case 1:
		v := r.Pick("recursive", "direct")
		return opt{"mode", v, true, func(po *api.PinOptions) { po.Mode = api.PinModeFromString(v) }, "mode=" + v}
	case 2:
		if r.Chance(1, 3) {
			return opt{"replication", r.Pick("x", "1.5", " 2"), false, nil, "replication-bad"}
		}
		n := r.Range(-1, 5)
		return opt{"replication", fmt.Sprint(n), true, func(po *api.PinOptions) { po.ReplicationFactorMin, po.ReplicationFactorMax = n, n }, "replication"}
	case 3:
		if r.Chance(1, 3) {
			return opt{"replication-min", r.Pick("abc", "2x", "0x2"), false, nil, "replication-min-bad"}
		}
		n := r.Range(-1, 5)
		return opt{"replication-min", fmt.Sprint(n), true, func(po *api.PinOptions) { po.ReplicationFactorMin = n }, "replication-min"}
	case 4:
		if r.Chance(1, 3) {
			return opt{"replication-max", r.Pick("abc", "9999999999999999999999", "1e3"), false, nil, "replication-max-bad"}
		}
		n := r.Range(-1, 5)
		return opt{"replication-max", fmt.Sprint(n), true, func(po *api.PinOptions) { po.ReplicationFactorMax = n }, "replication-max"}
	case 5:
		if r.Chance(1, 3) {
			return opt{"shard-size", r.Pick("-1", "big", "1.5"), false, nil, "shard-size-bad"}
		}
		n := uint64(r.Intn(1 << 30))
		return opt{"shard-size", fmt.Sprint(n), true, func(po *api.PinOptions) { po.ShardSize = n }, "shard-size"}
	case 6:
		ps := gen.Peers(r.Range(1, 3))
		return opt{"user-allocations", strings.Join(api.PeersToStrings(ps), ","), true, func(po *api.PinOptions) { po.UserAllocations = ps }, "user-allocations"}
	case 7:
		if r.Chance(1, 3) {
			return opt{"expire-at", r.Pick("tomorrow", "2030-13-45", "12345"), false, nil, "expire-at-bad"}
		}
		t := gen.ExpiryBase.Add(time.Duration(r.Intn(1e6)) * time.Second)
		b, _ := t.MarshalText()
		return opt{"expire-at", string(b), true, func(po *api.PinOptions) { po.ExpireAt = t }, "expire-at"}
	case 8:
		if r.Chance(1, 2) {
			return opt{"expire-in", r.Pick("soon", "10", "1ms", "-5h"), false, nil, "expire-in-bad"}
		}
		return opt{"expire-in", "2h", true, func(po *api.PinOptions) { po.ExpireAt = time.Now().Add(2 * time.Hour) }, "expire-in"}
	case 9:
		k, v := r.Pick("k1", "k-2", "K"), r.Pick("v", "", "a b&c=d")
		return opt{"meta-" + k, v, true, func(po *api.PinOptions) {
			if po.Metadata == nil {
				po.Metadata = map[string]string{}
			}
			po.Metadata[k] = v
		}, "meta"}
	case 10:
		if r.Chance(1, 3) {
			return opt{"pin-update", r.Pick("zzz", "Qm", "/ipfs/x"), false, nil, "pin-update-bad"}
		}
		u := gen.UCid(r.Range(20, 30))
		return opt{"pin-update", u.String(), true, func(po *api.PinOptions) { po.PinUpdate = u }, "pin-update"}
	default:
		if r.Chance(1, 3) {
			return opt{"origins", r.Pick("/ip4/1.2.3.4/tcp/1", "garbage", "/ip4/1.2.3.4/tcp/1/p2p/notapeer", ","), false, nil, "origins-bad"}
		}
		var ms []ma.Multiaddr
		var ss []string
		for i := r.Range(1, 2); i > 0; i-- {
			m := gen.Multiaddr(r, true)
			ms = append(ms, m)
			ss = append(ss, m.String())
		}
		return opt{"origins", strings.Join(ss, ","), true, func(po *api.PinOptions) { po.Origins = ms }, "origins"}
	}
}

func pinOptions(c *fw.Ctx, e *env, r *fw.Rand, viaPath bool) {
	for n := 0; n < 25; n++ {
		var opts []opt
		keys := map[string]bool{}
		for i := r.Intn(5); i > 0; i-- {
			o := genOpt(r)
			base := strings.SplitN(o.key, "-", 2)[0]
			if keys[o.key] || keys[base] && (base == "replication" || base == "expire") {
				continue
			}
			keys[o.key], keys[base] = true, true
			opts = append(opts, o)
		}
		q := url.Values{}
		exp := api.PinOptions{}
		valid := true
		var shapes []string
		// "replication" overrides min/max; apply it last like the server does
		sort.SliceStable(opts, func(i, j int) bool { return opts[i].key != "replication" && opts[j].key == "replication" })
		for _, o := range opts {
			q.Set(o.key, o.val)
			shapes = append(shapes, o.shape)
			if !o.valid {
				valid = false
			} else {
				o.apply(&exp)
			}
		}
		sort.Strings(shapes)
		target := gen.UCid(r.Intn(8))
		method := "POST"
		if r.Chance(1, 5) {
			method = "DELETE"
		}
		var p, rpcName string
		sub := ""
		if viaPath {
			sub = r.Pick("", "/a", "/a/b")
			p = "/pins/" + r.Pick("ipfs", "ipld") + "/" + target.String() + sub
			rpcName = map[string]string{"POST": "Cluster.PinPath", "DELETE": "Cluster.UnpinPath"}[method]
		} else {
			p = "/pins/" + target.String()
			rpcName = map[string]string{"POST": "Cluster.Pin", "DELETE": "Cluster.Unpin"}[method]
		}
		full := e.openURL + p
		if len(q) > 0 {
			full += "?" + q.Encode()
		}
		e.rec.Reset()
		c.Journal("%s %s", method, full)
		res := e.do(method, full, nil, "", [2]string{})
		if res.err != nil {
			c.Inconclusive("http: " + res.err.Error())
			continue
		}
		calls := e.rec.Calls()
		c.Eval(fmt.Sprintf("options/path=%v/%s/%s/valid=%v/%d", viaPath, method, strings.Join(shapes, "+"), valid, res.status/100))
		e.checkSingleDoc(c, "options/"+rpcName, method, res)
		if !valid {
			if res.status < 400 || res.status >= 500 {
				c.Violation("C11/invalid-option-not-refused/"+firstBad(shapes), fmt.Sprintf("%s %s answered %d", method, full, res.status), nil)
			}
			if len(calls) != 0 {
				c.Violation(fmt.Sprintf("C11/invalid-option-but-operation-performed/path=%v", viaPath), fmt.Sprintf("%s %s (status %d) still performed %s", method, full, res.status, callNames(calls)), nil)
			}
			continue
		}
		if len(calls) != 1 || calls[0].Name() != rpcName {
			c.Violation("C11/wrong-operation/"+rpcName, fmt.Sprintf("%s %s must perform exactly %s, performed [%s] (status %d: %.150s)", method, full, rpcName, callNames(calls), res.status, res.body), nil)
			continue
		}
		var gotOpts api.PinOptions
		if viaPath {
			pp := calls[0].In.(*api.PinPath)
			if pp.Path != "/"+strings.SplitN(strings.TrimPrefix(p, "/pins/"), "?", 2)[0] {
				c.Violation("C11/wrong-argument/path", fmt.Sprintf("requested %s, RPC got %s", p, pp.Path), nil)
			}
			gotOpts = pp.PinOptions
		} else {
			pin := calls[0].In.(*api.Pin)
			if !pin.Cid.Equals(target) {
				c.Violation("C11/wrong-argument/cid", "CID differs", nil)
			}
			gotOpts = pin.PinOptions
			if method == "POST" {
				if pin.MaxDepth != mon.DepthOf(exp.Mode) {
					c.Violation("C11/max-depth-inconsistent-with-mode/"+exp.Mode.String(), fmt.Sprintf("mode=%s requested, the pin handed to the cluster has max_depth %d", exp.Mode, pin.MaxDepth), nil)
				}
				if pin.Type != api.DataType || len(pin.Allocations) != 0 || pin.Reference != nil {
					c.Violation("C11/pin-shape", "pin handed to the cluster is not a plain data pin: "+calls[0].InJSON(), nil)
				}
			}
		}
		if method == "POST" {
			// expire-in is relative: compare with tolerance
			if keys["expire-in"] {
				if d := gotOpts.ExpireAt.Sub(exp.ExpireAt); d < -time.Minute || d > time.Minute {
					c.Violation("C11/option-not-forwarded/ExpireAt(expire-in)", fmt.Sprintf("expire-in=2h gave %s", gotOpts.ExpireAt), nil)
				}
				gotOpts.ExpireAt = exp.ExpireAt
			}
			if d := mon.DeepEq(&exp, &gotOpts, nil); d != "" {
				f := strings.SplitN(strings.SplitN(d, ":", 2)[0], "[", 2)[0]
				c.Violation("C11/option-not-forwarded/"+f, fmt.Sprintf("%s %s: options handed to the cluster differ from the request: %s", method, full, d), nil)
			}
		}
		if n == 0 {
			c.Sample(map[string]interface{}{"family": "pin options", "request": method + " " + p + "?" + q.Encode(), "rpc": rpcName, "status": res.status})
		}
	}
}

func firstBad(shapes []string) string {
	for _, x := range shapes {
		if strings.HasSuffix(x, "-bad") {
			return x
		}
	}
	return ""
}

// ------------------------------------------------------------- malformed

func malformed(c *fw.Ctx, e *env, r *fw.Rand) {
	badCids := []string{"Qm", "notacid", "bafyNOPE", "123", "QmSNduMRHAVNTvjHdZ8Y2F6NpRSUEn5bK14s96xpnRa1U", "%20", "zzzz"}
	type req struct{ m, p, what string }
	var reqs []req
	for _, b := range badCids {
		reqs = append(reqs, req{"GET", "/allocations/" + b, "cid"}, req{"GET", "/pins/" + b, "cid"}, req{"POST", "/pins/" + b, "cid"},
			req{"DELETE", "/pins/" + b, "cid"}, req{"POST", "/pins/" + b + "/recover", "cid"}, req{"GET", "/pins/" + b + "?local=true", "cid"})
	}
	for _, b := range []string{"Qm", "12D3KooW", "notapeer", "1234"} {
		reqs = append(reqs, req{"DELETE", "/peers/" + b, "peer"})
	}
	for _, b := range []string{"ipfs/", "ipfs/notacid", "ipfs/Qm/x", "ipld/zzz/a/b", "ipns/"} {
		reqs = append(reqs, req{"POST", "/pins/" + b, "path"}, req{"DELETE", "/pins/" + b, "path"})
	}
	for _, f := range []string{"bogus", "pinned,bogus2", "all,nope"} {
		_ = f
	}
	reqs = append(reqs, req{"GET", "/pins?filter=bogus", "filter"}, req{"GET", "/pins?local=true&filter=nonsense", "filter"}, req{"GET", "/allocations?filter=bogus", "filter"})
	for _, rq := range reqs {
		e.rec.Reset()
		c.Journal("%s %s", rq.m, rq.p)
		res := e.do(rq.m, e.openURL+rq.p, nil, "", [2]string{})
		if res.err != nil {
			continue
		}
		calls := e.rec.Calls()
		c.Eval(fmt.Sprintf("malformed/%s/%s/%d", rq.what, rq.m, res.status/100))
		e.checkSingleDoc(c, "malformed/"+rq.what, rq.m, res)
		if res.status < 400 || res.status >= 500 {
			c.Violation("C11/malformed-not-refused/"+rq.what, fmt.Sprintf("%s %s answered %d", rq.m, rq.p, res.status), nil)
		}
		if len(calls) != 0 {
			c.Violation("C11/malformed-but-operation-performed/"+rq.what, fmt.Sprintf("%s %s (status %d) performed %s", rq.m, rq.p, res.status, callNames(calls)), nil)
		}
	}
	// bodies of POST /peers
	for _, b := range []string{``, `{`, `[]`, `{"peer_id":5}`, `{"peer_id":"nope"}`, `null`, `"x"`, `{"peer_id":""}`, r.Str(20)} {
		e.rec.Reset()
		res := e.do("POST", e.openURL+"/peers", strings.NewReader(b), "application/json", [2]string{})
		if res.err != nil {
			continue
		}
		c.Eval(fmt.Sprintf("malformed/body/%d", res.status/100))
		e.checkSingleDoc(c, "malformed/body", "POST", res)
		if res.status < 400 || res.status >= 500 {
			c.Violation("C11/malformed-not-refused/body", fmt.Sprintf("POST /peers with body %q answered %d", b, res.status), nil)
		}
		if n := len(e.rec.Calls()); n != 0 {
			c.Violation("C11/malformed-but-operation-performed/body", fmt.Sprintf("POST /peers with body %q performed %s", b, callNames(e.rec.Calls())), nil)
		}
	}
}

// ------------------------------------------------------------- auth

func authSweep(c *fw.Ctx, e *env, r *fw.Rand) {
	bad := [][2]string{{"", ""}, {user, "wrong"}, {"wrong", pass}, {"", pass}, {user, ""}, {pass, user}, {user + "x", pass}, {user, pass + " "},
		// unknown or empty user with an empty password, explicit empty header, other schemes, malformed headers
		{"nobody", ""}, {"<empty>", ""}, {"<empty>", pass}, {strings.ToUpper(user), pass}, {user, strings.ToUpper(pass)},
		{"<raw>", "Bearer " + pass}, {"<raw>", "Basic !!!"}, {"<raw>", "Basic " + base64.StdEncoding.EncodeToString([]byte(user))},
		{"<raw>", "Basic " + base64.StdEncoding.EncodeToString([]byte(user+":"+pass+":x"))}, {"<raw>", "basic"}, {"<raw>", ""}}
	rs := routes()
	for ci, cr := range bad {
		// every second credential class is sent to the API that has tracing on
		authURL, tr := e.authURL, ""
		if (ci+c.CaseIdx())%2 == 1 {
			authURL, tr = e.authTURL, "traced/"
		}
		for _, rt := range rs {
			for _, m := range methods {
				if !r.Chance(1, 3) && m != rt.method {
					continue
				}
				p := rt.path(r)
				var body io.Reader
				ctype := ""
				if rt.body != nil {
					body, ctype = rt.body()
				}
				e.rec.Reset()
				res := e.do(m, authURL+p, body, ctype, cr)
				if res.err != nil {
					continue
				}
				c.Eval(fmt.Sprintf("auth/bad/%s%s/%s", tr, rt.name, m))
				if res.status != http.StatusUnauthorized {
					c.Violation("C11/auth/not-401/"+rt.name+"/"+m, fmt.Sprintf("%s %s without valid credentials answered %d", m, p, res.status), nil)
				}
				if n := len(e.rec.Calls()); n != 0 {
					c.Violation("C11/auth/operation-performed-without-credentials/"+rt.name+"/"+m, fmt.Sprintf("%s %s performed %s", m, p, callNames(e.rec.Calls())), nil)
				}
			}
		}
		for _, p := range append(unknownPaths, "/add", "/add?name=x") {
			for _, m := range methods {
				e.rec.Reset()
				res := e.do(m, authURL+p, nil, "", cr)
				if res.err != nil {
					continue
				}
				c.Eval("auth/bad/" + tr + "unknown-or-add/" + m)
				if res.status != http.StatusUnauthorized || len(e.rec.Calls()) != 0 {
					c.Violation("C11/auth/unknown-path-not-401/"+m, fmt.Sprintf("%s %s without valid credentials answered %d, performed [%s]", m, p, res.status, callNames(e.rec.Calls())), nil)
				}
			}
		}
	}
	// right credentials behave like the open API
	if c.CaseIdx()%2 == 0 {
		routeSweep(c, e, r, e.authURL, [2]string{user, pass}, "auth-ok")
	} else {
		routeSweep(c, e, r, e.authTURL, [2]string{user, pass}, "auth-ok-traced")
	}
}

// ------------------------------------------------------------- add

func addCase(c *fw.Ctx, e *env, r *fw.Rand) {
	for n := 0; n < 6; n++ {
		var buf bytes.Buffer
		mw := multipart.NewWriter(&buf)
		fw1, _ := mw.CreateFormFile("file", "a.txt")
		fw1.Write(r.Bytes(r.Range(1, 3000)))
		mw.Close()
		q := url.Values{}
		valid := true
		stream := true
		switch r.Intn(8) {
		case 0:
			q.Set("layout", "bogus")
			valid = false
		case 1:
			q.Set("format", "tarball")
			valid = false
		case 2:
			q.Set("cid-version", "x")
			valid = false
		case 3:
			q.Set("shard", "maybe")
			valid = false
		case 4:
			q.Set("replication-min", "abc")
			valid = false
		case 5:
			q.Set("stream-channels", "false")
			stream = false
		default:
			q.Set("name", "file-"+fmt.Sprint(n))
		}
		e.rec.Reset()
		// an add that passes validation and fails inside the adder (a block cannot be stored)
		if valid && r.Chance(1, 4) {
			e.failRPC = map[string]error{"IPFSConnector.BlockPut": errors.New("scripted block put failure")}
			res := e.do("POST", e.openURL+"/add?"+q.Encode(), &buf, mw.FormDataContentType(), [2]string{})
			e.failRPC = nil
			if res.err != nil {
				c.Inconclusive("http add: " + res.err.Error())
				continue
			}
			pins := 0
			for _, cl := range e.rec.Calls() {
				if cl.Name() == "Cluster.Pin" {
					pins++
				}
			}
			nd, ok := jsonDocs(res.body)
			c.Eval(fmt.Sprintf("add/fails-inside/stream=%v/%d", stream, res.status/100))
			if pins != 0 {
				c.Violation("C11/add/failed-add-pinned", fmt.Sprintf("the add failed inside the adder and %d pins were performed", pins), nil)
			}
			if !ok {
				c.Violation("C11/add/body-not-json", fmt.Sprintf("failed add: %.200q", res.body), nil)
			}
			if !stream {
				if res.status < 400 {
					c.Violation("C11/add/buffered-failure-answered-as-success", fmt.Sprintf("stream-channels=false: the add failed and the answer is %d", res.status), nil)
				}
				if nd != 1 {
					c.Violation("C11/add/non-streaming-body-not-single-document", fmt.Sprintf("stream-channels=false, failed add: %d JSON documents in the body: %.200q", nd, res.body), nil)
				}
			} else if res.status < 400 && res.trailer.Get("X-Stream-Error") == "" && !bytes.Contains(res.body, []byte("scripted block put failure")) {
				c.Violation("C11/add/streamed-failure-not-reported", "the add failed after the stream started and neither trailer nor body reports it", nil)
			}
			continue
		}
		badBody := r.Chance(1, 6)
		var res response
		if badBody {
			res = e.do("POST", e.openURL+"/add?"+q.Encode(), strings.NewReader("not multipart"), "text/plain", [2]string{})
			valid = false
		} else {
			res = e.do("POST", e.openURL+"/add?"+q.Encode(), &buf, mw.FormDataContentType(), [2]string{})
		}
		if res.err != nil {
			c.Inconclusive("http add: " + res.err.Error())
			continue
		}
		calls := e.rec.Calls()
		c.Eval(fmt.Sprintf("add/valid=%v/stream=%v/%d", valid, stream, res.status/100))
		if !valid {
			if res.status < 400 || res.status >= 500 {
				c.Violation("C11/add/invalid-not-refused", fmt.Sprintf("POST /add?%s answered %d", q.Encode(), res.status), nil)
			}
			if len(calls) != 0 {
				c.Violation("C11/add/invalid-but-operation-performed", fmt.Sprintf("POST /add?%s performed %s", q.Encode(), callNames(calls)), nil)
			}
			e.checkSingleDoc(c, "add/invalid", "POST", res)
			continue
		}
		// valid: blocks were put and the root pinned
		var puts, pins int
		for _, cl := range calls {
			switch cl.Name() {
			case "IPFSConnector.BlockPut":
				puts++
			case "Cluster.Pin":
				pins++
			}
		}
		if puts == 0 || pins != 1 {
			c.Violation("C11/add/operation", fmt.Sprintf("valid add performed %d block puts and %d pins (status %d, body %.200s)", puts, pins, res.status, res.body), nil)
		}
		nd, ok := jsonDocs(res.body)
		if !ok {
			c.Violation("C11/add/body-not-json", fmt.Sprintf("%.200q", res.body), nil)
		}
		if !stream && nd != 1 {
			c.Violation("C11/add/non-streaming-body-not-single-document", fmt.Sprintf("stream-channels=false answered %d documents", nd), nil)
		}
	}
}

// ------------------------------------------------------------- client

func clientLib(c *fw.Ctx, e *env, r *fw.Rand) {
	ctx, cancel := context.WithTimeout(context.Background(), 60*time.Second)
	defer cancel()
	cl := e.clOpen
	one := func(name string, rpcName string, arg func(call sim.Call) string, f func() (interface{}, error), want interface{}) {
		e.rec.Reset()
		if want != nil {
			e.answers[rpcName] = want
		}
		got, err := f()
		calls := e.rec.Calls()
		c.Eval("client/" + name)
		if err != nil {
			c.Violation("C11/client/error/"+name, "client call failed: "+err.Error(), nil)
			return
		}
		if len(calls) != 1 || calls[0].Name() != rpcName {
			c.Violation("C11/client/wrong-operation/"+name, fmt.Sprintf("expected %s, performed [%s]", rpcName, callNames(calls)), nil)
			return
		}
		if arg != nil {
			if d := arg(calls[0]); d != "" {
				c.Violation("C11/client/argument-differs/"+name, d, nil)
			}
		}
		if want != nil {
			if d := mon.DeepEq(want, got, nil); d != "" {
				c.Violation("C11/client/result-differs/"+name, "returned value differs from what the server answered: "+d, nil)
			}
		}
	}
	target := gen.UCid(r.Intn(8))
	local := r.Bool()
	ansPin := gen.Pin(r, gen.PinParams{NoOrigins: true})
	ansPin.Allocations = gen.Peers(2)
	gpi := &api.GlobalPinInfo{Cid: target, Name: "n" + r.Str(4), PeerMap: map[string]*api.PinInfoShort{peer.Encode(gen.Peer(1)): {PeerName: "p", Status: api.TrackerStatusPinned, TS: time.Unix(1700000000, 0).UTC()}}}
	cidArg := func(call sim.Call) string {
		if g, ok := call.In.(cid.Cid); !ok || !g.Equals(target) {
			return fmt.Sprintf("cid %s given, server got %v", target, call.In)
		}
		return ""
	}
	loc := func(g, l string) string {
		if local {
			return l
		}
		return g
	}
	one("ID", "Cluster.ID", nil, func() (interface{}, error) { return cl.ID(ctx) }, &api.ID{ID: gen.Peer(2), Peername: r.Str(5), Version: "v"})
	one("Version", "Cluster.Version", nil, func() (interface{}, error) { return cl.Version(ctx) }, &api.Version{Version: r.Str(6)})
	one("Peers", "Cluster.Peers", nil, func() (interface{}, error) { return cl.Peers(ctx) }, []*api.ID{{ID: gen.Peer(4), Peername: "a"}, {ID: gen.Peer(5), Error: "e"}})
	pid := gen.Peer(r.Intn(24))
	one("PeerAdd", "Cluster.PeerAdd", func(call sim.Call) string {
		if call.In.(peer.ID) != pid {
			return "peer id differs"
		}
		return ""
	}, func() (interface{}, error) { return cl.PeerAdd(ctx, pid) }, &api.ID{ID: pid})
	one("PeerRm", "Cluster.PeerRemove", func(call sim.Call) string {
		if call.In.(peer.ID) != pid {
			return "peer id differs"
		}
		return ""
	}, func() (interface{}, error) { return nil, cl.PeerRm(ctx, pid) }, nil)
	// pin with options
	p := gen.Pin(r, gen.PinParams{NoOrigins: r.Bool()})
	po := p.PinOptions
	delete(po.Metadata, "")
	one("Pin", "Cluster.Pin", func(call sim.Call) string {
		g := call.In.(*api.Pin)
		if !g.Cid.Equals(target) {
			return "cid differs"
		}
		exp := po
		if len(exp.Metadata) == 0 {
			exp.Metadata = nil
		}
		return mon.DeepEq(&exp, &g.PinOptions, nil)
	}, func() (interface{}, error) { return cl.Pin(ctx, target, po) }, ansPin)
	one("Unpin", "Cluster.Unpin", func(call sim.Call) string {
		if !call.In.(*api.Pin).Cid.Equals(target) {
			return "cid differs"
		}
		return ""
	}, func() (interface{}, error) { return cl.Unpin(ctx, target) }, ansPin)
	path := "/ipfs/" + target.String() + r.Pick("", "/a/b", "/with space", "/ünï")
	one("PinPath", "Cluster.PinPath", func(call sim.Call) string {
		g := call.In.(*api.PinPath)
		if g.Path != path {
			return fmt.Sprintf("path %q given, server got %q", path, g.Path)
		}
		exp := po
		if len(exp.Metadata) == 0 {
			exp.Metadata = nil
		}
		return mon.DeepEq(&exp, &g.PinOptions, nil)
	}, func() (interface{}, error) { return cl.PinPath(ctx, path, po) }, ansPin)
	one("UnpinPath", "Cluster.UnpinPath", func(call sim.Call) string {
		if g := call.In.(*api.PinPath); g.Path != path {
			return fmt.Sprintf("path %q given, server got %q", path, g.Path)
		}
		return ""
	}, func() (interface{}, error) { return cl.UnpinPath(ctx, path) }, ansPin)
	one("Allocation", "Cluster.PinGet", cidArg, func() (interface{}, error) { return cl.Allocation(ctx, target) }, ansPin)
	one("Status", loc("Cluster.Status", "Cluster.StatusLocal"), cidArg, func() (interface{}, error) { return cl.Status(ctx, target, local) }, nil)
	one("Recover", loc("Cluster.Recover", "Cluster.RecoverLocal"), cidArg, func() (interface{}, error) { return cl.Recover(ctx, target, local) }, nil)
	one("RecoverAll", loc("Cluster.RecoverAll", "Cluster.RecoverAllLocal"), nil, func() (interface{}, error) { return cl.RecoverAll(ctx, local) }, nil)
	one("RepoGC", loc("Cluster.RepoGC", "Cluster.RepoGCLocal"), nil, func() (interface{}, error) { return cl.RepoGC(ctx, local) }, nil)
	one("StatusGlobal", "Cluster.Status", cidArg, func() (interface{}, error) { return cl.Status(ctx, target, false) }, gpi)
	// a status filter is one status or 'all' here: unions have no one-to-one textual form
	filter := []api.TrackerStatus{api.TrackerStatusUndefined, api.TrackerStatusPinned, api.TrackerStatusPinError, api.TrackerStatusRemote, api.TrackerStatusUnexpectedlyUnpinned}[r.Intn(5)]
	one("StatusAll", loc("Cluster.StatusAll", "Cluster.StatusAllLocal"), func(call sim.Call) string {
		if g := call.In.(api.TrackerStatus); g != filter {
			return fmt.Sprintf("filter %s given, server got %s", filter, g)
		}
		return ""
	}, func() (interface{}, error) { return cl.StatusAll(ctx, filter, local) }, nil)
	one("Alerts", "Cluster.Alerts", nil, func() (interface{}, error) { return cl.Alerts(ctx) }, nil)
	one("Graph", "Cluster.ConnectGraph", nil, func() (interface{}, error) { return cl.GetConnectGraph(ctx) }, &api.ConnectGraph{ClusterID: gen.Peer(7), IDtoPeername: map[string]string{"a": "b"}})
	mname := r.Pick("ping", "freespace", "a b", "x-y_z.1") // no "/": a metric name is one path segment
	one("Metrics", "PeerMonitor.LatestMetrics", func(call sim.Call) string {
		if g := call.In.(string); g != mname {
			return fmt.Sprintf("metric name %q given, server got %q", mname, g)
		}
		return ""
	}, func() (interface{}, error) { return cl.Metrics(ctx, mname) }, []*api.Metric{{Name: mname, Peer: gen.Peer(1), Value: "5", Valid: true, Expire: 123}})
	one("MetricNames", "PeerMonitor.MetricNames", nil, func() (interface{}, error) { return cl.MetricNames(ctx) }, []string{"a", "b"})
	one("Allocations", "Cluster.Pins", nil, func() (interface{}, error) { return cl.Allocations(ctx, api.AllType) }, []*api.Pin{ansPin})

	// a failure answered by the server comes back as an error of the call
	e.scriptErr = errors.New("scripted failure " + r.Str(5))
	for name, f := range map[string]func() error{
		"ID":      func() error { _, err := cl.ID(ctx); return err },
		"Pin":     func() error { _, err := cl.Pin(ctx, target, po); return err },
		"Unpin":   func() error { _, err := cl.Unpin(ctx, target); return err },
		"Status":  func() error { _, err := cl.Status(ctx, target, local); return err },
		"Peers":   func() error { _, err := cl.Peers(ctx); return err },
		"PeerRm":  func() error { return cl.PeerRm(ctx, pid) },
		"Recover": func() error { _, err := cl.Recover(ctx, target, local); return err },
	} {
		err := f()
		c.Eval("client/error-answer/" + name)
		if name == "Peers" {
			continue // the peer list carries per-peer errors; only the others must fail as a whole
		}
		if err == nil {
			c.Violation("C11/client/server-error-returned-as-success/"+name, "the server answered an error ("+e.scriptErr.Error()+") and the client call returned nil", nil)
		} else if !strings.Contains(err.Error(), e.scriptErr.Error()) {
			c.Violation("C11/client/server-error-text-lost/"+name, fmt.Sprintf("server said %q, client returned %q", e.scriptErr, err), nil)
		}
	}
	e.scriptErr = nil

	// adding through the client: what the server streamed comes back; a failure
	// after the stream has started (it travels in a trailer) comes back as an error
	for _, fail := range []bool{false, true} {
		e.rec.Reset()
		e.failRPC = nil
		if fail {
			e.failRPC = map[string]error{"IPFSConnector.BlockPut": errors.New("scripted block put failure")}
		}
		data := r.Bytes(r.Range(1, 5000))
		dir := files.NewMapDirectory(map[string]files.Node{"f.bin": files.NewBytesFile(data)})
		mfr := files.NewMultiFileReader(dir, true)
		params := api.DefaultAddParams()
		params.Name = "client-add"
		if r.Bool() {
			params.StreamChannels = false
		}
		// options the importer depends on, including combinations where the server's
		// default differs from what the caller asks for (cid-version 1 without raw leaves)
		params.CidVersion = r.Intn(2)
		params.RawLeaves = r.Bool()
		params.Layout = r.Pick("", "trickle")
		params.Chunker = r.Pick("size-262144", "size-1024", "size-100")
		params.Wrap = r.Chance(1, 4)
		params.Hidden = r.Bool()
		out := make(chan *api.AddedOutput, 64)
		err := cl.AddMultiFile(ctx, mfr, params, out)
		var outs []*api.AddedOutput
		for o := range out {
			outs = append(outs, o)
		}
		e.failRPC = nil
		c.Eval(fmt.Sprintf("client/add/fail=%v/stream=%v", fail, params.StreamChannels))
		var pins int
		for _, cl := range e.rec.Calls() {
			if cl.Name() == "Cluster.Pin" {
				pins++
			}
		}
		if fail {
			if err == nil {
				c.Violation("C11/client/add-failure-returned-as-success", fmt.Sprintf("the add failed on the server (block put refused) and the client's AddMultiFile returned nil (stream-channels=%v, %d outputs)", params.StreamChannels, len(outs)), nil)
			}
			if pins != 0 {
				c.Violation("C11/client/failed-add-pinned", "the add failed and the root was pinned", nil)
			}
			continue
		}
		if err != nil {
			c.Violation("C11/client/error/AddMultiFile", "a valid add through the client failed: "+err.Error(), nil)
			continue
		}
		if len(outs) == 0 || pins != 1 {
			c.Violation("C11/client/add-result", fmt.Sprintf("valid add: %d outputs returned, %d pins performed", len(outs), pins), nil)
			continue
		}
		// the add ran with the parameters the caller gave: same root as the adder run
		// directly with them on the same content
		var pinned cid.Cid
		for _, cl := range e.rec.Calls() {
			if cl.Name() == "Cluster.Pin" {
				pinned = cl.In.(*api.Pin).Cid
			}
		}
		pp := *params
		dir2 := files.NewMapDirectory(map[string]files.Node{"f.bin": files.NewBytesFile(data)})
		want, werr := adder.New(single.New(e.rec.Client, pp.PinOptions, false), &pp, nil).FromFiles(ctx, dir2)
		_ = want
		if werr == nil {
			// the reference run pinned its own root through the same recorder: the last Pin call
			var ref cid.Cid
			for _, cl := range e.rec.Calls() {
				if cl.Name() == "Cluster.Pin" {
					ref = cl.In.(*api.Pin).Cid
				}
			}
			c.Eval(fmt.Sprintf("client/add/params/v%d/raw=%v", params.CidVersion, params.RawLeaves))
			if ref.Defined() && pinned.Defined() && !ref.Equals(pinned) {
				c.Violation("C11/client/add-parameters-not-carried", fmt.Sprintf("AddMultiFile(cid-version=%d raw-leaves=%v layout=%q chunker=%s wrap=%v hidden=%v) pinned %s; the adder run with these parameters on the same content gives %s", params.CidVersion, params.RawLeaves, params.Layout, params.Chunker, params.Wrap, params.Hidden, pinned, ref), nil)
			}
		}
	}
}
