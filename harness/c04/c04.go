// Package c04: pin, unpin and update change the pinset exactly as requested, or not at all.
package c04

import (
	"context"
	"encoding/json"
	"fmt"
	"sort"
	"strings"
	"time"

	"verif/fw"
	"verif/gen"
	"verif/mon"
	"verif/sim"

	cid "github.com/ipfs/go-cid"
	ds "github.com/ipfs/go-datastore"
	cbor "github.com/ipfs/go-ipld-cbor"
	ipfscluster "github.com/ipfs/ipfs-cluster"
	"github.com/ipfs/ipfs-cluster/api"
	host "github.com/libp2p/go-libp2p-core/host"
	peer "github.com/libp2p/go-libp2p-core/peer"
	dual "github.com/libp2p/go-libp2p-kad-dht/dual"
	pubsub "github.com/libp2p/go-libp2p-pubsub"
	ma "github.com/multiformats/go-multiaddr"
	mh "github.com/multiformats/go-multihash"
)

const nMembers = 5

func init() {
	fw.Register(&fw.Prop{
		ID:    "C04",
		Level: "exploration",
		Rule: "Random histories of 5-40 calls of Pin, PinPath, PinUpdate (method and pin-update option), Unpin, UnpinPath and the Cluster.Pin RPC (meta/clusterDAG/shard entries with a genuine CBOR cluster-DAG block in the model daemon) " +
			"over a 4-CID universe on a real Cluster (real cluster.go, allocate.go, allocators, pubsubmon with 5 healthy members; model consensus over a real dsstate; model IPFS for Resolve/BlockGet), " +
			"under cluster default factors in {(-1,-1),(1,1),(2,3),(5,5)} and follower mode on/off. Options are drawn so every field is set, changed, added and removed between successive pins of the same CID " +
			"(name, mode, factors 0/-1/valid/invalid, expiry zero/+1h/-1h, metadata keys, origins, user allocations, shard size, update source present/absent/non-data). " +
			"Oracle: the pinset is listed before and after every call and compared, with the harness's comparator, to the transition the property text prescribes (success => exactly that entry replaced with the requested options and an allocation satisfying the C03 predicate, " +
			"identical re-pin => same allocations; each listed refusal => error and identical pinset; unpin => exactly that entry (for meta also its cluster-DAG and shards) removed; update => target carries the source's allocations and options, source intact). " +
			"distinct_nontrivial counts distinct (operation, situation of the CID before the call, outcome) keys.",
		Assumptions: []string{
			"expiries are +-1h from now; identical-re-pin keeps allocations is demanded only when the request carries no user allocations and a whole-second expiry (both are not stored verbatim)",
		},
		Cases: func(tier string) int {
			if tier == "thorough" {
				return 60000
			}
			return 4000
		},
		MinEvals: func(tier string) int {
			if tier == "thorough" {
				return 1000000
			}
			return 60000
		},
		ChildSetup: setup,
		ChildTeardown: func(c *fw.Ctx) {
			if e, ok := c.Store["env"].(*env); ok {
				e.node.Close()
			}
		},
		Run: run,
	})
}

type env struct {
	node   *sim.Node
	shared *sim.SharedState
	ipfs   *sim.IPFSModel
}

func setup(c *fw.Ctx) {
	ctx := context.Background()
	shared := sim.NewSharedState(gen.Peers(nMembers))
	ipfs := sim.NewIPFSModel(gen.Peer(20))
	node, err := sim.NewNode(ctx, sim.NodeOpts{
		Key:     gen.Key(0), // the cluster is member 0
		RealMon: true,
		IPFS:    ipfs,
		Consensus: func(h host.Host, _ *pubsub.PubSub, _ *dual.DHT, _ ds.Datastore, _ *ipfscluster.Config) (ipfscluster.Consensus, error) {
			return sim.NewModelConsensus(h.ID(), shared), nil
		},
		Informers: []ipfscluster.Informer{sim.NewStubInformer("m")},
	})
	if err != nil {
		fmt.Println("C04 setup:", err)
		return
	}
	c.Store["env"] = &env{node, shared, ipfs}
}

// ---------------------------------------------------------------- helpers

func cstr(c cid.Cid) string { return c.String() }

type pinset map[string]*api.Pin

func list(ctx context.Context, e *env) (pinset, error) {
	pins, err := e.node.Cluster.Pins(ctx)
	if err != nil {
		return nil, err
	}
	out := pinset{}
	for _, p := range pins {
		out[p.Cid.KeyString()] = p
	}
	return out, nil
}

func samePin(a, b *api.Pin) string { return mon.DeepEq(a, b, nil) }

func diffSets(before, after pinset, allowed map[string]bool) string {
	for k, a := range after {
		if allowed[k] {
			continue
		}
		b, ok := before[k]
		if !ok {
			return "entry appeared: " + a.Cid.String()
		}
		if d := samePin(b, a); d != "" {
			return "entry of another CID changed: " + a.Cid.String() + ": " + d
		}
	}
	for k, b := range before {
		if allowed[k] {
			continue
		}
		if _, ok := after[k]; !ok {
			return "entry of another CID disappeared: " + b.Cid.String()
		}
	}
	return ""
}

func genOpts(r *fw.Rand, prev *api.PinOptions) api.PinOptions {
	var o api.PinOptions
	if prev != nil && r.Chance(2, 3) {
		// start from the previous options and change/add/remove one thing
		o = *prev
		o.PinUpdate = cid.Undef
		o.Metadata = map[string]string{}
		for k, v := range prev.Metadata {
			o.Metadata[k] = v
		}
		o.UserAllocations = nil
		switch r.Intn(9) {
		case 0:
			o.Name = r.Pick("", "a", "b", "renamed")
		case 1:
			o.Metadata[r.Pick("k1", "k2", "k3")] = r.Pick("x", "y", "")
		case 2: // remove a key
			for k := range o.Metadata {
				delete(o.Metadata, k)
				break
			}
		case 3:
			if len(o.Origins) > 0 {
				o.Origins = o.Origins[1:]
			} else {
				o.Origins = []ma.Multiaddr{gen.Multiaddr(r, true)}
			}
		case 4:
			o.ExpireAt = genExpiry(r)
		case 5:
			o.ShardSize = uint64(r.Intn(3)) * 1000
		case 6:
			o.ReplicationFactorMin, o.ReplicationFactorMax = genFactors(r)
		case 7:
			o.Mode = api.PinMode(r.Intn(2))
		case 8:
			// identical
		}
		if len(o.Metadata) == 0 && r.Bool() {
			o.Metadata = nil
		}
		return o
	}
	o.ReplicationFactorMin, o.ReplicationFactorMax = genFactors(r)
	o.Name = r.Pick("", "a", "b")
	o.Mode = api.PinMode(r.Intn(2))
	if r.Chance(1, 3) {
		o.ShardSize = uint64(r.Intn(3)) * 1000
	}
	if r.Chance(1, 4) {
		for i := r.Range(1, 2); i > 0; i-- {
			o.UserAllocations = append(o.UserAllocations, gen.Peer(r.Intn(nMembers+1)))
		}
	}
	o.ExpireAt = genExpiry(r)
	if r.Chance(1, 2) {
		o.Metadata = map[string]string{}
		for i := r.Intn(3); i > 0; i-- {
			o.Metadata[r.Pick("k1", "k2", "k3")] = r.Pick("x", "y", "")
		}
	}
	if r.Chance(1, 4) {
		for i := r.Range(1, 2); i > 0; i-- {
			o.Origins = append(o.Origins, gen.Multiaddr(r, true))
		}
	}
	return o
}

func genExpiry(r *fw.Rand) time.Time {
	switch r.Intn(6) {
	case 0:
		// past: refused; boundary instants included (the Unix epoch is not "no expiry")
		switch r.Intn(4) {
		case 0:
			return time.Unix(0, 0)
		case 1:
			return time.Unix(1, 0).UTC()
		case 2:
			return time.Now().Add(-time.Second)
		}
		return time.Now().Add(-time.Hour)
	case 1:
		return time.Unix(time.Now().Add(time.Hour).Unix(), 0)
	case 2:
		return time.Now().Add(2*time.Hour + 123456789*time.Nanosecond)
	default:
		return time.Time{}
	}
}

func genFactors(r *fw.Rand) (int, int) {
	switch r.Intn(10) {
	case 0:
		return -1, -1
	case 1:
		return 0, 0
	case 2:
		return 3, 2 // invalid
	case 3:
		return -1, 2 // invalid
	case 4:
		return 0, r.Range(1, 4)
	case 5:
		return -2, -2 // invalid
	case 6:
		return 6, 7 // more than there are members
	default:
		mn := r.Range(1, 4)
		return mn, r.Range(mn, 5)
	}
}

func factorsValid(mn, mx int) bool {
	if mn == 0 || mx == 0 || mn > mx || mn < -1 || mx < -1 {
		return false
	}
	if (mn == -1) != (mx == -1) {
		return false
	}
	return true
}

// optsMatch compares requested options with a stored entry's options using
// only fields the state keeps.
func optsMatch(req api.PinOptions, defMin, defMax int, st *api.Pin) string {
	exp := req
	if exp.ReplicationFactorMin == 0 {
		exp.ReplicationFactorMin = defMin
	}
	if exp.ReplicationFactorMax == 0 {
		exp.ReplicationFactorMax = defMax
	}
	exp.UserAllocations = nil
	exp.PinUpdate = st.PinUpdate // judged separately
	if !exp.ExpireAt.IsZero() {
		exp.ExpireAt = time.Unix(exp.ExpireAt.Unix(), 0)
	}
	got := st.PinOptions
	got.UserAllocations = nil
	return mon.DeepEq(&exp, &got, nil)
}

func allocInput(current []peer.ID, prio []peer.ID, mn, mx int) *mon.AllocInput {
	in := &mon.AllocInput{Members: map[peer.ID]bool{}, Metrics: map[peer.ID]mon.MetricState{}, Excluded: map[peer.ID]bool{}, Min: mn, Max: mx, Current: current, Priority: prio}
	for i := 0; i < nMembers; i++ {
		in.Members[gen.Peer(i)] = true
		in.Metrics[gen.Peer(i)] = mon.MetricState{Kind: "valid", Value: uint64(10 + i)}
	}
	return in
}

func pj(v interface{}) json.RawMessage {
	b, err := json.Marshal(v)
	if err != nil {
		b, _ = json.Marshal(fmt.Sprintf("%+v", v))
	}
	return b
}

// ---------------------------------------------------------------- case

func run(c *fw.Ctx, idx int) {
	e, ok := c.Store["env"].(*env)
	if !ok {
		c.Inconclusive("cluster not built")
		return
	}
	ctx := context.Background()
	r := c.Rand("main")
	e.shared.Reset(gen.Peers(nMembers))
	for i := 0; i < nMembers; i++ {
		m := &api.Metric{Name: "m", Peer: gen.Peer(i), Valid: true, Value: fmt.Sprint(10 + i), Expire: time.Now().Add(time.Hour).UnixNano()}
		e.node.Monitor.LogMetric(ctx, m)
	}
	defs := [][2]int{{-1, -1}, {1, 1}, {2, 3}, {5, 5}}[r.Intn(4)]
	e.node.Cfg.ReplicationFactorMin, e.node.Cfg.ReplicationFactorMax = defs[0], defs[1]
	follower := r.Chance(1, 8)
	e.node.Cfg.FollowerMode = follower
	defer func() { e.node.Cfg.FollowerMode = false }()

	universe := []cid.Cid{gen.UCid(0), gen.UCid(1), gen.UCid(2), gen.UCid(3)}
	sub := gen.UCid(5) // what /ipfs/<c>/sub resolves to
	e.ipfs.SetResolve(func(path string) (cid.Cid, error) {
		parts := strings.Split(strings.TrimPrefix(path, "/ipfs/"), "/")
		ci, err := cid.Decode(parts[0])
		if err != nil {
			return cid.Undef, fmt.Errorf("cannot resolve %s", path)
		}
		if len(parts) == 1 {
			return ci, nil
		}
		if parts[1] == "sub" {
			return sub, nil
		}
		return cid.Undef, fmt.Errorf("no link named %q under %s", parts[1], ci)
	})

	lastOpts := map[string]*api.PinOptions{}
	var trace []string
	// entries that other peers committed before this history starts
	for i := r.Intn(3); i > 0; i-- {
		p := api.PinWithOpts(universe[r.Intn(len(universe))], genOpts(r, nil))
		p.UserAllocations = nil
		p.ReplicationFactorMin, p.ReplicationFactorMax = 1, 2
		if p.ExpireAt.Before(time.Now()) {
			p.ExpireAt = time.Time{}
		}
		p.Allocations = []peer.ID{gen.Peer(r.Intn(nMembers))}
		e.shared.St.Add(ctx, p)
		trace = append(trace, fmt.Sprintf("pre-existing c%d %s", cidx(universe, p.Cid), pj(p.PinOptions)))
	}
	fail := func(key, msg string, extra interface{}) {
		tr := trace
		if len(tr) > 30 {
			tr = tr[len(tr)-30:]
		}
		c.Violation(key, msg, map[string]interface{}{"trace": tr, "defaults": defs, "follower": follower, "extra": extra})
	}

	steps := r.Range(5, 40)
	shardedBuilt := false
	for s := 0; s < steps; s++ {
		before, err := list(ctx, e)
		if err != nil {
			c.Inconclusive("list: " + err.Error())
			return
		}
		target := universe[r.Intn(len(universe))]
		tk := target.KeyString()
		existing := before[tk]
		sit := "absent"
		if existing != nil {
			sit = existing.Type.String() + "/" + existing.Mode.String()
		}
		op := r.Intn(13)
		switch {
		case op == 12: // a record of another pin type over an existing entry (Cluster.Pin RPC, as the adders call it)
			if existing == nil || follower {
				continue
			}
			var others []api.PinType
			for _, t := range []api.PinType{api.DataType, api.MetaType, api.ClusterDAGType, api.ShardType} {
				if t != existing.Type {
					others = append(others, t)
				}
			}
			nt := others[r.Intn(len(others))]
			ref := gen.Cid(990+idx%7, 1)
			np := api.PinCid(target)
			np.Type = nt
			np.Name = "other-type"
			np.ReplicationFactorMin, np.ReplicationFactorMax = [][2]int{{-1, -1}, {1, 2}, {0, 0}}[r.Intn(3)][0], 0
			np.ReplicationFactorMax = map[int]int{-1: -1, 1: 2, 0: 0}[np.ReplicationFactorMin]
			switch nt {
			case api.DataType:
				np.MaxDepth, np.Mode = -1, api.PinModeRecursive
			case api.MetaType:
				np.MaxDepth, np.Mode, np.Reference = 0, api.PinModeDirect, &ref
			case api.ClusterDAGType:
				np.MaxDepth, np.Mode, np.Reference = 0, api.PinModeDirect, &ref
				np.ReplicationFactorMin, np.ReplicationFactorMax = -1, -1
			case api.ShardType:
				np.MaxDepth, np.Mode = 1, api.PinModeRecursive
			}
			trace = append(trace, fmt.Sprintf("Cluster.Pin RPC: %s record over the %s entry of c%d", nt, existing.Type, cidIndex(universe, target)))
			c.Journal("%s", trace[len(trace)-1])
			var out api.Pin
			perr := e.node.Client.CallContext(ctx, "", "Cluster", "Pin", np, &out)
			after, _ := list(ctx, e)
			c.Eval(fmt.Sprintf("pin-other-type/%s-over-%s", nt, existing.Type))
			if perr == nil {
				fail(fmt.Sprintf("C04/pin/refusal-expected/other-type/%s-over-%s", nt, existing.Type), "a record of another pin type was accepted over an existing entry", map[string]interface{}{"stored_before": pj(existing), "stored_after": pj(after[tk])})
			}
			if d := diffSets(before, after, nil); d != "" {
				fail("C04/pin/refused-but-pinset-changed/other-type", d, nil)
			}
		case op < 5: // Pin / PinPath
			opts := genOpts(r, lastOpts[tk])
			viaPath := r.Chance(1, 4)
			badPath := false
			var res *api.Pin
			var perr error
			if viaPath {
				path := "/ipfs/" + target.String()
				if r.Chance(1, 5) {
					path += "/nolink"
					badPath = true
				}
				trace = append(trace, fmt.Sprintf("PinPath %s %s", path, pj(opts)))
				c.Journal("%s", trace[len(trace)-1])
				res, perr = e.node.Cluster.PinPath(ctx, path, opts)
			} else {
				trace = append(trace, fmt.Sprintf("Pin c%d %s", cidx(universe, target), pj(opts)))
				c.Journal("%s", trace[len(trace)-1])
				res, perr = e.node.Cluster.Pin(ctx, target, opts)
			}
			after, _ := list(ctx, e)
			mn, mx := opts.ReplicationFactorMin, opts.ReplicationFactorMax
			if mn == 0 {
				mn = defs[0]
			}
			if mx == 0 {
				mx = defs[1]
			}
			// which refusal applies, by the property text
			refusal := ""
			switch {
			case follower:
				refusal = "follower"
			case badPath:
				refusal = "unresolvable-path"
			case !factorsValid(mn, mx):
				refusal = "invalid-factors"
			case !opts.ExpireAt.IsZero() && opts.ExpireAt.Before(time.Now()):
				refusal = "expiry-in-past"
			case existing != nil && existing.Type != api.DataType:
				refusal = "different-pin-type"
			case existing != nil && existing.Mode == api.PinModeRecursive && opts.Mode == api.PinModeDirect:
				refusal = "recursive-to-direct"
			}
			var cur []peer.ID
			if existing != nil {
				cur = existing.Allocations
			}
			in := allocInput(cur, opts.UserAllocations, mn, mx)
			if refusal == "" {
				if k, _, _ := mon.CheckAlloc(in, nil, fmt.Errorf("x")); k == "" && mn > 0 {
					// the predicate accepts an error: not enough peers
					refusal = "not-enough-peers"
				}
			}
			c.Eval(fmt.Sprintf("pin/path=%v/%s/%s/err=%v", viaPath, sit, orS(refusal, "accept"), perr != nil))
			if refusal != "" {
				if perr == nil {
					fail("C04/pin/refusal-expected/"+refusal, "request should be refused ("+refusal+") but succeeded", pj(opts))
				}
				if d := diffSets(before, after, nil); d != "" {
					fail("C04/pin/refused-but-pinset-changed/"+refusal, "refused request ("+refusal+", error: "+fmt.Sprint(perr)+") changed the pinset: "+d, pj(opts))
				}
				continue
			}
			if perr != nil {
				fail("C04/pin/unexpected-refusal/"+sit, "well-formed pin refused: "+perr.Error(), pj(opts))
				if d := diffSets(before, after, nil); d != "" {
					fail("C04/pin/refused-but-pinset-changed/unexpected", "refused request changed the pinset: "+d, pj(opts))
				}
				continue
			}
			if d := diffSets(before, after, map[string]bool{tk: true}); d != "" {
				fail("C04/pin/other-entries-changed", d, pj(opts))
			}
			st := after[tk]
			if st == nil {
				fail("C04/pin/not-stored", "successful pin left no entry", pj(opts))
				continue
			}
			if st.Type != api.DataType || st.MaxDepth != mon.DepthOf(opts.Mode) || st.Reference != nil {
				fail("C04/pin/stored-shape", fmt.Sprintf("stored entry has type %s depth %d", st.Type, st.MaxDepth), pj(st))
			}
			if d := optsMatch(opts, defs[0], defs[1], st); d != "" {
				f := strings.SplitN(strings.SplitN(d, ":", 2)[0], "[", 2)[0]
				how := "set"
				if existing != nil {
					how = "changed"
				}
				fail("C04/pin/option-not-stored/"+f+"/"+how, "stored entry does not carry the requested options: "+d, map[string]interface{}{"requested": pj(opts), "stored": pj(st), "previous": pj(existing)})
			}
			if k, m, _ := mon.CheckAlloc(in, st.Allocations, nil); k != "" {
				fail("C04/pin/allocation/"+k, m, map[string]interface{}{"requested": pj(opts), "stored": pj(st)})
			}
			if res == nil || strings.Join(gen.SortedPeers(res.Allocations), ",") != strings.Join(gen.SortedPeers(st.Allocations), ",") {
				fail("C04/pin/returned-differs-from-stored", "returned pin differs from the stored entry in its allocations", nil)
			}
			// identical re-pin keeps the allocations
			if existing != nil && len(opts.UserAllocations) == 0 && (opts.ExpireAt.IsZero() || opts.ExpireAt.Nanosecond() == 0) &&
				optsMatch(opts, defs[0], defs[1], existing) == "" {
				c.Eval("pin/identical-repin")
				if strings.Join(gen.SortedPeers(existing.Allocations), ",") != strings.Join(gen.SortedPeers(st.Allocations), ",") {
					fail("C04/pin/identical-repin-reallocated", "re-pin with identical options changed the allocations", nil)
				}
			}
			o := opts
			lastOpts[tk] = &o
		case op < 7: // Unpin / UnpinPath
			viaPath := r.Chance(1, 3)
			var perr error
			if viaPath {
				trace = append(trace, fmt.Sprintf("UnpinPath c%d", cidx(universe, target)))
				_, perr = e.node.Cluster.UnpinPath(ctx, "/ipfs/"+target.String())
			} else {
				trace = append(trace, fmt.Sprintf("Unpin c%d", cidx(universe, target)))
				_, perr = e.node.Cluster.Unpin(ctx, target)
			}
			c.Journal("%s", trace[len(trace)-1])
			after, _ := list(ctx, e)
			c.Eval(fmt.Sprintf("unpin/path=%v/%s/err=%v", viaPath, sit, perr != nil))
			switch {
			case follower || existing == nil || existing.Type == api.ShardType || existing.Type == api.ClusterDAGType:
				if perr == nil {
					fail("C04/unpin/refusal-expected/"+sit, "unpin should be refused (follower="+fmt.Sprint(follower)+", entry "+sit+") but succeeded", nil)
				}
				if d := diffSets(before, after, nil); d != "" {
					fail("C04/unpin/refused-but-pinset-changed/"+sit, "refused unpin changed the pinset: "+d, nil)
				}
			case existing.Type == api.DataType:
				if perr != nil {
					fail("C04/unpin/unexpected-refusal", perr.Error(), nil)
					continue
				}
				if _, still := after[tk]; still {
					fail("C04/unpin/entry-remains", "entry still present after unpin", nil)
				}
				if d := diffSets(before, after, map[string]bool{tk: true}); d != "" {
					fail("C04/unpin/other-entries-changed", d, nil)
				}
				delete(lastOpts, tk)
			}
		case op < 9: // PinUpdate
			from := universe[r.Intn(len(universe))]
			src := before[from.KeyString()]
			opts := api.PinOptions{Name: r.Pick("", "upd")}
			if r.Chance(1, 3) {
				opts.ExpireAt = time.Unix(time.Now().Add(3*time.Hour).Unix(), 0)
			}
			viaOption := r.Bool()
			var res *api.Pin
			var perr error
			if viaOption {
				o := genOpts(r, nil)
				o.PinUpdate = from
				o.Name, o.ExpireAt = opts.Name, opts.ExpireAt
				trace = append(trace, fmt.Sprintf("Pin c%d pin-update=c%d", cidx(universe, target), cidx(universe, from)))
				res, perr = e.node.Cluster.Pin(ctx, target, o)
			} else {
				trace = append(trace, fmt.Sprintf("PinUpdate c%d -> c%d", cidx(universe, from), cidx(universe, target)))
				res, perr = e.node.Cluster.PinUpdate(ctx, from, target, opts)
			}
			c.Journal("%s", trace[len(trace)-1])
			after, _ := list(ctx, e)
			if from.Equals(target) {
				// updating a CID from itself is an ordinary pin / no-op territory: only no-loss is checked
				if _, ok := after[tk]; existing != nil && !ok {
					fail("C04/update/self-update-lost-entry", "entry lost", nil)
				}
				continue
			}
			srcSit := "absent"
			if src != nil {
				srcSit = src.Type.String()
			}
			c.Eval(fmt.Sprintf("update/option=%v/src=%s/dst=%s/err=%v", viaOption, srcSit, sit, perr != nil))
			if follower || src == nil || src.Type != api.DataType {
				if perr == nil {
					fail("C04/update/refusal-expected/src="+srcSit+fmt.Sprintf("/follower=%v/option=%v", follower, viaOption), "update should be refused but succeeded", nil)
				}
				if d := diffSets(before, after, nil); d != "" {
					fail("C04/update/refused-but-pinset-changed/src="+srcSit+fmt.Sprintf("/follower=%v/option=%v", follower, viaOption), "refused update changed the pinset: "+d, nil)
				}
				continue
			}
			if perr != nil {
				fail("C04/update/unexpected-refusal", perr.Error(), nil)
				continue
			}
			if d := diffSets(before, after, map[string]bool{tk: true}); d != "" {
				fail("C04/update/source-or-others-changed", d, nil)
			}
			st := after[tk]
			if st == nil {
				fail("C04/update/not-stored", "no entry for the new CID", nil)
				continue
			}
			exp := *src
			exp.Cid = target
			exp.PinUpdate = from
			if opts.Name != "" {
				exp.Name = opts.Name
			}
			if !opts.ExpireAt.IsZero() {
				exp.ExpireAt = opts.ExpireAt
			}
			if d := samePin(&exp, st); d != "" {
				f := strings.SplitN(strings.SplitN(d, ":", 2)[0], "[", 2)[0]
				fail("C04/update/target-differs-from-source/"+f, "new entry does not carry the source's allocations and options: "+d, map[string]interface{}{"source": pj(src), "stored": pj(st)})
			}
			_ = res
			o := st.PinOptions
			lastOpts[tk] = &o
		case op < 10: // sharded set through the Cluster.Pin RPC
			if shardedBuilt || follower {
				continue
			}
			shardedBuilt = true
			meta := gen.UCid(3)
			if before[meta.KeyString()] != nil {
				continue
			}
			sh1, sh2 := gen.Cid(900+idx%50, 1), gen.Cid(950+idx%50, 1)
			node, err := cbor.WrapObject(map[string]cid.Cid{"0": sh1, "1": sh2}, mh.SHA2_256, -1)
			if err != nil {
				c.Inconclusive("cbor: " + err.Error())
				continue
			}
			cdag := node.Cid()
			e.ipfs.BlockPut(ctx, &api.NodeWithMeta{Cid: cdag, Data: node.RawData()})
			mk := func(ci cid.Cid, t api.PinType, depth api.PinDepth, ref *cid.Cid, mn, mx int) *api.Pin {
				p := api.PinCid(ci)
				p.Type, p.MaxDepth, p.Reference = t, depth, ref
				p.ReplicationFactorMin, p.ReplicationFactorMax = mn, mx
				p.Mode = depth.ToPinMode()
				return p
			}
			trace = append(trace, "Cluster.Pin RPC: 2 shards + clusterDAG + meta at c3")
			var out api.Pin
			errs := []error{
				e.node.Client.CallContext(ctx, "", "Cluster", "Pin", mk(sh1, api.ShardType, 1, nil, 1, 2), &out),
				e.node.Client.CallContext(ctx, "", "Cluster", "Pin", mk(sh2, api.ShardType, 1, &sh1, 1, 2), &out),
				e.node.Client.CallContext(ctx, "", "Cluster", "Pin", mk(cdag, api.ClusterDAGType, 0, &meta, -1, -1), &out),
				e.node.Client.CallContext(ctx, "", "Cluster", "Pin", mk(meta, api.MetaType, 0, &cdag, 1, 2), &out),
			}
			after, _ := list(ctx, e)
			c.Eval("sharded/build")
			for _, er := range errs {
				if er != nil {
					fail("C04/sharded/pin-refused", "well-formed sharded entry refused: "+er.Error(), nil)
				}
			}
			for _, ci := range []cid.Cid{sh1, sh2, cdag, meta} {
				if after[ci.KeyString()] == nil {
					fail("C04/sharded/entry-missing", "entry missing after pin: "+ci.String(), nil)
				}
			}
			if d := diffSets(before, after, map[string]bool{sh1.KeyString(): true, sh2.KeyString(): true, cdag.KeyString(): true, meta.KeyString(): true}); d != "" {
				fail("C04/sharded/other-entries-changed", d, nil)
			}
			// direct unpin of a shard / the cluster DAG is refused
			for _, ci := range []cid.Cid{sh1, cdag} {
				b2, _ := list(ctx, e)
				_, uerr := e.node.Cluster.Unpin(ctx, ci)
				a2, _ := list(ctx, e)
				c.Eval("sharded/unpin-part")
				if uerr == nil {
					fail("C04/unpin/refusal-expected/shard-or-clusterdag", "unpin of a shard/cluster-DAG entry succeeded", nil)
				}
				if d := diffSets(b2, a2, nil); d != "" {
					fail("C04/unpin/refused-but-pinset-changed/shard-or-clusterdag", d, nil)
				}
			}
			if r.Bool() {
				// unpin the meta entry now: exactly the four entries go
				b2, _ := list(ctx, e)
				_, uerr := e.node.Cluster.Unpin(ctx, meta)
				a2, _ := list(ctx, e)
				trace = append(trace, "Unpin c3 (meta)")
				c.Eval("sharded/unpin-meta")
				if uerr != nil {
					fail("C04/unpin/meta-refused", uerr.Error(), nil)
				}
				for _, ci := range []cid.Cid{sh1, sh2, cdag, meta} {
					if a2[ci.KeyString()] != nil {
						fail("C04/unpin/sharded-entry-remains", "entry of the sharded set still present after unpinning its root: "+ci.String(), nil)
					}
				}
				if d := diffSets(b2, a2, map[string]bool{sh1.KeyString(): true, sh2.KeyString(): true, cdag.KeyString(): true, meta.KeyString(): true}); d != "" {
					fail("C04/unpin/other-entries-changed", d, nil)
				}
			}
		default: // toggle nothing: re-list consistency
			pins, _ := e.node.Cluster.Pins(ctx)
			seen := map[string]bool{}
			for _, p := range pins {
				if seen[p.Cid.KeyString()] {
					fail("C04/pins/duplicate", "Pins lists a CID twice", nil)
				}
				seen[p.Cid.KeyString()] = true
				g, err := e.node.Cluster.PinGet(ctx, p.Cid)
				c.Eval("pinget")
				if err != nil || samePin(p, g) != "" {
					fail("C04/pinget-differs", "PinGet differs from Pins", nil)
				}
			}
		}
	}
	// the consensus log holds nothing from a follower
	if follower {
		c.Eval("follower/log")
		for _, l := range e.shared.Log() {
			fail("C04/follower/wrote-to-consensus", "a follower submitted "+l.Op, nil)
			break
		}
	}
	if len(trace) > 10 {
		trace = trace[:10]
	}
	c.Sample(map[string]interface{}{"defaults": defs, "follower": follower, "first_calls": trace})
}

func stripUA(p *api.Pin) *api.Pin {
	q := *p
	q.UserAllocations = nil
	return &q
}

func orS(a, b string) string {
	if a != "" {
		return a
	}
	return b
}

func cidx(u []cid.Cid, c cid.Cid) int {
	for i, x := range u {
		if x.Equals(c) {
			return i
		}
	}
	return -1
}

var _ = sort.Strings

func cidIndex(u []cid.Cid, c cid.Cid) int {
	for i, x := range u {
		if x.Equals(c) {
			return i
		}
	}
	return -1
}
