// Package c16: the IPFS connector reports success only when the daemon reached the asked state.
package c16

import (
	"context"
	"fmt"
	peer "github.com/libp2p/go-libp2p-core/peer"
	"net/url"
	"strings"
	"sync"
	"time"

	"verif/fw"
	"verif/gen"
	"verif/sim"

	cid "github.com/ipfs/go-cid"
	"github.com/ipfs/ipfs-cluster/api"
	"github.com/ipfs/ipfs-cluster/ipfsconn/ipfshttp"
	ma "github.com/multiformats/go-multiaddr"
)

const pinTimeout = 300 * time.Millisecond

func init() {
	fw.Register(&fw.Prop{
		ID:    "C16",
		Level: "fault_enumeration",
		Rule: "The real ipfshttp.Connector talks to a scripted fake IPFS HTTP daemon whose pin table is the ground truth. A case is one conversation: a pin (recursive, direct, depth>0, with origins, with an update source that is pinned recursive / direct / absent) or an unpin or a pin/ls query, " +
			"a prior daemon pin state for the CID (none / recursive / direct), and one fault placed on one step of the conversation pin/ls -> [swarm/connect] -> [pin/ls of the source] -> pin/update | pin/add (or pin/rm): " +
			"none, IPFS error body, non-JSON 500, connection reset before the response, reset inside the body, stall, progress then stall, progress then a late X-Stream-Error trailer, slow but steady progress (longer than pin_timeout in total). pin_timeout = 300 ms. " +
			"Oracle: Pin == nil => the table holds the CID in the requested mode; a healthy conversation => nil; already pinned as asked => no pin/add nor pin/update request; Unpin of a not-pinned CID => nil, Unpin == nil => not in the table, daemon/transport failure on pin/rm => error; " +
			"stall => an error within 30 x pin_timeout while steady progress is not aborted; every pin/update request carries unpin=false, was sent only while the source was recursively pinned, and the source is still pinned afterwards; PinLsCid agrees with the table or returns an error. " +
			"distinct_nontrivial counts distinct (operation, mode, prior state, source state, faulted step, fault kind, outcome) keys.",
		Assumptions: []string{
			"the fake daemon follows go-ipfs's observable conventions (error bodies {Message,Code,Type} with status 500, 'not pinned or pinned indirectly', streamed {\"Progress\":n}, late errors as X-Stream-Error trailer after a clean chunked EOF); a real go-ipfs is not available in the sandbox",
			"wall clock is intrinsic to the stall clauses: bounds are 30 x the configured timeout (9 s vs 0.3-0.6 s observed); a call exceeding it twice is a violation, cases run 8-wide to limit scheduler stalls",
		},
		Cases: func(tier string) int {
			if tier == "thorough" {
				return 30000
			}
			return 1200
		},
		Children: func(string) int { return 8 },
		MinEvals: func(tier string) int {
			if tier == "thorough" {
				return 28000
			}
			return 1100
		},
		ChildSetup:    setup,
		ChildTeardown: teardown,
		CaseTimeout:   120 * time.Second,
		Run:           run,
	})
}

type env struct {
	ipfs *sim.FakeIPFS
	conn *ipfshttp.Connector
	rec  *sim.RPCRecorder
}

func setup(c *fw.Ctx) {
	e := &env{}
	var err error
	e.ipfs, err = sim.NewFakeIPFS()
	if err != nil {
		fmt.Println("C16 setup:", err)
		return
	}
	e.rec = sim.NewRPCRecorder(nil)
	cfg := &ipfshttp.Config{}
	cfg.Default()
	cfg.NodeAddr, _ = ma.NewMultiaddr(e.ipfs.Multiaddr())
	cfg.PinTimeout = pinTimeout
	cfg.UnpinTimeout = 2 * time.Second
	cfg.IPFSRequestTimeout = 2 * time.Second
	cfg.ConnectSwarmsDelay = time.Hour
	e.conn, err = ipfshttp.NewConnector(cfg)
	if err != nil {
		fmt.Println("C16 setup connector:", err)
		return
	}
	e.conn.SetClient(e.rec.Client)
	c.Store["env"] = e
}

func teardown(c *fw.Ctx) {
	if e, ok := c.Store["env"].(*env); ok {
		e.conn.Shutdown(context.Background())
		e.ipfs.Close()
	}
}

var faults = []string{"none", "ipfs-error", "non-json", "reset", "reset-mid-body", "stall", "progress-stall", "progress-repeat-stall", "progress-late-error", "slow-progress", "already-pinned-error", "not-pinned-error"}

func apiStep(path string) string { return strings.TrimPrefix(path, "/api/v0/") }

func run(c *fw.Ctx, idx int) {
	e, ok := c.Store["env"].(*env)
	if !ok {
		c.Inconclusive("connector not built")
		return
	}
	r := c.Rand("main")
	ctx := context.Background()
	target := gen.Cid(5000+idx, r.Intn(5))
	source := gen.Cid(900000+idx, r.Intn(5))
	op := r.Pick("pin", "pin", "pin", "unpin", "pinlscid")
	prior := r.Pick("", "", "recursive", "direct")
	e.ipfs.SetPin(target, prior)
	pin := api.PinCid(target)
	modeWant := "recursive"
	switch r.Intn(4) {
	case 0:
		pin.Mode, pin.MaxDepth = api.PinModeDirect, 0
		modeWant = "direct"
	case 1:
		pin.MaxDepth = api.PinDepth(r.Range(1, 3))
	}
	originMark := fmt.Sprintf("/ip4/10.%d.%d.", (idx/250)%250+1, idx%250+1)
	if r.Chance(1, 4) {
		// addresses that name this case: connection attempts are made in the background and
		// may reach the daemon after the conversation is over (even after the next has begun)
		for i := r.Range(1, 3); i > 0; i-- {
			o, oerr := ma.NewMultiaddr(fmt.Sprintf("%s%d/tcp/%d/p2p/%s", originMark, i, 4000+i, peer.Encode(gen.Peer(r.Intn(24)))))
			if oerr == nil {
				pin.Origins = append(pin.Origins, o)
			}
		}
	}
	srcState := "n/a"
	if op == "pin" && r.Chance(1, 3) {
		pin.PinUpdate = source
		srcState = r.Pick("", "recursive", "direct")
		e.ipfs.SetPin(source, srcState)
		if srcState == "" {
			srcState = "absent"
		}
	}
	fault := faults[r.Intn(len(faults))]
	// the step of the conversation the fault hits
	steps := []string{"pin/ls", "pin/add", "pin/update"}
	if op == "unpin" {
		steps = []string{"pin/rm"}
	}
	if op == "pinlscid" {
		steps = []string{"pin/ls"}
	}
	faultStep := steps[r.Intn(len(steps))]
	faultNth := 0 // which occurrence of that step (pin/ls may occur twice with an update source)
	if faultStep == "pin/ls" && pin.PinUpdate.Defined() && r.Bool() {
		faultNth = 1
	}
	var mu sync.Mutex
	seen := map[string]int{}
	fired := false
	var updateViolations []string
	e.ipfs.ResetLog()
	e.ipfs.SetScript(func(rq *sim.HTTPReq) *sim.HTTPReply {
		step := apiStep(rq.Path)
		mu.Lock()
		n := seen[step]
		seen[step]++
		mu.Unlock()
		if step == "pin/update" {
			// observed at the moment the request arrives
			if !strings.Contains(rq.RawQuery, "unpin=false") {
				mu.Lock()
				updateViolations = append(updateViolations, "pin/update without unpin=false: "+rq.RawQuery)
				mu.Unlock()
			}
			if e.ipfs.ModeOf(source) != "recursive" {
				mu.Lock()
				updateViolations = append(updateViolations, "pin/update issued while the source is not recursively pinned")
				mu.Unlock()
			}
		}
		if step != faultStep || n != faultNth || fault == "none" {
			if step == "pin/add" {
				return &sim.HTTPReply{Steps: 2, Interval: 5 * time.Millisecond}
			}
			return nil
		}
		mu.Lock()
		fired = true
		mu.Unlock()
		switch fault {
		case "ipfs-error":
			return &sim.HTTPReply{Kind: "ipfs-error", Message: "merkledag: not found"}
		case "already-pinned-error":
			return &sim.HTTPReply{Kind: "ipfs-error", Message: "pin: " + target.String() + " already pinned recursively"}
		case "not-pinned-error":
			if e.ipfs.ModeOf(target) != "" && step == "pin/rm" {
				mu.Lock()
				fired = false
				mu.Unlock()
				return nil // a daemon does not claim 'not pinned' for what it holds
			}
			return &sim.HTTPReply{Kind: "ipfs-error", Message: "not pinned or pinned indirectly"}
		case "non-json":
			return &sim.HTTPReply{Kind: "non-json", Status: 502}
		case "reset":
			return &sim.HTTPReply{Kind: "reset"}
		case "reset-mid-body":
			return &sim.HTTPReply{Kind: "reset-mid-body"}
		case "stall":
			return &sim.HTTPReply{Kind: "stall", Stall: 20 * time.Second}
		case "progress-stall":
			if step != "pin/add" {
				return &sim.HTTPReply{Kind: "stall", Stall: 20 * time.Second}
			}
			return &sim.HTTPReply{Kind: "progress-stall", Steps: 3, Interval: 10 * time.Millisecond, Stall: 20 * time.Second}
		case "progress-repeat-stall":
			if step != "pin/add" {
				return &sim.HTTPReply{Kind: "stall", Stall: 20 * time.Second}
			}
			// the same progress value every pin_timeout/5, for 20 s
			return &sim.HTTPReply{Kind: "progress-repeat-stall", Steps: 3, Interval: pinTimeout / 5, Stall: 20 * time.Second}
		case "progress-late-error":
			if step != "pin/add" {
				return &sim.HTTPReply{Kind: "ipfs-error", Message: "late"}
			}
			return &sim.HTTPReply{Kind: "progress-late-error", Steps: 3, Interval: 10 * time.Millisecond, Message: "pin: context deadline exceeded"}
		case "slow-progress":
			if step != "pin/add" {
				return nil
			}
			// 30 steps 30 ms apart: 0.9 s in total (3 x pin_timeout), always progressing
			return &sim.HTTPReply{Steps: 30, Interval: pinTimeout / 10}
		}
		return nil
	})
	defer e.ipfs.SetScript(nil)

	c.Journal("case %d op=%s mode=%s prior=%q src=%s fault=%s@%s#%d", idx, op, modeWant, prior, srcState, fault, faultStep, faultNth)
	start := time.Now()
	var err error
	var ls api.IPFSPinStatus
	done := make(chan struct{})
	go func() {
		defer close(done)
		switch op {
		case "pin":
			err = e.conn.Pin(ctx, pin)
		case "unpin":
			err = e.conn.Unpin(ctx, target)
		case "pinlscid":
			ls, err = e.conn.PinLsCid(ctx, pin)
		}
	}()
	bound := 30 * pinTimeout
	if op != "pin" {
		bound = 30 * 2 * time.Second / 4 // unpin / ls time-outs are 2 s
	}
	select {
	case <-done:
	case <-time.After(bound):
		mu.Lock()
		f := fired
		mu.Unlock()
		fk := fault
		if strings.Contains(fk, "stall") {
			fk = "stall"
		}
		c.Violation(fmt.Sprintf("C16/%s/no-answer-within-bound/%s@%s", op, fk, faultStep), fmt.Sprintf("%s did not return within %s (fault fired=%v)", op, bound, f), nil)
		<-done
	}
	elapsed := time.Since(start)
	mu.Lock()
	didFire := fired
	uv := append([]string{}, updateViolations...)
	mu.Unlock()
	held := e.ipfs.ModeOf(target)
	reqs := e.ipfs.Requests()
	var conv []string
	nAdd, nUpd := 0, 0
	for _, rq := range reqs {
		st := apiStep(rq.Path)
		conv = append(conv, st+"["+rq.Handled+"]")
		switch st {
		case "pin/add":
			nAdd++
		case "pin/update":
			nUpd++
		}
	}
	outcome := "nil"
	if err != nil {
		outcome = "err"
	}
	eff := fault
	if !didFire {
		eff = "none(unreached)"
	}
	c.Eval(fmt.Sprintf("%s/%s/prior=%s/src=%s/%s@%s/%s", op, modeWant, orDash(prior), srcState, eff, faultStep, outcome))
	detail := map[string]interface{}{"op": op, "mode": modeWant, "max_depth": int(pin.MaxDepth), "prior": prior, "source": srcState, "fault": fault, "fault_step": faultStep,
		"fault_fired": didFire, "returned": fmt.Sprint(err), "daemon_holds": held, "conversation": conv, "elapsed_ms": elapsed.Milliseconds()}
	for _, v := range uv {
		c.Violation("C16/pin-update/"+strings.SplitN(v, ":", 2)[0], v, detail)
	}
	switch op {
	case "pin":
		if err == nil && held != modeWant {
			c.Violation(fmt.Sprintf("C16/pin/success-but-not-pinned/%s@%s/want=%s/held=%s", eff, faultStep, modeWant, orDash(held)),
				fmt.Sprintf("Pin returned nil but the daemon holds %q (wanted %s)", held, modeWant), detail)
		}
		if !didFire && err != nil && !(prior == "recursive" && modeWant == "direct") {
			c.Violation("C16/pin/error-on-healthy-daemon", "the daemon behaved and Pin failed: "+err.Error(), detail)
		}
		if fault == "slow-progress" && didFire && err != nil && !(prior == "recursive" && modeWant == "direct") {
			// the cadence as the daemon itself measured it: on a machine too busy to write a
			// progress line every pin_timeout/10, the connector's view "no progress for
			// pin_timeout" may be right - no verdict then
			var maxGap time.Duration
			for _, rq := range reqs {
				if rq.MaxGap > maxGap {
					maxGap = rq.MaxGap
				}
			}
			if maxGap > pinTimeout/2 {
				c.Inconclusive(fmt.Sprintf("the fake daemon could not keep its cadence (longest gap between progress lines %s, pin_timeout %s)", maxGap, pinTimeout))
			} else {
				c.Violation("C16/pin/steady-progress-aborted", fmt.Sprintf("a pin that kept making progress (longest gap between two progress lines %s, pin_timeout %s) was aborted: %v", maxGap, pinTimeout, err), detail)
			}
		}
		// a transport-level failure of the preliminary pin/ls is a failure, not "not pinned"
		lsTransport := didFire && faultStep == "pin/ls" && (fault == "non-json" || fault == "reset" || fault == "reset-mid-body" || strings.Contains(fault, "stall"))
		if lsTransport && faultNth == 0 && nAdd+nUpd > 0 {
			c.Violation("C16/pin/requests-sent-after-failed-pin-ls/"+fault, fmt.Sprintf("pin/ls failed at the transport level (%s), yet %d pin/add and %d pin/update requests were sent", fault, nAdd, nUpd), detail)
		}
		if prior == modeWant && nAdd+nUpd > 0 && !(didFire && faultStep == "pin/ls" && faultNth == 0) {
			c.Violation("C16/pin/already-pinned-but-requested", fmt.Sprintf("already pinned %s, yet %d pin/add and %d pin/update requests were sent", prior, nAdd, nUpd), detail)
		}
		if prior == modeWant && !(didFire && faultStep == "pin/ls" && faultNth == 0) {
			// ... and nothing else either: no connection attempts towards the origins of
			// content that is already here (they are made in the background: allow them a moment)
			time.Sleep(60 * time.Millisecond)
			nSwarm := 0
			for _, rq := range e.ipfs.Requests() {
				if q, _ := url.QueryUnescape(rq.RawQuery); apiStep(rq.Path) == "swarm/connect" && strings.Contains(q, originMark) {
					nSwarm++
				}
			}
			c.Eval("pin/already-pinned/nothing-else-requested")
			if nSwarm > 0 {
				c.Violation("C16/pin/already-pinned-but-requested/swarm-connect", fmt.Sprintf("already pinned %s, yet %d swarm/connect requests were sent", prior, nSwarm), detail)
			}
		}
		if nUpd > 0 && e.ipfs.ModeOf(source) == "" {
			c.Violation("C16/pin-update/source-unpinned", "the update source is no longer pinned after the update", detail)
		}
		if nUpd > 0 && srcState != "recursive" {
			c.Violation("C16/pin-update/used-with-non-recursive-source", "pin/update used although the source is "+srcState, detail)
		}
	case "unpin":
		if err == nil && held != "" {
			c.Violation(fmt.Sprintf("C16/unpin/success-but-still-pinned/%s", eff), "Unpin returned nil but the daemon still holds "+held, detail)
		}
		if !didFire && err != nil {
			c.Violation("C16/unpin/error-on-healthy-daemon/prior="+orDash(prior), "Unpin failed on a healthy daemon: "+err.Error(), detail)
		}
		if didFire && err == nil && fault != "not-pinned-error" && fault != "slow-progress" && held != "" {
			c.Violation("C16/unpin/failure-reported-as-success/"+fault, "daemon/transport failure on pin/rm reported as success", detail)
		}
	case "pinlscid":
		if err == nil && didFire && faultStep == "pin/ls" && (fault == "non-json" || fault == "reset" || fault == "reset-mid-body" || strings.Contains(fault, "stall")) {
			c.Violation("C16/pinlscid/transport-failure-reported-as-status/"+fault, fmt.Sprintf("pin/ls failed at the transport level (%s) and PinLsCid answered status %d without error", fault, ls), detail)
		}
		if err == nil {
			want := api.IPFSPinStatusUnpinned
			if held == modeWant {
				want = api.IPFSPinStatusRecursive
				if held == "direct" {
					want = api.IPFSPinStatusDirect
				}
			}
			if !didFire && ls != want {
				c.Violation(fmt.Sprintf("C16/pinlscid/wrong-status/held=%s/asked=%s", orDash(held), modeWant), fmt.Sprintf("PinLsCid = %d, want %d", ls, want), detail)
			}
			if didFire && ls != api.IPFSPinStatusUnpinned && ls != want {
				c.Violation("C16/pinlscid/invented-status/"+fault, fmt.Sprintf("PinLsCid = %d on a faulty answer", ls), detail)
			}
		}
	}
	if idx%100 == 0 {
		c.Sample(detail)
	}
	// leave no state behind
	e.ipfs.SetPin(target, "")
	e.ipfs.SetPin(source, "")
}

func orDash(s string) string {
	if s == "" {
		return "-"
	}
	return s
}

var _ = cid.Undef
