package fw

import (
	"bufio"
	"bytes"
	"encoding/json"
	"fmt"
	"os"
	"os/exec"
	"path/filepath"
	"regexp"
	"sort"
	"strings"
	"sync"
	"syscall"
	"time"
)

type batchState struct {
	k        int
	from     int
	respawns int
}

type agg struct {
	mu       sync.Mutex
	evals    int
	keys     map[string]bool
	viol     map[string]Violation // first per key
	violN    map[string]int
	inc      map[string]int
	samples  []interface{}
	cnt      map[string]int
	cases    int
	hangs    []int
	crashes  int
	finished int
}

func newAgg() *agg {
	return &agg{keys: map[string]bool{}, viol: map[string]Violation{}, violN: map[string]int{},
		inc: map[string]int{}, cnt: map[string]int{}}
}

func (a *agg) addFile(path string, offset int64) (newOffset int64, lastCase int, hang bool, done bool) {
	lastCase = -1
	f, err := os.Open(path)
	if err != nil {
		return offset, -1, false, false
	}
	defer f.Close()
	f.Seek(offset, 0)
	rd := bufio.NewReaderSize(f, 1<<20)
	pos := offset
	for {
		line, err := rd.ReadBytes('\n')
		if err != nil {
			break
		}
		pos += int64(len(line))
		var r caseResult
		if json.Unmarshal(line, &r) != nil {
			continue
		}
		a.mu.Lock()
		if r.Done {
			done = true
			a.finished++
		} else {
			a.cases++
			lastCase = r.Case
		}
		a.evals += r.Evals
		for _, k := range r.Keys {
			a.keys[k] = true
		}
		for _, v := range r.Viol {
			if _, ok := a.viol[v.Key]; !ok {
				a.viol[v.Key] = v
			}
			a.violN[v.Key]++
		}
		for _, s := range r.Inc {
			a.inc[s]++
		}
		if len(a.samples) < 6 {
			a.samples = append(a.samples, r.Samples...)
		}
		for k, v := range r.Cnt {
			a.cnt[k] += v
		}
		if r.Hang {
			hang = true
			a.hangs = append(a.hangs, r.Case)
		}
		a.mu.Unlock()
	}
	return pos, lastCase, hang, done
}

var (
	reFrame   = regexp.MustCompile(`^(\S+)\(.*\)$`)
	reHexArgs = regexp.MustCompile(`0x[0-9a-f]+`)
)

// crashSignature extracts a stable key from a Go crash dump: the first
// "panic:" / "fatal error:" line plus the first ipfs-cluster frame.
func crashSignature(out []byte) (sig string, excerpt string) {
	lines := strings.Split(string(out), "\n")
	start := -1
	for i, l := range lines {
		if strings.HasPrefix(l, "panic:") || strings.HasPrefix(l, "fatal error:") || strings.HasPrefix(l, "SIGSEGV") || strings.Contains(l, "unexpected signal") {
			start = i
			break
		}
	}
	if start < 0 {
		n := len(lines)
		if n > 30 {
			lines = lines[n-30:]
		}
		return "unknown-exit", strings.Join(lines, "\n")
	}
	head := lines[start]
	head = reHexArgs.ReplaceAllString(head, "0x?")
	if len(head) > 100 {
		head = head[:100]
	}
	frame := ""
	// only the panicking goroutine's stack: from the first "goroutine N [running]"
	// after the panic line up to the next blank line
	blockStart, blockEnd := start, len(lines)
	for i := start; i < len(lines); i++ {
		if strings.HasPrefix(lines[i], "goroutine ") {
			blockStart = i
			for j := i; j < len(lines); j++ {
				if strings.TrimSpace(lines[j]) == "" {
					blockEnd = j
					break
				}
			}
			break
		}
	}
	for _, l := range lines[blockStart:blockEnd] {
		l = strings.TrimSpace(l)
		if strings.HasPrefix(l, "github.com/ipfs/ipfs-cluster") {
			if m := reFrame.FindStringSubmatch(l); m != nil {
				frame = strings.TrimPrefix(m[1], "github.com/ipfs/ipfs-cluster")
				break
			}
		}
	}
	end := start + 60
	if end > len(lines) {
		end = len(lines)
	}
	return head + "@" + frame, strings.Join(lines[start:end], "\n")
}

// RaceReport is a parsed race detector report.
type RaceReport struct {
	Key      string `json:"key"`
	External bool   `json:"external"`
	Text     string `json:"text"`
}

var reRaceFn = regexp.MustCompile(`^\s+(\S+)\(\)\s*$`)

func parseRaceLogs(dir string) []RaceReport {
	files, _ := filepath.Glob(filepath.Join(dir, "*", "race.*"))
	var out []RaceReport
	seen := map[string]bool{}
	for _, f := range files {
		b, err := os.ReadFile(f)
		if err != nil {
			continue
		}
		blocks := strings.Split(string(b), "==================")
		for _, blk := range blocks {
			if !strings.Contains(blk, "WARNING: DATA RACE") {
				continue
			}
			// split in the two access stacks (before "Goroutine ... created at")
			sections := strings.Split(blk, "\n\n")
			var tops []string
			cluster := false
			for _, sec := range sections {
				if !(strings.Contains(sec, "by goroutine") || strings.Contains(sec, "by main goroutine")) {
					continue
				}
				if !(strings.HasPrefix(strings.TrimSpace(sec), "WARNING") || strings.HasPrefix(strings.TrimSpace(sec), "Previous") ||
					strings.HasPrefix(strings.TrimSpace(sec), "Read") || strings.HasPrefix(strings.TrimSpace(sec), "Write")) {
					continue
				}
				top := ""
				for _, l := range strings.Split(sec, "\n") {
					m := reRaceFn.FindStringSubmatch(l)
					if m == nil {
						continue
					}
					if strings.HasPrefix(m[1], "github.com/ipfs/ipfs-cluster") {
						cluster = true
						if top == "" {
							top = strings.TrimPrefix(m[1], "github.com/ipfs/ipfs-cluster")
						}
					}
				}
				if top == "" {
					top = "-"
				}
				tops = append(tops, top)
			}
			sort.Strings(tops)
			key := strings.Join(tops, "|")
			if seen[key] {
				continue
			}
			seen[key] = true
			txt := blk
			if len(txt) > 6000 {
				txt = txt[:6000]
			}
			out = append(out, RaceReport{Key: key, External: !cluster, Text: txt})
		}
	}
	return out
}

// RunParent fans the case list out to children and aggregates.
func RunParent(p *Prop, tier string, seed int64, exe string, onlyCase int) int {
	start := time.Now()
	// one scratch directory per run (two runs of the same property may overlap);
	// directories of runs whose process is gone are removed
	if olds, _ := filepath.Glob(filepath.Join(Root, "work", p.ID+".*")); len(olds) > 0 {
		for _, o := range olds {
			pid := o[strings.LastIndex(o, ".")+1:]
			if _, err := os.Stat("/proc/" + pid); err != nil {
				os.RemoveAll(o)
			}
		}
	}
	os.RemoveAll(filepath.Join(Root, "work", p.ID)) // layout of earlier revisions
	workDir := filepath.Join(Root, "work", fmt.Sprintf("%s.%d", p.ID, os.Getpid()))
	os.RemoveAll(workDir)
	os.MkdirAll(workDir, 0o755)
	n := 16
	if p.Children != nil {
		if v := p.Children(tier); v > 0 {
			n = v
		}
	}
	total := p.Cases(tier)
	if total < n {
		n = total
	}
	if onlyCase >= 0 {
		n = 1
	}
	a := newAgg()
	var crashViol []Violation
	var cmu sync.Mutex
	caseTimeout := p.CaseTimeout
	if caseTimeout == 0 {
		caseTimeout = 120 * time.Second
	}

	var wg sync.WaitGroup
	for k := 0; k < n; k++ {
		wg.Add(1)
		go func(k int) {
			defer wg.Done()
			dir := filepath.Join(workDir, fmt.Sprintf("b%02d", k))
			os.MkdirAll(dir, 0o755)
			from := 0
			var off int64
			hangRetried := map[int]bool{}
			for respawn := 0; respawn < 25; respawn++ {
				outPath := filepath.Join(dir, fmt.Sprintf("out.%d", respawn))
				outF, _ := os.Create(outPath)
				args := []string{"-prop", p.ID, "-tier", tier, "-seed", fmt.Sprint(seed),
					"-child", fmt.Sprintf("%d/%d", k, n), "-from", fmt.Sprint(from), "-dir", dir}
				if onlyCase >= 0 {
					args = append(args, "-case", fmt.Sprint(onlyCase))
				}
				cmd := exec.Command(exe, args...)
				cmd.Stdout = outF
				cmd.Stderr = outF
				cmd.Env = append(os.Environ(),
					"GORACE=halt_on_error=0 exitcode=0 log_path="+filepath.Join(dir, "race"),
					"GOTRACEBACK=all")
				cmd.SysProcAttr = &syscall.SysProcAttr{Setpgid: true, Pdeathsig: syscall.SIGKILL}
				err := cmd.Start()
				if err != nil {
					fmt.Fprintln(os.Stderr, "fw: cannot start child:", err)
					outF.Close()
					return
				}
				werr := cmd.Wait()
				outF.Close()
				// kill anything the child left behind
				syscall.Kill(-cmd.Process.Pid, syscall.SIGKILL)
				var last int
				var hang, done bool
				off, last, hang, done = a.addFile(filepath.Join(dir, "results.jsonl"), off)
				if werr == nil && done {
					os.Remove(outPath)
					return
				}
				if onlyCase >= 0 && werr == nil {
					return
				}
				// abnormal end: which case was running?
				running := lastStarted(filepath.Join(dir, "journal"))
				// exit status 3 is only produced by the child's own watchdog: never
				// report it as a crash, even if the result line with the flag was lost
				if ee, ok := werr.(*exec.ExitError); ok && ee.ExitCode() == 3 && !hang {
					hang = true
					if running >= 0 {
						last = running
					}
				}
				if hang {
					// watchdog fired in case `last`
					if p.HangIsViolation {
						if !hangRetried[last] {
							hangRetried[last] = true
							// re-run the same case once on its own
							from = last
							a.mu.Lock()
							a.inc["watchdog-first"]++
							a.mu.Unlock()
							if onlyCase >= 0 {
								// replay: single attempt decides
							} else {
								continue
							}
						}
						cmu.Lock()
						crashViol = append(crashViol, Violation{Key: "hang/no-progress-within-watchdog", Case: last,
							Msg:    fmt.Sprintf("case %d did not finish within %s twice; goroutine dump in %s", last, caseTimeout, outPath),
							Detail: map[string]interface{}{"out": outPath}})
						cmu.Unlock()
					} else {
						a.mu.Lock()
						a.inc["watchdog"]++
						a.mu.Unlock()
					}
					if onlyCase >= 0 {
						return
					}
					from = last + 1
					continue
				}
				out, _ := os.ReadFile(outPath)
				if len(out) > 4<<20 {
					out = out[:4<<20]
				}
				sig, excerpt := crashSignature(out)
				a.mu.Lock()
				a.crashes++
				a.mu.Unlock()
				cmu.Lock()
				crashViol = append(crashViol, Violation{Key: "crash/" + sig, Case: running,
					Msg:    fmt.Sprintf("child process died (%v) while running case %d", werr, running),
					Detail: map[string]interface{}{"excerpt": excerpt, "journal_tail": tailFile(filepath.Join(dir, "journal"), 15)}})
				cmu.Unlock()
				if onlyCase >= 0 || running < 0 {
					return
				}
				from = running + 1
			}
		}(k)
	}
	wg.Wait()

	for _, v := range crashViol {
		if _, ok := a.viol[v.Key]; !ok {
			a.viol[v.Key] = v
		}
		a.violN[v.Key]++
	}

	races := parseRaceLogs(workDir)
	nExt := 0
	for _, r := range races {
		if r.External {
			nExt++
			continue
		}
		if p.Race {
			key := "race/" + r.Key
			if _, ok := a.viol[key]; !ok {
				a.viol[key] = Violation{Key: key, Msg: "data race reported by the Go race detector", Case: -1, Detail: r.Text}
			}
			a.violN[key]++
		}
	}

	// match against known findings
	known := LoadKnown()
	knownByKey := map[string]KnownFinding{}
	for _, k := range known {
		if k.Property == p.ID && k.Status == "known" {
			knownByKey[k.Key] = k
		}
	}
	var vkeys []string
	for k := range a.viol {
		vkeys = append(vkeys, k)
	}
	sort.Strings(vkeys)
	replayDir := filepath.Join(Root, "replays", p.ID)
	os.MkdirAll(replayDir, 0o755)
	exit := 0
	var knownSeen []string
	nviol := 0
	for _, k := range vkeys {
		v := a.viol[k]
		rp := filepath.Join(replayDir, sanitize(k)+".json")
		rb, _ := json.MarshalIndent(map[string]interface{}{
			"property": p.ID, "tier": tier, "seed": seed, "case": v.Case, "key": k, "msg": v.Msg,
			"occurrences": a.violN[k], "detail": v.Detail}, "", " ")
		os.WriteFile(rp, rb, 0o644)
		if kf, ok := knownByKey[k]; ok {
			fmt.Printf("KNOWN-FINDING: property=%s key=%s %s (observed %d times this run)\n", p.ID, k, kf.What, a.violN[k])
			knownSeen = append(knownSeen, k)
			continue
		}
		nviol++
		fmt.Printf("VIOLATION property=%s replay=%s key=%s :: %s\n", p.ID, rp, k, oneLine(v.Msg))
		exit = 1
	}
	for k, kf := range knownByKey {
		found := false
		for _, s := range knownSeen {
			if s == k {
				found = true
			}
		}
		if !found {
			fmt.Printf("NOTE: known finding not observed in this run: property=%s key=%s %s\n", p.ID, k, kf.What)
		}
	}

	incTotal := 0
	for _, v := range a.inc {
		incTotal += v
	}
	floor := 1
	if p.MinEvals != nil {
		floor = p.MinEvals(tier)
	}
	if onlyCase >= 0 {
		floor = 0
	}
	verdict := "held-on-observed"
	if exit == 1 {
		verdict = "violated"
	} else if a.evals < floor || len(a.keys) < 2 && onlyCase < 0 {
		verdict = "inconclusive-observed-too-little"
		exit = 2
	}

	if onlyCase < 0 {
		samples := a.samples
		if len(samples) > 5 {
			samples = samples[:5]
		}
		if len(samples) == 0 {
			samples = []interface{}{"(no sample recorded)"}
		}
		incKeys := map[string]int{}
		for k, v := range a.inc {
			incKeys[k] = v
		}
		ev := map[string]interface{}{
			"property_id": p.ID,
			"tier":        tier,
			"seed":        seed,
			"level":       p.Level,
			"coverage": map[string]interface{}{
				"evaluations":             a.evals,
				"distinct_nontrivial":     len(a.keys),
				"rule":                    p.Rule,
				"samples":                 samples,
				"cases":                   a.cases,
				"cases_planned":           total,
				"events":                  a.cnt,
				"inconclusive":            incKeys,
				"race_reports":            len(races) - nExt,
				"external_race_reports":   nExt,
				"known_findings_observed": knownSeen,
				"children":                n,
				"child_crashes":           a.crashes,
				"watchdog_hangs":          len(a.hangs),
				"coverage_keys_sample":    sampleKeys(a.keys, 40),
				"verdict":                 verdict,
			},
			"assumptions": p.Assumptions,
			"wall_s":      time.Since(start).Seconds(),
			"violations":  nviol,
		}
		eb, _ := json.MarshalIndent(ev, "", " ")
		os.MkdirAll(filepath.Join(Root, "evidence"), 0o755)
		os.WriteFile(filepath.Join(Root, "evidence", p.ID+".json"), eb, 0o644)
	}
	fmt.Printf("%s %s seed=%d: verdict=%s cases=%d/%d evaluations=%d distinct=%d inconclusive=%d races=%d(+%d external) known=%d violations=%d wall=%.1fs\n",
		p.ID, tier, seed, verdict, a.cases, total, a.evals, len(a.keys), incTotal, len(races)-nExt, nExt, len(knownSeen), nviol, time.Since(start).Seconds())
	if exit == 2 {
		fmt.Printf("HARNESS: observed too little (evaluations=%d floor=%d distinct=%d); not a verdict\n", a.evals, floor, len(a.keys))
	}
	return exit
}

func sampleKeys(m map[string]bool, n int) []string {
	var ks []string
	for k := range m {
		ks = append(ks, k)
	}
	sort.Strings(ks)
	if len(ks) > n {
		// spread
		step := float64(len(ks)) / float64(n)
		var out []string
		for i := 0; i < n; i++ {
			out = append(out, ks[int(float64(i)*step)])
		}
		return out
	}
	return ks
}

func oneLine(s string) string {
	s = strings.ReplaceAll(s, "\n", " ")
	if len(s) > 300 {
		s = s[:300]
	}
	return s
}

func lastStarted(journal string) int {
	b, err := os.ReadFile(journal)
	if err != nil {
		return -1
	}
	last := -1
	for _, l := range bytes.Split(b, []byte("\n")) {
		var idx int
		if _, err := fmt.Sscanf(string(l), "S %d", &idx); err == nil {
			last = idx
		}
	}
	return last
}

func tailFile(path string, n int) []string {
	b, err := os.ReadFile(path)
	if err != nil {
		return nil
	}
	lines := strings.Split(strings.TrimRight(string(b), "\n"), "\n")
	if len(lines) > n {
		lines = lines[len(lines)-n:]
	}
	for i, l := range lines {
		if len(l) > 2000 {
			lines[i] = l[:2000] + "…"
		}
	}
	return lines
}
