// Package fw is the small framework every property check runs on:
// deterministic case lists, child-process batches with a journal written
// before each case, aggregation of oracle evaluations / coverage keys /
// violations, known-finding matching, evidence files and exit codes.
package fw

import (
	"encoding/json"
	"fmt"
	"os"
	"path/filepath"
	"runtime"
	"sort"
	"strings"
	"sync"
	"time"
)

// Root is the verification directory.
var Root = "/verif"

func init() {
	if r := os.Getenv("VERIF_ROOT"); r != "" {
		Root = r
	}
}

// Prop describes one property check.
type Prop struct {
	ID          string
	Level       string // exploration | fault_enumeration
	Rule        string
	Assumptions []string
	// Cases returns the number of cases for a tier. The case list is a pure
	// function of (property, tier, seed).
	Cases func(tier string) int
	// Children returns how many child processes to fan out to (0 = 16).
	Children func(tier string) int
	// MinEvals is the floor of conclusive oracle evaluations below which a
	// run is "observed too little" (exit 2), never "held".
	MinEvals func(tier string) int
	// CaseTimeout is the per-case watchdog; firing = inconclusive, and after
	// one re-run of the same case = violation "hang" when HangIsViolation.
	CaseTimeout     time.Duration
	HangIsViolation bool
	// Race: race reports with an ipfs-cluster frame are violations.
	Race bool
	// ChildSetup runs once per child before its first case.
	ChildSetup func(c *Ctx)
	// Run runs case idx.
	Run func(c *Ctx, idx int)
	// ChildTeardown runs after the last case.
	ChildTeardown func(c *Ctx)
}

var registry = map[string]*Prop{}

// Register adds a property to the registry.
func Register(p *Prop) { registry[p.ID] = p }

// Lookup finds a property.
func Lookup(id string) *Prop { return registry[id] }

var roles = map[string]func(args []string) int{}

// RegisterRole registers a helper process mode (`vcheck -role name args...`):
// checks that need the code under test in a process of its own (to kill it)
// start the same binary in that role.
func RegisterRole(name string, f func(args []string) int) { roles[name] = f }

// RunRole runs a registered role; 2 when unknown.
func RunRole(name string, args []string) int {
	f := roles[name]
	if f == nil {
		fmt.Fprintln(os.Stderr, "unknown role", name)
		return 2
	}
	return f(args)
}

// IDs lists registered ids.
func IDs() []string {
	var ids []string
	for k := range registry {
		ids = append(ids, k)
	}
	sort.Strings(ids)
	return ids
}

// Violation is one oracle failure.
type Violation struct {
	Key    string      `json:"key"`
	Msg    string      `json:"msg"`
	Case   int         `json:"case"`
	Detail interface{} `json:"detail,omitempty"`
}

// caseResult is what a child appends after each case.
type caseResult struct {
	Case    int            `json:"case"`
	Evals   int            `json:"ev"`
	Keys    []string       `json:"keys,omitempty"`
	Viol    []Violation    `json:"viol,omitempty"`
	Inc     []string       `json:"inc,omitempty"`
	Samples []interface{}  `json:"samples,omitempty"`
	Cnt     map[string]int `json:"cnt,omitempty"`
	Hang    bool           `json:"hang,omitempty"`
	Done    bool           `json:"done,omitempty"` // child finished all its cases
}

// Ctx is handed to a running case.
type Ctx struct {
	Prop     *Prop
	Tier     string
	Seed     int64
	Batch    int
	NBatches int
	Dir      string                 // per-child scratch directory
	Store    map[string]interface{} // per-child state set by ChildSetup

	mu       sync.Mutex
	cur      caseResult
	curIdx   int
	seenKeys map[string]bool
	nsamples int
	journal  *os.File
	res      *os.File
}

// Rand returns a fresh deterministic stream for the current case and a
// sub-stream label.
func (c *Ctx) Rand(label string) *Rand {
	return NewRand(c.Seed, c.Prop.ID+"/"+label, c.curIdx)
}

// Eval records one oracle evaluation with a coverage key ("" for none).
func (c *Ctx) Eval(key string) {
	c.mu.Lock()
	c.cur.Evals++
	if key != "" && !c.seenKeys[key] {
		c.seenKeys[key] = true
		c.cur.Keys = append(c.cur.Keys, key)
	}
	c.mu.Unlock()
}

// Cover records a coverage key without counting an evaluation.
func (c *Ctx) Cover(key string) {
	c.mu.Lock()
	if key != "" && !c.seenKeys[key] {
		c.seenKeys[key] = true
		c.cur.Keys = append(c.cur.Keys, key)
	}
	c.mu.Unlock()
}

// Violation records an oracle failure under a stable key.
func (c *Ctx) Violation(key, msg string, detail interface{}) {
	c.mu.Lock()
	// keep one violation per key per case, they are deduplicated by key anyway
	for _, v := range c.cur.Viol {
		if v.Key == key {
			c.mu.Unlock()
			return
		}
	}
	c.cur.Viol = append(c.cur.Viol, Violation{Key: key, Msg: msg, Case: c.curIdx, Detail: detail})
	c.mu.Unlock()
}

// Inconclusive records that part of a case could not be decided.
func (c *Ctx) Inconclusive(reason string) {
	c.mu.Lock()
	c.cur.Inc = append(c.cur.Inc, reason)
	c.mu.Unlock()
}

// Sample keeps a few written-out cases for the evidence file.
func (c *Ctx) Sample(v interface{}) {
	c.mu.Lock()
	if c.nsamples < 2 {
		c.nsamples++
		c.cur.Samples = append(c.cur.Samples, v)
	}
	c.mu.Unlock()
}

// Count adds to a named event counter.
func (c *Ctx) Count(name string, n int) {
	c.mu.Lock()
	if c.cur.Cnt == nil {
		c.cur.Cnt = map[string]int{}
	}
	c.cur.Cnt[name] += n
	c.mu.Unlock()
}

// Journal writes a line to the child's journal before a risky call, so a
// process-fatal event is attributable to an input.
func (c *Ctx) Journal(format string, args ...interface{}) {
	c.mu.Lock()
	if c.journal != nil {
		fmt.Fprintf(c.journal, format+"\n", args...)
	}
	c.mu.Unlock()
}

// CaseIdx is the running case number.
func (c *Ctx) CaseIdx() int { return c.curIdx }

// Thorough tells whether this is the thorough tier.
func (c *Ctx) Thorough() bool { return c.Tier == "thorough" }

func (c *Ctx) flush(done bool) {
	c.mu.Lock()
	c.cur.Case = c.curIdx
	c.cur.Done = done
	b, err := json.Marshal(c.cur)
	if err != nil {
		// detail not marshalable: drop details
		for i := range c.cur.Viol {
			c.cur.Viol[i].Detail = fmt.Sprintf("%+v", c.cur.Viol[i].Detail)
		}
		c.cur.Samples = nil
		b, _ = json.Marshal(c.cur)
	}
	c.res.Write(append(b, '\n'))
	c.cur = caseResult{}
	c.mu.Unlock()
}

// RunChild executes the cases of one batch: idx ≡ batch (mod n), idx ≥ from.
// If only ≥ 0, just that case is run.
func RunChild(p *Prop, tier string, seed int64, batch, n, from, only int, dir string) int {
	os.MkdirAll(dir, 0o755)
	c := &Ctx{Prop: p, Tier: tier, Seed: seed, Batch: batch, NBatches: n, Dir: dir,
		seenKeys: map[string]bool{}, Store: map[string]interface{}{}}
	var err error
	c.journal, err = os.OpenFile(filepath.Join(dir, "journal"), os.O_CREATE|os.O_WRONLY|os.O_APPEND, 0o644)
	if err != nil {
		fmt.Fprintln(os.Stderr, "fw: journal:", err)
		return 2
	}
	c.res, err = os.OpenFile(filepath.Join(dir, "results.jsonl"), os.O_CREATE|os.O_WRONLY|os.O_APPEND, 0o644)
	if err != nil {
		fmt.Fprintln(os.Stderr, "fw: results:", err)
		return 2
	}
	total := p.Cases(tier)
	c.curIdx = -1
	if p.ChildSetup != nil {
		p.ChildSetup(c)
	}
	timeout := p.CaseTimeout
	if timeout == 0 {
		timeout = 120 * time.Second
	}
	runOne := func(idx int) bool {
		c.curIdx = idx
		fmt.Fprintf(c.journal, "S %d\n", idx)
		done := make(chan struct{})
		go func() {
			defer close(done)
			p.Run(c, idx)
		}()
		t := time.NewTimer(timeout)
		select {
		case <-done:
			t.Stop()
			fmt.Fprintf(c.journal, "E %d\n", idx)
			c.flush(false)
			return true
		case <-t.C:
			buf := make([]byte, 16<<20)
			nb := runtime.Stack(buf, true)
			fmt.Fprintf(os.Stderr, "\n=== fw: case %d exceeded watchdog %s; goroutine dump ===\n%s\n", idx, timeout, buf[:nb])
			c.mu.Lock()
			c.cur.Hang = true
			c.mu.Unlock()
			c.flush(false)
			return false
		}
	}
	if only >= 0 {
		if !runOne(only) {
			return 3
		}
	} else {
		for idx := 0; idx < total; idx++ {
			if idx%n != batch || idx < from {
				continue
			}
			if !runOne(idx) {
				return 3
			}
		}
	}
	c.curIdx = -1
	if p.ChildTeardown != nil {
		tdone := make(chan struct{})
		go func() { defer close(tdone); p.ChildTeardown(c) }()
		select {
		case <-tdone:
		case <-time.After(60 * time.Second):
		}
	}
	c.flush(true)
	return 0
}

// KnownFinding is one entry of known_findings.json.
type KnownFinding struct {
	Property string `json:"property"`
	Key      string `json:"key"`
	Status   string `json:"status"` // known | fixed
	Commit   string `json:"commit,omitempty"`
	What     string `json:"what"`
}

// LoadKnown reads /verif/known_findings.json.
func LoadKnown() []KnownFinding {
	b, err := os.ReadFile(filepath.Join(Root, "known_findings.json"))
	if err != nil {
		return nil
	}
	var k []KnownFinding
	if err := json.Unmarshal(b, &k); err != nil {
		fmt.Fprintln(os.Stderr, "fw: known_findings.json:", err)
		os.Exit(2)
	}
	return k
}

func sanitize(s string) string {
	var b strings.Builder
	for _, r := range s {
		switch {
		case r >= 'a' && r <= 'z', r >= 'A' && r <= 'Z', r >= '0' && r <= '9', r == '-', r == '_', r == '.':
			b.WriteRune(r)
		default:
			b.WriteByte('_')
		}
	}
	out := b.String()
	if len(out) > 120 {
		out = out[:120]
	}
	return out
}
