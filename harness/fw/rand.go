package fw

import "fmt"

// Rand is a splitmix64 stream. One stream per case, derived from
// (seed, property, case#), so a case is a pure function of those three.
type Rand struct{ s uint64 }

func hashStr(s string) uint64 {
	var h uint64 = 1469598103934665603
	for i := 0; i < len(s); i++ {
		h ^= uint64(s[i])
		h *= 1099511628211
	}
	return h
}

// NewRand derives a stream.
func NewRand(seed int64, prop string, caseIdx int) *Rand {
	r := &Rand{s: uint64(seed)*0x9E3779B97F4A7C15 ^ hashStr(prop) ^ (uint64(caseIdx)+1)*0xBF58476D1CE4E5B9}
	r.U64()
	r.U64()
	return r
}

// U64 returns the next value.
func (r *Rand) U64() uint64 {
	r.s += 0x9E3779B97F4A7C15
	z := r.s
	z = (z ^ (z >> 30)) * 0xBF58476D1CE4E5B9
	z = (z ^ (z >> 27)) * 0x94D049BB133111EB
	return z ^ (z >> 31)
}

// Intn returns a value in [0,n).
func (r *Rand) Intn(n int) int {
	if n <= 0 {
		return 0
	}
	return int(r.U64() % uint64(n))
}

// Range returns a value in [lo,hi].
func (r *Rand) Range(lo, hi int) int { return lo + r.Intn(hi-lo+1) }

// Bool returns true with probability 1/2.
func (r *Rand) Bool() bool { return r.U64()&1 == 1 }

// Chance returns true with probability num/den.
func (r *Rand) Chance(num, den int) bool { return r.Intn(den) < num }

// Bytes returns n pseudo-random bytes.
func (r *Rand) Bytes(n int) []byte {
	b := make([]byte, n)
	for i := 0; i < n; i += 8 {
		v := r.U64()
		for j := 0; j < 8 && i+j < n; j++ {
			b[i+j] = byte(v >> (8 * uint(j)))
		}
	}
	return b
}

// Str returns a printable string of length n.
func (r *Rand) Str(n int) string {
	const al = "abcdefghijklmnopqrstuvwxyzABCDEFGHIJKLMNOPQRSTUVWXYZ0123456789-_ ./:,=&%+éß✓"
	rs := []rune(al)
	out := make([]rune, n)
	for i := range out {
		out[i] = rs[r.Intn(len(rs))]
	}
	return string(out)
}

// Pick returns one of the strings.
func (r *Rand) Pick(xs ...string) string { return xs[r.Intn(len(xs))] }

// Perm returns a permutation of [0,n).
func (r *Rand) Perm(n int) []int {
	p := make([]int, n)
	for i := range p {
		p[i] = i
	}
	for i := n - 1; i > 0; i-- {
		j := r.Intn(i + 1)
		p[i], p[j] = p[j], p[i]
	}
	return p
}

// State returns the PRNG state (for replay records).
func (r *Rand) State() string { return fmt.Sprintf("%016x", r.s) }
