// Package c14: state export/import, snapshots, backups and the peerstore file round-trip.
package c14

import (
	"bytes"
	"context"
	"encoding/json"
	"fmt"
	"os"
	"path/filepath"
	"runtime/debug"
	"sort"
	"strings"
	"time"

	"verif/fw"
	"verif/gen"
	"verif/mon"

	ds "github.com/ipfs/go-datastore"
	dssync "github.com/ipfs/go-datastore/sync"
	ipfscluster "github.com/ipfs/ipfs-cluster"
	"github.com/ipfs/ipfs-cluster/api"
	"github.com/ipfs/ipfs-cluster/cmdutils"
	"github.com/ipfs/ipfs-cluster/config"
	"github.com/ipfs/ipfs-cluster/consensus/crdt"
	"github.com/ipfs/ipfs-cluster/consensus/raft"
	"github.com/ipfs/ipfs-cluster/datastore/badger"
	"github.com/ipfs/ipfs-cluster/datastore/inmem"
	"github.com/ipfs/ipfs-cluster/datastore/leveldb"
	"github.com/ipfs/ipfs-cluster/pstoremgr"
	"github.com/ipfs/ipfs-cluster/state"
	"github.com/ipfs/ipfs-cluster/state/dsstate"
	libp2p "github.com/libp2p/go-libp2p"
	host "github.com/libp2p/go-libp2p-core/host"
	peer "github.com/libp2p/go-libp2p-core/peer"
	ma "github.com/multiformats/go-multiaddr"
)

func init() {
	fw.Register(&fw.Prop{
		ID:    "C14",
		Level: "exploration",
		Rule: "Four case families from one PRNG stream: (a) generated pinsets (0-120 well-formed pins of every type, without origins) are saved as a Raft snapshot / stored in a CRDT datastore (badger, leveldb), " +
			"exported with the real cmdutils StateManager, imported into a different, NON-EMPTY installation and read back offline: the result must equal the exported pinset exactly (own comparator); dsstate Marshal->Unmarshal into an empty state likewise; " +
			"(b) histories of 3-10 snapshot-save / clean operations with retention N in 1..6 over arbitrary pre-existing backup folders (gaps, more than N) are compared after every step with a directory model " +
			"(newest = .old.0 and recoverable through OfflineState, contiguous older ones shift by one, only the N-th is discarded, everything else untouched); " +
			"(c) peer address sets (ip4/ip6/dns4/dns6, several per peer, distinct priorities) go SavePeerstore -> LoadPeerstore -> ImportPeers on a fresh libp2p host -> PeerInfos and must come back as the same addresses in the same order; " +
			"(d) peerstore files with blank, comment, garbage and '/'-prefixed invalid lines must load exactly their valid lines and never panic. distinct_nontrivial counts distinct (family, shape) keys (pinset size class x backend, retention x pre-existing layout x op, address-family mix, line-kind mix).",
		Assumptions: []string{
			"pins carry no Origins here: a pin with origins cannot be JSON-decoded at all (known finding of C08), which would mask every export/import comparison",
			"/dnsaddr addresses are excluded from peerstore round trips: importing them needs DNS resolution, which the sandbox does not have",
			"'starting a peer on the snapshot' is exercised in C01/C17 (real raft.Consensus); here the snapshot is read back through raft.OfflineState and LastStateRaw",
		},
		Cases: func(tier string) int {
			if tier == "thorough" {
				return 6000
			}
			return 800
		},
		MinEvals: func(tier string) int {
			if tier == "thorough" {
				return 20000
			}
			return 3000
		},
		CaseTimeout: 180 * time.Second,
		Run:         run,
	})
}

func run(c *fw.Ctx, idx int) {
	r := c.Rand("main")
	dir := filepath.Join(c.Dir, fmt.Sprintf("case%d", idx))
	os.RemoveAll(dir)
	os.MkdirAll(dir, 0o755)
	defer os.RemoveAll(dir)
	defer func() {
		if rec := recover(); rec != nil {
			c.Violation("C14/panic@"+site(debug.Stack()), fmt.Sprintf("panic: %v", rec), string(debug.Stack()))
		}
	}()
	switch idx % 8 {
	case 0:
		exportImport(c, r, dir, "raft", "")
	case 1:
		exportImport(c, r, dir, "crdt", []string{"badger", "leveldb"}[r.Intn(2)])
	case 2, 3:
		backups(c, r, dir)
	case 4, 5:
		peerstoreRoundTrip(c, r, dir)
	case 6:
		peerstoreMalformed(c, r, dir)
	case 7:
		stateCodec(c, r)
	}
}

func site(stack []byte) string {
	lines := strings.Split(string(stack), "\n")
	seen := false
	for _, l := range lines {
		if strings.HasPrefix(l, "panic(") {
			seen = true
			continue
		}
		if !seen || strings.HasPrefix(l, "\t") {
			continue
		}
		fn := l
		if i := strings.LastIndex(fn, "("); i > 0 {
			fn = fn[:i]
		}
		if strings.HasPrefix(fn, "github.com/ipfs/ipfs-cluster") {
			return strings.TrimPrefix(fn, "github.com/ipfs/ipfs-cluster/")
		}
	}
	return "?"
}

// ------------------------------------------------------------ pinsets

func genPinset(r *fw.Rand, tag int) []*api.Pin {
	n := []int{0, 1, 2, 5, 20, 60, 120}[r.Intn(7)]
	seen := map[string]bool{}
	var out []*api.Pin
	for i := 0; i < n; i++ {
		p := gen.Pin(r, gen.PinParams{AllTypes: true, NoOrigins: true})
		p.Cid = gen.Cid(tag*1000+i, r.Intn(5))
		if seen[p.Cid.KeyString()] {
			continue
		}
		seen[p.Cid.KeyString()] = true
		if r.Chance(1, 5) {
			// an expiry that passed long ago (a fixed instant): still an entry of the pinset
			p.ExpireAt = time.Unix(1500000000+int64(r.Intn(1000000)), 0)
		}
		out = append(out, p)
	}
	return out
}

func sizeClass(n int) string {
	switch {
	case n == 0:
		return "0"
	case n <= 2:
		return "1-2"
	case n <= 20:
		return "3-20"
	default:
		return ">20"
	}
}

// stored returns the pins as the state stores them (documented lossy fields).
func stored(pins []*api.Pin) map[string]*api.Pin {
	out := map[string]*api.Pin{}
	for _, p := range pins {
		q := *p
		q.UserAllocations = nil
		q.Mode = api.PinModeRecursive
		if q.MaxDepth == 0 {
			q.Mode = api.PinModeDirect
		}
		if !q.ExpireAt.IsZero() {
			q.ExpireAt = time.Unix(q.ExpireAt.Unix(), 0)
		}
		out[q.Cid.KeyString()] = &q
	}
	return out
}

func comparePinsets(c *fw.Ctx, key, what string, want map[string]*api.Pin, got []*api.Pin) {
	if len(got) != len(want) {
		c.Violation(key+"/count", fmt.Sprintf("%s: %d pins, want %d", what, len(got), len(want)), nil)
	}
	seen := map[string]bool{}
	for _, g := range got {
		k := g.Cid.KeyString()
		if seen[k] {
			c.Violation(key+"/duplicate", what+": pin listed twice: "+g.Cid.String(), nil)
		}
		seen[k] = true
		w := want[k]
		if w == nil {
			c.Violation(key+"/extra", what+": pin that was not in the source pinset: "+g.Cid.String(), nil)
			continue
		}
		if d := mon.DeepEq(w, g, nil); d != "" {
			f := strings.SplitN(strings.SplitN(d, ":", 2)[0], "[", 2)[0]
			c.Violation(key+"/field-"+f, what+": pin changed: "+d, nil)
		}
	}
	for k, w := range want {
		if !seen[k] {
			c.Violation(key+"/missing", what+": pin lost: "+w.Cid.String(), nil)
			break
		}
	}
}

func newState(pins []*api.Pin) *dsstate.State {
	st, _ := dsstate.New(dssync.MutexWrap(ds.NewMapDatastore()), "/x", dsstate.DefaultHandle())
	for _, p := range pins {
		st.Add(context.Background(), p)
	}
	return st
}

func stateCodec(c *fw.Ctx, r *fw.Rand) {
	for i := 0; i < 6; i++ {
		pins := genPinset(r, i)
		st := newState(pins)
		var buf bytes.Buffer
		if err := st.Marshal(&buf); err != nil {
			c.Violation("C14/statecodec/marshal-error", err.Error(), nil)
			continue
		}
		st2 := newState(nil)
		if err := st2.Unmarshal(&buf); err != nil {
			c.Violation("C14/statecodec/unmarshal-error", err.Error(), nil)
			continue
		}
		got, err := st2.List(context.Background())
		if err != nil {
			c.Violation("C14/statecodec/list-error", err.Error(), nil)
			continue
		}
		c.Eval("statecodec/" + sizeClass(len(pins)))
		comparePinsets(c, "C14/statecodec", "Marshal->Unmarshal into an empty state", stored(pins), got)
	}
}

// ------------------------------------------------------------ installations

type install struct {
	dir   string
	cfgs  *cmdutils.Configs
	ident *config.Identity
	sm    cmdutils.StateManager
}

func newInstall(c *fw.Ctx, dir, consensus, datastore string) *install {
	os.MkdirAll(dir, 0o755)
	cfgs := &cmdutils.Configs{
		Cluster: &ipfscluster.Config{}, Raft: &raft.Config{}, Crdt: &crdt.Config{},
		Badger: &badger.Config{}, LevelDB: &leveldb.Config{},
	}
	for _, cc := range []config.ComponentConfig{cfgs.Cluster, cfgs.Raft, cfgs.Crdt, cfgs.Badger, cfgs.LevelDB} {
		cc.Default()
		cc.SetBaseDir(dir)
	}
	ident, err := config.NewIdentity()
	if err != nil {
		c.Inconclusive("identity: " + err.Error())
		return nil
	}
	sm, err := cmdutils.NewStateManager(consensus, datastore, ident, cfgs)
	if err != nil {
		c.Inconclusive("state manager: " + err.Error())
		return nil
	}
	return &install{dir, cfgs, ident, sm}
}

// seed puts a pinset into the installation the way the running system would
// have left it: a Raft snapshot, or pins in the CRDT datastore.
func (in *install) seed(consensus string, pins []*api.Pin) error {
	if consensus == "raft" {
		return raft.SnapshotSave(in.cfgs.Raft, newState(pins), []peer.ID{in.ident.ID})
	}
	store, err := in.sm.GetStore()
	if err != nil {
		return err
	}
	defer store.Close()
	st, err := in.sm.GetOfflineState(store)
	if err != nil {
		return err
	}
	for _, p := range pins {
		if err := st.Add(context.Background(), p); err != nil {
			return err
		}
	}
	if bst, ok := st.(state.BatchingState); ok && len(pins) > 0 {
		return bst.Commit(context.Background())
	}
	return nil
}

func (in *install) read() ([]*api.Pin, error) {
	store, err := in.sm.GetStore()
	if err != nil {
		return nil, err
	}
	defer store.Close()
	st, err := in.sm.GetOfflineState(store)
	if err != nil {
		return nil, err
	}
	return st.List(context.Background())
}

func exportImport(c *fw.Ctx, r *fw.Rand, dir, consensus, datastore string) {
	src := newInstall(c, filepath.Join(dir, "src"), consensus, datastore)
	dst := newInstall(c, filepath.Join(dir, "dst"), consensus, datastore)
	if src == nil || dst == nil {
		return
	}
	pins := genPinset(r, 1)
	other := genPinset(r, 2) // what the target held before
	c.Journal("export/import %s %s src=%d dst=%d", consensus, datastore, len(pins), len(other))
	if err := src.seed(consensus, pins); err != nil {
		c.Violation("C14/export/"+consensus+"/seed-error", "cannot store a well-formed pinset: "+err.Error(), nil)
		return
	}
	if err := dst.seed(consensus, other); err != nil {
		c.Violation("C14/export/"+consensus+"/seed-error", "cannot store a well-formed pinset: "+err.Error(), nil)
		return
	}
	want := stored(pins)
	// offline read of the source = what was stored
	got, err := src.read()
	if err != nil {
		c.Violation("C14/offline/"+consensus+"/read-error", err.Error(), nil)
		return
	}
	c.Eval("offline/" + consensus + datastore + "/" + sizeClass(len(pins)))
	comparePinsets(c, "C14/offline/"+consensus, "offline state of the stored pinset", want, got)

	var buf bytes.Buffer
	if err := src.sm.ExportState(&buf); err != nil {
		c.Violation("C14/export/"+consensus+"/export-error", err.Error(), nil)
		return
	}
	exported := append([]byte{}, buf.Bytes()...)
	if err := dst.sm.ImportState(&buf); err != nil {
		c.Violation("C14/import/"+consensus+"/import-error", "import of an exported pinset failed: "+err.Error(), string(exported[:min(len(exported), 2000)]))
		return
	}
	got, err = dst.read()
	if err != nil {
		c.Violation("C14/import/"+consensus+"/read-error", err.Error(), nil)
		return
	}
	c.Eval("import/" + consensus + datastore + "/" + sizeClass(len(pins)) + "/onto-" + sizeClass(len(other)))
	comparePinsets(c, "C14/import/"+consensus, fmt.Sprintf("export -> import onto a target holding %d other pins", len(other)), want, got)
	// export of the target again equals the first export as a set of lines
	var buf2 bytes.Buffer
	if err := dst.sm.ExportState(&buf2); err == nil {
		c.Eval("reexport/" + consensus + datastore)
		if a, b := sortedLines(exported), sortedLines(buf2.Bytes()); a != b {
			c.Violation("C14/import/"+consensus+"/reexport-differs", "export of the imported state differs from the original export", nil)
		}
	}
	c.Sample(map[string]interface{}{"family": "export/import", "consensus": consensus, "datastore": datastore, "pins": len(pins), "target_held": len(other)})
}

func sortedLines(b []byte) string {
	ls := strings.Split(strings.TrimSpace(string(b)), "\n")
	sort.Strings(ls)
	return strings.Join(ls, "\n")
}

func min(a, b int) int {
	if a < b {
		return a
	}
	return b
}

// ------------------------------------------------------------ backups

func mark(dir, id string) { os.WriteFile(filepath.Join(dir, "VERIF_MARK"), []byte(id), 0o644) }
func readMark(dir string) string {
	b, err := os.ReadFile(filepath.Join(dir, "VERIF_MARK"))
	if err != nil {
		return ""
	}
	return string(b)
}

func listDir(base string) map[string]string {
	out := map[string]string{}
	ents, _ := os.ReadDir(base)
	for _, e := range ents {
		if e.IsDir() {
			out[e.Name()] = readMark(filepath.Join(base, e.Name()))
		}
	}
	return out
}

func backups(c *fw.Ctx, r *fw.Rand, dir string) {
	cfg := &raft.Config{}
	cfg.Default()
	cfg.SetBaseDir(dir)
	keep := r.Range(1, 6)
	cfg.BackupsRotate = keep
	data := cfg.GetDataFolder()
	name := filepath.Base(data)
	base := filepath.Dir(data)
	// pre-existing backup folders: arbitrary subset of .old.0 .. .old.8
	pre := []string{}
	layout := r.Intn(4) // 0 none, 1 contiguous prefix, 2 with gaps, 3 more than keep
	for i := 0; i < 9; i++ {
		make := false
		switch layout {
		case 1:
			make = i < r.Range(1, keep)
		case 2:
			make = r.Chance(1, 2)
		case 3:
			make = i < keep+r.Range(1, 2)
		}
		if make {
			d := filepath.Join(base, fmt.Sprintf("%s.old.%d", name, i))
			os.MkdirAll(d, 0o700)
			mark(d, fmt.Sprintf("pre%d", i))
			pre = append(pre, filepath.Base(d))
		}
	}
	// model: folder name -> mark
	model := listDir(base)
	delete(model, name)
	pinsByMark := map[string]map[string]*api.Pin{}
	cur := "" // mark of the live data folder ("" = absent or without snapshot)
	nops := r.Range(3, 10)
	var trace []string
	for op := 0; op < nops; op++ {
		doSave := cur == "" || r.Chance(1, 2)
		before := listDir(base)
		_ = before
		if doSave {
			// SnapshotSave: cleans (backs up) first when a snapshot exists
			id := fmt.Sprintf("s%d", op)
			pins := genPinset(r, op+10)
			pinsByMark[id] = stored(pins)
			c.Journal("backups keep=%d op=%d save %s (%d pins) model=%v", keep, op, id, len(pins), model)
			if err := raft.SnapshotSave(cfg, newState(pins), []peer.ID{gen.Peer(0)}); err != nil {
				c.Violation("C14/backups/snapshotsave-error", err.Error(), nil)
				return
			}
			if cur != "" {
				rotate(model, name, keep, cur)
			}
			cur = id
			mark(data, id)
			trace = append(trace, "save:"+id)
		} else {
			c.Journal("backups keep=%d op=%d clean model=%v", keep, op, model)
			if err := raft.CleanupRaft(cfg); err != nil {
				c.Violation("C14/backups/cleanup-error", err.Error(), nil)
				return
			}
			rotate(model, name, keep, cur)
			cur = ""
			trace = append(trace, "clean")
		}
		// compare directory with model
		got := listDir(base)
		live, hasLive := got[name]
		delete(got, name)
		ck := fmt.Sprintf("backups/keep%d/layout%d/%v/n%d", keep, layout, doSave, len(model))
		c.Eval(ck)
		if cur == "" && hasLive {
			c.Violation("C14/backups/data-left-after-clean", "data folder still present after clean", trace)
		}
		if cur != "" && live != cur {
			c.Violation("C14/backups/live-data-wrong", fmt.Sprintf("live data folder holds %q, want %q", live, cur), trace)
		}
		if !sameMap(got, model) {
			c.Violation("C14/backups/rotation-differs-from-model",
				fmt.Sprintf("after %v with retention %d and pre-existing %v: folders %v, model %v", trace, keep, pre, got, model), nil)
			return
		}
		// the newest backup is recoverable and holds the cleaned pinset
		if m := model[name+".old.0"]; m != "" && pinsByMark[m] != nil {
			bcfg := &raft.Config{}
			bcfg.Default()
			bcfg.SetBaseDir(dir)
			bcfg.DataFolder = filepath.Join(base, name+".old.0")
			st, err := raft.OfflineState(bcfg, inmem.New())
			if err != nil {
				c.Violation("C14/backups/backup-unreadable", "newest backup cannot be read offline: "+err.Error(), trace)
			} else {
				pins, _ := st.List(context.Background())
				c.Eval("backups/recover/" + sizeClass(len(pins)))
				comparePinsets(c, "C14/backups/recover", "pinset recovered from the newest backup", pinsByMark[m], pins)
			}
		}
		if cur != "" {
			st, err := raft.OfflineState(cfg, inmem.New())
			if err != nil {
				c.Violation("C14/backups/live-unreadable", err.Error(), trace)
			} else {
				pins, _ := st.List(context.Background())
				c.Eval("snapshot/offline/" + sizeClass(len(pins)))
				comparePinsets(c, "C14/snapshot/offline", "SnapshotSave -> OfflineState", pinsByMark[cur], pins)
			}
		}
	}
	c.Sample(map[string]interface{}{"family": "backups", "retention": keep, "pre_existing": pre, "ops": trace})
}

// rotate applies the documented rotation to the model: the contiguous prefix
// .old.0 .. .old.(m-1), m <= keep, shifts by one; when m == keep the oldest of
// it is discarded; the cleaned data becomes .old.0; nothing else changes.
func rotate(model map[string]string, name string, keep int, cur string) {
	m := 0
	for m < keep {
		if _, ok := model[fmt.Sprintf("%s.old.%d", name, m)]; !ok {
			break
		}
		m++
	}
	top := m // index the last one moves to
	if m == keep {
		delete(model, fmt.Sprintf("%s.old.%d", name, keep-1))
		top = keep - 1
	}
	for i := top; i > 0; i-- {
		model[fmt.Sprintf("%s.old.%d", name, i)] = model[fmt.Sprintf("%s.old.%d", name, i-1)]
	}
	model[name+".old.0"] = cur
}

func sameMap(a, b map[string]string) bool {
	if len(a) != len(b) {
		return false
	}
	for k, v := range a {
		if w, ok := b[k]; !ok || w != v {
			return false
		}
	}
	return true
}

// ------------------------------------------------------------ peerstore

func newHost(c *fw.Ctx, keyIdx int) host.Host {
	h, err := libp2p.New(context.Background(), libp2p.Identity(gen.Key(keyIdx)), libp2p.NoListenAddrs)
	if err != nil {
		c.Inconclusive("libp2p.New: " + err.Error())
		return nil
	}
	return h
}

func genAddr(r *fw.Rand, dns bool) ma.Multiaddr {
	for {
		var s string
		if dns {
			s = fmt.Sprintf("/%s/h%d.example.org/tcp/%d", r.Pick("dns4", "dns6", "dns"), r.Intn(1000), r.Range(1, 65535))
		} else if r.Bool() {
			s = fmt.Sprintf("/ip4/%d.%d.%d.%d/tcp/%d", r.Range(1, 223), r.Intn(256), r.Intn(256), r.Range(1, 254), r.Range(1, 65535))
		} else {
			s = fmt.Sprintf("/ip6/2001:db8::%x/tcp/%d", r.Range(1, 65535), r.Range(1, 65535))
		}
		m, err := ma.NewMultiaddr(s)
		if err == nil {
			return m
		}
	}
}

func infoKey(pi peer.AddrInfo) string {
	var as []string
	for _, a := range pi.Addrs {
		as = append(as, a.String())
	}
	sort.Strings(as)
	return peer.Encode(pi.ID) + "=" + strings.Join(as, ",")
}

func peerstoreRoundTrip(c *fw.Ctx, r *fw.Rand, dir string) {
	ctx := context.Background()
	hA, hB := newHost(c, 20), newHost(c, 21)
	if hA == nil || hB == nil {
		return
	}
	defer hA.Close()
	defer hB.Close()
	path := filepath.Join(dir, "peerstore")
	pmA := pstoremgr.New(ctx, hA, path)
	npeers := r.Range(1, 8)
	perm := r.Perm(16)
	var peers []peer.ID
	mix := ""
	prios := r.Perm(npeers)
	var shared ma.Multiaddr
	for i := 0; i < npeers; i++ {
		pid := gen.Peer(perm[i])
		peers = append(peers, pid)
		dns := r.Chance(1, 3)
		na := r.Range(1, 3)
		var addrs []ma.Multiaddr
		for j := 0; j < na; j++ {
			addrs = append(addrs, genAddr(r, dns))
		}
		// several peers behind one transport address (one name and port, a re-created
		// identity on the same host): every one of them has its own line
		if shared != nil && r.Chance(1, 3) {
			addrs[0] = shared
			mix += "s"
		} else if i == 0 {
			shared = addrs[0]
		}
		hA.Peerstore().AddAddrs(pid, addrs, time.Hour)
		pmA.SetPriority(pid, prios[i]*3+1)
		if dns {
			mix += "d"
		} else {
			mix += "i"
		}
	}
	infosA := pmA.PeerInfos(peers)
	c.Journal("peerstore save %d peers", len(infosA))
	if err := pmA.SavePeerstore(infosA); err != nil {
		c.Violation("C14/peerstore/save-error", err.Error(), nil)
		return
	}
	// what was written, in order
	var wantLines []string
	for _, pi := range infosA {
		as, _ := peer.AddrInfoToP2pAddrs(&pi)
		for _, a := range as {
			wantLines = append(wantLines, a.String())
		}
	}
	pmB := pstoremgr.New(ctx, hB, path)
	loaded := pmB.LoadPeerstore()
	var gotLines []string
	for _, a := range loaded {
		if a == nil {
			c.Violation("C14/peerstore/nil-address", "LoadPeerstore returned a nil address", nil)
			return
		}
		gotLines = append(gotLines, a.String())
	}
	sortedMix := []byte(mix)
	sort.Slice(sortedMix, func(i, j int) bool { return sortedMix[i] < sortedMix[j] })
	c.Eval(fmt.Sprintf("peerstore/roundtrip/%s", sortedMix))
	if strings.Join(gotLines, "\n") != strings.Join(wantLines, "\n") {
		c.Violation("C14/peerstore/addresses-differ", "addresses read back differ from those saved (content or order)", map[string]interface{}{"saved": wantLines, "loaded": gotLines})
		return
	}
	if err := pmB.ImportPeersFromPeerstore(false, time.Hour); err != nil {
		c.Violation("C14/peerstore/import-error", err.Error(), nil)
		return
	}
	infosB := pmB.PeerInfos(peers)
	c.Eval(fmt.Sprintf("peerstore/order/%d", len(infosA)))
	if len(infosA) != len(infosB) {
		c.Violation("C14/peerstore/peer-count", fmt.Sprintf("%d peers after round trip, %d before", len(infosB), len(infosA)), nil)
		return
	}
	for i := range infosA {
		if infoKey(infosA[i]) != infoKey(infosB[i]) {
			c.Violation("C14/peerstore/priority-order-or-addresses",
				fmt.Sprintf("position %d: %s before, %s after", i, infoKey(infosA[i]), infoKey(infosB[i])), nil)
			return
		}
	}
	c.Sample(map[string]interface{}{"family": "peerstore", "lines": wantLines})
}

func peerstoreMalformed(c *fw.Ctx, r *fw.Rand, dir string) {
	ctx := context.Background()
	h := newHost(c, 22)
	if h == nil {
		return
	}
	defer h.Close()
	path := filepath.Join(dir, "peerstore")
	var lines, valid []string
	kinds := map[string]bool{}
	n := r.Range(1, 12)
	for i := 0; i < n; i++ {
		switch r.Intn(7) {
		case 0:
			lines = append(lines, "")
			kinds["blank"] = true
		case 6:
			// a multiaddress all right, but not the address of a peer: loaded, and skipped on import
			lines = append(lines, genAddr(r, false).String())
			kinds["peerless"] = true
		case 1:
			lines = append(lines, "# "+r.Str(10))
			kinds["comment"] = true
		case 2:
			lines = append(lines, r.Str(r.Range(1, 20)))
			kinds["garbage"] = true
		case 3:
			lines = append(lines, r.Pick("/ip4/300.1.1.1/tcp/1", "/ip4/1.2.3.4/tcp", "/notaproto/x", "/", "/ip4/1.2.3.4/tcp/99999", "/p2p/notapeerid", "/dns4//tcp/1"))
			kinds["slash-invalid"] = true
		default:
			a := genAddr(r, r.Bool()).String() + "/p2p/" + peer.Encode(gen.Peer(r.Intn(16)))
			lines = append(lines, a)
			valid = append(valid, a)
			kinds["valid"] = true
		}
	}
	var ks []string
	for k := range kinds {
		ks = append(ks, k)
	}
	sort.Strings(ks)
	// only lines starting with '/' that parse are addresses
	var want []string
	for _, l := range lines {
		if len(l) > 0 && l[0] == '/' {
			if m, err := ma.NewMultiaddr(l); err == nil {
				want = append(want, m.String())
			}
		}
	}
	// hand-written files: with or without a final newline, unix or dos line ends are not mixed in
	content := strings.Join(lines, "\n")
	ending := "newline"
	if r.Bool() {
		content += "\n"
	} else {
		ending = "no-final-newline"
	}
	kinds[ending] = true
	ks = append(ks, ending)
	os.WriteFile(path, []byte(content), 0o644)
	lj, _ := json.Marshal(lines)
	c.Journal("peerstore malformed %s", lj)
	pm := pstoremgr.New(ctx, h, path)
	c.Eval("peerstore/malformed/" + strings.Join(ks, "+"))
	func() {
		defer func() {
			if rec := recover(); rec != nil {
				c.Violation("C14/peerstore/panic@"+site(debug.Stack()), fmt.Sprintf("loading a peerstore file with malformed lines panicked: %v", rec), lines)
			}
		}()
		loaded := pm.LoadPeerstore()
		var got []string
		for _, a := range loaded {
			if a == nil {
				c.Violation("C14/peerstore/nil-address", "LoadPeerstore returned a nil address for an unparsable line (ImportPeers dereferences it)", lines)
				got = append(got, "<nil>")
				continue
			}
			got = append(got, a.String())
		}
		if !hasNil(got) && strings.Join(got, "\n") != strings.Join(want, "\n") {
			c.Violation("C14/peerstore/malformed-lines-not-skipped", "loaded addresses are not exactly the valid lines", map[string]interface{}{"file": lines, "loaded": got, "valid": want})
		}
		pm.ImportPeersFromPeerstore(false, time.Hour)
		// every usable line made it into the host's peerstore, whatever surrounds it
		for _, v := range valid {
			m, _ := ma.NewMultiaddr(v)
			pi, err := peer.AddrInfoFromP2pAddr(m)
			if err != nil || len(pi.Addrs) == 0 {
				continue
			}
			found := false
			for _, a := range h.Peerstore().Addrs(pi.ID) {
				if a.Equal(pi.Addrs[0]) {
					found = true
				}
			}
			c.Eval("peerstore/malformed/imported")
			if !found {
				c.Violation("C14/peerstore/valid-line-not-imported", "a peer address of the file is not in the host's peerstore after the import: "+v, map[string]interface{}{"file": lines})
				break
			}
		}
	}()
}

func hasNil(ss []string) bool {
	for _, s := range ss {
		if s == "<nil>" {
			return true
		}
	}
	return false
}
