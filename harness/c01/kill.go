package c01

import (
	"bufio"
	"context"
	"fmt"
	"io"
	"os"
	"os/exec"
	"path/filepath"
	"sort"
	"strconv"
	"strings"
	"sync"
	"syscall"
	"time"

	"verif/fw"
	"verif/gen"
	"verif/sim"

	"github.com/ipfs/ipfs-cluster/api"
	peer "github.com/libp2p/go-libp2p-core/peer"
)

func init() { fw.RegisterRole("raftnode", raftNodeRole) }

// raftNodeRole: `vcheck -role raftnode <dir> <key index> <snapshot threshold>`.
// A real single-peer Raft Cluster on a data folder; operations arrive on stdin
// ("pin <cid index> <write id>", "unpin <cid index> <write id>", "list"), every
// line is handled concurrently, acknowledgements go to stdout only after the
// consensus call returned.
func raftNodeRole(args []string) int {
	if len(args) < 3 {
		return 2
	}
	dir := args[0]
	ki, _ := strconv.Atoi(args[1])
	thr, _ := strconv.Atoi(args[2])
	ctx := context.Background()
	key := gen.Key(ki)
	id, _ := peer.IDFromPrivateKey(key)
	p := &sim.NetPeer{Key: key, Dir: dir}
	tune := sim.RaftTune{}
	if thr > 0 {
		tune = sim.RaftTune{SnapshotThreshold: uint64(thr), TrailingLogs: 2, SnapshotInterval: 100 * time.Millisecond}
	}
	if err := sim.StartPeer(ctx, p, sim.NetOpts{Consensus: "raft", Peers: []peer.ID{id}, RaftTune: tune}); err != nil {
		fmt.Fprintln(os.Stderr, "raftnode: start:", err)
		return 3
	}
	var omu sync.Mutex
	say := func(s string) {
		omu.Lock()
		os.Stdout.WriteString(s + "\n")
		omu.Unlock()
	}
	say("ready")
	sc := bufio.NewScanner(os.Stdin)
	for sc.Scan() {
		f := strings.Fields(sc.Text())
		if len(f) == 0 {
			continue
		}
		switch f[0] {
		case "list":
			pins, err := p.Node.Cluster.Pins(ctx)
			if err != nil {
				say("listerr " + err.Error())
				continue
			}
			var parts []string
			for _, x := range pins {
				parts = append(parts, x.Cid.String()+"="+x.Metadata["vseq"])
			}
			sort.Strings(parts)
			say("state " + strings.Join(parts, " "))
		case "pin", "unpin":
			if len(f) < 3 {
				continue
			}
			go func(kind, cis, vseq string) {
				ci, _ := strconv.Atoi(cis)
				pin := api.PinCid(gen.UCid(ci))
				pin.Name = vseq
				pin.Metadata = map[string]string{"vseq": vseq}
				if ci%2 == 1 {
					pin.ExpireAt = time.Unix(1500000000+int64(ci), 0) // expired long ago; still a committed entry
				}
				method := "LogPin"
				if kind == "unpin" {
					method = "LogUnpin"
				}
				cctx, cancel := context.WithTimeout(ctx, 20*time.Second)
				err := p.Node.Client.CallContext(cctx, "", "Consensus", method, pin, &struct{}{})
				cancel()
				if err != nil {
					say("err " + vseq + " " + strings.ReplaceAll(err.Error(), "\n", " "))
				} else {
					say("ack " + vseq)
				}
			}(f[0], f[1], f[2])
		case "quit":
			p.Node.Close()
			return 0
		}
	}
	return 0
}

type nodeProc struct {
	cmd   *exec.Cmd
	in    io.WriteCloser
	mu    sync.Mutex
	wait  map[string]chan string // write id -> "ack" | "err ..."
	lines chan string            // ready / state lines
	dead  chan struct{}
}

func startNode(dir string, ki, thr int, logPath string) (*nodeProc, error) {
	exe, err := os.Executable()
	if err != nil {
		return nil, err
	}
	cmd := exec.Command(exe, "-role", "raftnode", dir, fmt.Sprint(ki), fmt.Sprint(thr))
	cmd.SysProcAttr = &syscall.SysProcAttr{Pdeathsig: syscall.SIGKILL}
	cmd.Env = append(os.Environ(), "GOLOG_LOG_LEVEL=error,raft=info,raftlib=info,cluster=info")
	lf, _ := os.OpenFile(logPath, os.O_CREATE|os.O_WRONLY|os.O_APPEND, 0o644)
	cmd.Stderr = lf
	in, err := cmd.StdinPipe()
	if err != nil {
		return nil, err
	}
	out, err := cmd.StdoutPipe()
	if err != nil {
		return nil, err
	}
	if err := cmd.Start(); err != nil {
		return nil, err
	}
	np := &nodeProc{cmd: cmd, in: in, wait: map[string]chan string{}, lines: make(chan string, 64), dead: make(chan struct{})}
	go func() {
		sc := bufio.NewScanner(out)
		sc.Buffer(make([]byte, 1<<20), 1<<20)
		for sc.Scan() {
			l := sc.Text()
			f := strings.SplitN(l, " ", 3)
			switch f[0] {
			case "ack", "err":
				if len(f) < 2 {
					continue
				}
				np.mu.Lock()
				ch := np.wait[f[1]]
				delete(np.wait, f[1])
				np.mu.Unlock()
				if ch != nil {
					ch <- f[0]
				}
			default:
				select {
				case np.lines <- l:
				default:
				}
			}
		}
		cmd.Wait()
		if lf != nil {
			lf.Close()
		}
		close(np.dead)
	}()
	return np, nil
}

func (np *nodeProc) line(prefix string, limit time.Duration) (string, bool) {
	deadline := time.After(limit)
	for {
		select {
		case l := <-np.lines:
			if strings.HasPrefix(l, prefix) {
				return l, true
			}
		case <-np.dead:
			return "", false
		case <-deadline:
			return "", false
		}
	}
}

func (np *nodeProc) kill() {
	np.cmd.Process.Kill()
	<-np.dead
}

// killCase: acknowledged writes survive SIGKILL. A single-peer Raft Cluster
// runs in a process of its own; per-CID sequential writers submit pins and
// unpins with unique write ids; at a PRNG-chosen moment the process is
// killed (SIGKILL, no shutdown code runs) and restarted on the same folder.
// After the restart each CID must hold the result of its acknowledged writes,
// optionally followed by the one write that was in flight at the kill.
func killCase(c *fw.Ctx, r *fw.Rand, idx int) {
	dir := filepath.Join(c.Dir, fmt.Sprintf("kill%d", idx))
	os.RemoveAll(dir)
	os.MkdirAll(dir, 0o755)
	keep := false
	defer func() {
		if !keep {
			os.RemoveAll(dir)
		}
	}()
	logPath := filepath.Join(c.Dir, fmt.Sprintf("kill%d.log", idx))
	os.Remove(logPath)
	// Ed25519 pool keys only: secp256k1 generation is not reproducible across processes
	ki := []int{12, 13, 15, 16}[idx%4]
	thr := []int{0, 4, 8}[r.Intn(3)]
	const ncids = 4
	acked := make([]string, ncids)     // value after the acknowledged writes ("" = absent)
	inflight := make([]*string, ncids) // value if the write in flight at the kill took effect
	var trace []string
	seq := 0
	rounds := r.Range(3, 5)
	list := func(np *nodeProc) (map[string]string, bool) {
		io.WriteString(np.in, "list\n")
		l, ok := np.line("state", 20*time.Second)
		if !ok {
			return nil, false
		}
		got := map[string]string{}
		for _, kv := range strings.Fields(l)[1:] {
			p := strings.SplitN(kv, "=", 2)
			if len(p) == 2 {
				got[p[0]] = p[1]
			}
		}
		return got, true
	}
	explained := func(got map[string]string) bool {
		for ci := 0; ci < ncids; ci++ {
			g := got[gen.UCid(ci).String()]
			if !(g == acked[ci] || (inflight[ci] != nil && g == *inflight[ci])) {
				return false
			}
		}
		return true
	}
	check := func(np *nodeProc, round int) bool {
		// "caught up" is bounded progress, as everywhere in C01: the restarted
		// peer replays its log after it reports ready (the FSM applies queued
		// entries in the background); the listing must reach an explained
		// value within 30 s and is judged then
		var got map[string]string
		deadline := time.Now().Add(30 * time.Second)
		for {
			g, ok := list(np)
			if !ok {
				c.Inconclusive("no listing from the node")
				return false
			}
			got = g
			if time.Now().After(deadline) {
				break
			}
			if explained(got) {
				// stable? (the replay may pass through an explained value)
				time.Sleep(300 * time.Millisecond)
				g2, ok2 := list(np)
				if ok2 && fmt.Sprint(g2) == fmt.Sprint(got) {
					break
				}
				continue
			}
			time.Sleep(100 * time.Millisecond)
		}
		for ci := 0; ci < ncids; ci++ {
			g := got[gen.UCid(ci).String()]
			c.Eval(fmt.Sprintf("kill/snapshots=%v/inflight=%v", thr > 0, inflight[ci] != nil))
			okv := g == acked[ci] || (inflight[ci] != nil && g == *inflight[ci])
			if !okv {
				want := fmt.Sprintf("%q", acked[ci])
				if inflight[ci] != nil {
					want += fmt.Sprintf(" or %q (in flight at the kill)", *inflight[ci])
				}
				tr := trace
				if len(tr) > 40 {
					tr = tr[len(tr)-40:]
				}
				keep = true
				c.Violation("C01/kill/acknowledged-write-lost-or-unknown-value", fmt.Sprintf("after SIGKILL and restart (round %d) c%d holds %q, expected %s", round, ci, g, want), tr)
			}
			// what is there now is the base for the next round
			acked[ci] = g
			inflight[ci] = nil
		}
		return true
	}
	for round := 0; round < rounds; round++ {
		np, err := startNode(dir, ki, thr, logPath)
		if err != nil {
			c.Inconclusive("start node: " + err.Error())
			return
		}
		if _, ok := np.line("ready", 60*time.Second); !ok {
			np.kill()
			if round == 0 {
				c.Inconclusive("node not ready")
			} else {
				c.Violation("C01/kill/peer-does-not-come-back", fmt.Sprintf("after SIGKILL the peer did not become ready again on its folder (round %d); log %s", round, logPath), trace)
			}
			return
		}
		if round > 0 {
			if !check(np, round) {
				np.kill()
				return
			}
		}
		if round == rounds-1 {
			np.kill()
			break
		}
		// per-CID sequential writers until the kill
		stop := make(chan struct{})
		var wg sync.WaitGroup
		var tmu sync.Mutex
		budget := r.Range(6, 40) // acknowledgements before the kill
		acks := make(chan struct{}, 1024)
		for ci := 0; ci < ncids; ci++ {
			wr := c.Rand(fmt.Sprintf("kill-w%d-r%d", ci, round))
			wg.Add(1)
			go func(ci int) {
				defer wg.Done()
				for {
					select {
					case <-stop:
						return
					default:
					}
					tmu.Lock()
					seq++
					vseq := fmt.Sprintf("k%d", seq)
					tmu.Unlock()
					kind := "pin"
					val := vseq
					if wr.Intn(4) == 0 {
						kind, val = "unpin", ""
					}
					ch := make(chan string, 1)
					np.mu.Lock()
					np.wait[vseq] = ch
					np.mu.Unlock()
					tmu.Lock()
					v := val
					inflight[ci] = &v
					trace = append(trace, fmt.Sprintf("r%d %s c%d %s", round, kind, ci, vseq))
					tmu.Unlock()
					if _, err := io.WriteString(np.in, fmt.Sprintf("%s %d %s\n", kind, ci, vseq)); err != nil {
						return
					}
					select {
					case res := <-ch:
						tmu.Lock()
						if res == "ack" {
							acked[ci] = val
							inflight[ci] = nil
							trace = append(trace, fmt.Sprintf("r%d   ack %s", round, vseq))
						} else {
							// refused or timed out: may or may not have taken effect
							trace = append(trace, fmt.Sprintf("r%d   err %s", round, vseq))
						}
						tmu.Unlock()
						if res != "ack" {
							return // keep at most one undecided write per CID
						}
						acks <- struct{}{}
					case <-np.dead:
						return
					}
				}
			}(ci)
		}
		got := 0
		timeout := time.After(30 * time.Second)
	waitAcks:
		for got < budget {
			select {
			case <-acks:
				got++
			case <-timeout:
				break waitAcks
			case <-np.dead:
				break waitAcks
			}
		}
		// optionally a little later, so that the kill lands between or inside operations
		time.Sleep(time.Duration(r.Intn(3000)) * time.Microsecond)
		np.cmd.Process.Signal(syscall.SIGKILL)
		<-np.dead
		close(stop)
		wg.Wait()
		tmu.Lock()
		trace = append(trace, fmt.Sprintf("r%d SIGKILL after %d acknowledgements", round, got))
		tmu.Unlock()
		c.Count("kills", 1)
	}
	c.Sample(map[string]interface{}{"family": "kill", "rounds": rounds, "snapshot_threshold": thr, "writes": seq})
}
