// Package c01: Raft - every replica's pinset equals the committed pin/unpin sequence.
package c01

import (
	"context"
	"fmt"
	"os"
	"path/filepath"
	"sort"
	"strings"
	"sync"
	"sync/atomic"
	"time"

	"verif/fw"
	"verif/gen"
	"verif/mon"
	"verif/sim"

	"github.com/anishathalye/porcupine"
	cid "github.com/ipfs/go-cid"
	ds "github.com/ipfs/go-datastore"
	dshelp "github.com/ipfs/go-ipfs-ds-help"
	"github.com/ipfs/ipfs-cluster/api"
	"github.com/ipfs/ipfs-cluster/consensus/raft"
	"github.com/ipfs/ipfs-cluster/datastore/inmem"
	host "github.com/libp2p/go-libp2p-core/host"
	peer "github.com/libp2p/go-libp2p-core/peer"
)

func init() {
	fw.Register(&fw.Prop{
		ID:    "C01",
		Level: "exploration",
		Rule: "Real Raft peers (real raft.Consensus, go-libp2p-raft, hashicorp raft, boltdb) inside real Cluster peers on real libp2p hosts with connection gaters; a versioned journal under each peer's state store records every write with its origin (FSM.Apply / FSM.Restore); a recording tracker receives the hand-offs. " +
			"Per case: 1-3 peers; 20-80 pin/unpin operations over a 6-CID universe with rich well-formed pins, each write carrying a unique id, submitted by 1-6 goroutines through Consensus.LogPin/LogUnpin RPCs at any member while the leader is read concurrently; " +
			"then one fault phase: restart of a member on its folder, partition of a running follower while the leader commits more than trailing_logs entries (incl. unpins of CIDs the follower holds) followed by a heal (snapshot install onto a non-empty replica), or shutdown of all + offline read. " +
			"Oracle: replica journals are order-compatible (every write id in the same relative order everywhere); every listing equals the journal content at some version between call and return; an acknowledged operation is in some replica's journal before the ack returned; " +
			"porcupine linearizability (register-with-delete per CID) of writes + leader reads in the fault-free phase; at quiescence every live replica's content = fold of its journal = the leader's content, holds every acknowledged write that was not overwritten, " +
			"and equals the leader's exactly after a snapshot install; after restart / offline read the content contains everything acknowledged before the stop; per peer the multiset of applied (id,cid,type,depth,allocations) = the Track calls received, deletes = Untrack calls. " +
			"distinct_nontrivial counts distinct (peers, fault phase, operation mix class, snapshot-config class) keys and distinct linearization shapes.",
		Assumptions: []string{
			"pins carry no Origins: a pin with origins cannot be decoded from msgpack (known C08 finding) and would poison the Raft FSM",
			"power loss (unsynced page cache) is out of reach; process kills are a separate case family ('kill/' keys) when present",
			"bounded progress: 'caught up' means within 30 s after faults stop (observed: < 2 s); not reached = inconclusive, except that a replica that stays different from the leader after a snapshot install is a violation",
		},
		Cases: func(tier string) int {
			if tier == "thorough" {
				return 300 + 64
			}
			return 24 + 8
		},
		Children: func(string) int { return 8 },
		MinEvals: func(tier string) int {
			if tier == "thorough" {
				return 3000
			}
			return 200
		},
		CaseTimeout: 300 * time.Second,
		Run:         run,
	})
}

const nCids = 6

type member struct {
	idx     int
	peer    *sim.NetPeer
	journal *sim.FaultDS
	alive   bool
}

type cluster struct {
	dir     string
	base    int
	n       int
	tune    sim.RaftTune
	members []*member
	ids     []peer.ID
}

func (cl *cluster) hosts() []host.Host {
	var hs []host.Host
	for _, m := range cl.members {
		if m.alive && m.peer.Host != nil {
			hs = append(hs, m.peer.Host)
		}
	}
	return hs
}

func (cl *cluster) startMember(ctx context.Context, i int) error {
	m := cl.members[i]
	p := &sim.NetPeer{Idx: i, Key: gen.Key(cl.base + i), Dir: filepath.Join(cl.dir, fmt.Sprintf("p%d", i))}
	m.journal = nil
	p.WrapStore = func(s ds.Datastore) ds.Datastore {
		m.journal = sim.NewFaultDS(s)
		return m.journal
	}
	if err := p.PrepareHost(ctx); err != nil {
		return err
	}
	m.peer = p
	m.alive = true
	sim.ShareAddrs(cl.hosts())
	return nil
}

func (cl *cluster) boot(ctx context.Context, which []int) error {
	var wg sync.WaitGroup
	errs := make([]error, len(which))
	for k, i := range which {
		wg.Add(1)
		go func(k, i int) {
			defer wg.Done()
			errs[k] = sim.StartPeer(ctx, cl.members[i].peer, sim.NetOpts{Consensus: "raft", Peers: cl.ids, RaftTune: cl.tune})
		}(k, i)
	}
	wg.Wait()
	for _, e := range errs {
		if e != nil {
			return e
		}
	}
	sim.ConnectAll(ctx, cl.hosts())
	return nil
}

func newCluster(ctx context.Context, dir string, base, n int, tune sim.RaftTune) (*cluster, error) {
	cl := &cluster{dir: dir, base: base, n: n, tune: tune}
	for i := 0; i < n; i++ {
		cl.members = append(cl.members, &member{idx: i})
		cl.ids = append(cl.ids, gen.Peer(base+i))
	}
	var all []int
	for i := 0; i < n; i++ {
		if err := cl.startMember(ctx, i); err != nil {
			return nil, err
		}
		all = append(all, i)
	}
	sim.ShareAddrs(cl.hosts())
	if err := cl.boot(ctx, all); err != nil {
		return nil, err
	}
	return cl, nil
}

func (cl *cluster) close() {
	var wg sync.WaitGroup
	for _, m := range cl.members {
		if m.alive && m.peer.Node != nil {
			wg.Add(1)
			go func(m *member) { defer wg.Done(); m.peer.Node.Close() }(m)
		}
	}
	wg.Wait()
}

func (cl *cluster) leader(ctx context.Context) int {
	for _, m := range cl.members {
		if !m.alive || m.peer.Node == nil {
			continue
		}
		l, err := m.peer.Node.Consensus.Leader(ctx)
		if err != nil {
			continue
		}
		for j, id := range cl.ids {
			if id == l && cl.members[j].alive {
				return j
			}
		}
	}
	return -1
}

// ---------------------------------------------------------------- journal reading

type entry struct {
	op   string // put | delete
	cidK string
	vseq string
	kind string
	at   int64
	ver  int64
	pin  *api.Pin
}

// keyToCid maps a datastore key (/namespace/<base32 of the cid bytes>) to the
// cid's KeyString.
func keyToCid(k string) string {
	kb, err := dshelp.BinaryFromDsKey(ds.NewKey(ds.NewKey(k).BaseNamespace()))
	if err != nil {
		return k
	}
	ci, err := cid.Cast(kb)
	if err != nil {
		return k
	}
	return ci.KeyString()
}

func decode(ev sim.DSEvent) entry {
	e := entry{op: ev.Op, kind: ev.Kind, at: ev.At, ver: ev.Ver, cidK: keyToCid(ev.Key)}
	if ev.Op == "put" {
		p := &api.Pin{}
		if err := p.ProtoUnmarshal(ev.Value); err == nil {
			e.pin = p
			e.vseq = p.Metadata["vseq"]
		}
	}
	return e
}

func journalOf(m *member) []entry {
	if m.journal == nil {
		return nil
	}
	var out []entry
	for _, ev := range m.journal.Events() {
		out = append(out, decode(ev))
	}
	return out
}

// fold gives key -> vseq of the content after applying entries[:n].
func fold(es []entry) map[string]string {
	st := map[string]string{}
	for _, e := range es {
		if e.op == "put" {
			st[e.cidK] = e.vseq
		} else {
			delete(st, e.cidK)
		}
	}
	return st
}

func fmtState(st map[string]string) string {
	var s []string
	for k, v := range st {
		lbl := fmt.Sprintf("%x", k[len(k)-3:])
		for ci := 0; ci < nCids; ci++ {
			if gen.UCid(ci).KeyString() == k {
				lbl = fmt.Sprintf("c%d", ci)
			}
		}
		s = append(s, lbl+"="+v)
	}
	sort.Strings(s)
	return strings.Join(s, " ")
}

func content(ctx context.Context, m *member) (map[string]string, error) {
	st, err := m.peer.Node.Consensus.State(ctx)
	if err != nil {
		return nil, err
	}
	pins, err := st.List(ctx)
	if err != nil {
		return nil, err
	}
	out := map[string]string{}
	for _, p := range pins {
		out[p.Cid.KeyString()] = p.Metadata["vseq"]
	}
	return out, nil
}

// ---------------------------------------------------------------- history

type opRec struct {
	seq     int
	proc    int
	member  int
	kind    string // pin | unpin | read
	c       int
	vseq    string
	call    int64
	ret     int64
	err     error
	readVal string
	want    *api.Pin // for pins: the submitted pin as the state encoding stores it
}

type regIn struct {
	write bool
	del   bool
	val   string
	key   int
}

var regModel = porcupine.Model{
	Partition: func(history []porcupine.Operation) [][]porcupine.Operation {
		m := map[int][]porcupine.Operation{}
		for _, op := range history {
			k := op.Input.(regIn).key
			m[k] = append(m[k], op)
		}
		var out [][]porcupine.Operation
		for _, v := range m {
			out = append(out, v)
		}
		return out
	},
	Init: func() interface{} { return "" },
	Step: func(state, input, output interface{}) (bool, interface{}) {
		in := input.(regIn)
		switch {
		case in.write:
			return true, in.val
		case in.del:
			return true, ""
		default:
			return output.(string) == state.(string), state
		}
	},
	DescribeOperation: func(input, output interface{}) string {
		in := input.(regIn)
		switch {
		case in.write:
			return fmt.Sprintf("pin(c%d,%s)", in.key, in.val)
		case in.del:
			return fmt.Sprintf("unpin(c%d)", in.key)
		}
		return fmt.Sprintf("read(c%d)->%q", in.key, output)
	},
}

func genPin(r *fw.Rand, c int, vseq string, npeers int) *api.Pin {
	p := gen.Pin(r, gen.PinParams{NPeers: 6, AllTypes: true, NoOrigins: true})
	p.Cid = gen.UCid(c)
	if p.Metadata == nil {
		p.Metadata = map[string]string{}
	}
	delete(p.Metadata, "")
	p.Metadata["vseq"] = vseq
	p.Name = vseq
	p.UserAllocations = nil
	// a quarter of the pins carry an expiry that has long passed (fixed instants in 2017):
	// committed state changes through committed entries only, never because time went by
	if r.Chance(1, 4) {
		p.ExpireAt = time.Unix(1500000000+int64(r.Intn(1000000)), 0)
	}
	return p
}

func run(c *fw.Ctx, idx int) {
	ctx := context.Background()
	r := c.Rand("main")
	// the first cases are the SIGKILL family (the peer runs in a process of its own)
	nkill := 8
	if c.Thorough() {
		nkill = 64
	}
	if idx < nkill {
		killCase(c, r, idx)
		return
	}
	dir := filepath.Join(c.Dir, fmt.Sprintf("case%d", idx))
	os.RemoveAll(dir)
	defer os.RemoveAll(dir)
	n := []int{1, 2, 3, 3, 3}[r.Intn(5)]
	fault := []string{"none", "restart", "partition-snapshot", "offline", "restart", "partition-snapshot"}[idx%6]
	if n < 3 && fault == "partition-snapshot" {
		n = 3
	}
	tune := sim.RaftTune{}
	small := fault == "partition-snapshot" || r.Chance(1, 3)
	if small {
		tune = sim.RaftTune{SnapshotThreshold: uint64(r.Range(4, 10)), TrailingLogs: uint64(r.Range(3, 8)), SnapshotInterval: 300 * time.Millisecond}
	}
	// half of the clusters make one try per operation (commit_retries = 0)
	tune.NoCommitRetries = (idx/6)%2 == 0
	base := r.Intn(5) * 4
	c.Journal("case %d peers=%d fault=%s small-snapshots=%v one-try=%v", idx, n, fault, small, tune.NoCommitRetries)
	cl, err := newCluster(ctx, dir, base, n, tune)
	if err != nil {
		c.Inconclusive("cluster start: " + err.Error())
		return
	}
	defer cl.close()

	var seq int64
	var hmu sync.Mutex
	var hist []opRec
	acked := map[string]bool{} // vseq of acknowledged pins
	var submitT func(proc, mi int, kind string, ci int, rr *fw.Rand, limit time.Duration)
	submit := func(proc, mi int, kind string, ci int, rr *fw.Rand) {
		submitT(proc, mi, kind, ci, rr, 20*time.Second)
	}
	submitT = func(proc, mi int, kind string, ci int, rr *fw.Rand, limit time.Duration) {
		s := int(atomic.AddInt64(&seq, 1))
		vseq := fmt.Sprintf("w%d", s)
		m := cl.members[mi]
		var pin *api.Pin
		if kind == "pin" {
			pin = genPin(rr, ci, vseq, n)
		} else if rr.Intn(2) == 0 {
			pin = api.PinCid(gen.UCid(ci))
		} else {
			// Cluster.Unpin hands the stored (rich) pin to LogUnpin
			pin = genPin(rr, ci, "unpin-"+vseq, n)
		}
		rec := opRec{seq: s, proc: proc, member: mi, kind: kind, c: ci, vseq: vseq, call: time.Now().UnixNano()}
		if kind == "pin" {
			// what the state must hold for this write (the harness's own reading of the stored form)
			rec.want = mon.StoredForm(pin)
		}
		cctx, cancel := context.WithTimeout(ctx, limit)
		method := "LogPin"
		if kind == "unpin" {
			method = "LogUnpin"
		}
		rec.err = m.peer.Node.Client.CallContext(cctx, "", "Consensus", method, pin, &struct{}{})
		cancel()
		rec.ret = time.Now().UnixNano()
		hmu.Lock()
		hist = append(hist, rec)
		if rec.err == nil && kind == "pin" {
			acked[vseq] = true
		}
		hmu.Unlock()
	}

	// ---------------- phase A: concurrent, fault-free
	nproc := r.Range(1, 6)
	perProc := r.Range(4, 14)
	var wg sync.WaitGroup
	stopRead := make(chan struct{})
	lead := cl.leader(ctx)
	if lead < 0 {
		c.Inconclusive("no leader")
		return
	}
	// leader reads
	var reads []opRec
	var rmu sync.Mutex
	wg.Add(1)
	go func() {
		defer wg.Done()
		rr := fw.NewRand(c.Seed, "C01/reader", idx)
		for {
			select {
			case <-stopRead:
				return
			default:
			}
			ci := rr.Intn(nCids)
			rec := opRec{proc: 100, kind: "read", c: ci, call: time.Now().UnixNano()}
			st, err := cl.members[lead].peer.Node.Consensus.State(ctx)
			if err == nil {
				p, gerr := st.Get(ctx, gen.UCid(ci))
				if gerr == nil {
					rec.readVal = p.Metadata["vseq"]
				}
			}
			rec.ret = time.Now().UnixNano()
			rmu.Lock()
			reads = append(reads, rec)
			rmu.Unlock()
			time.Sleep(time.Duration(rr.Intn(3)) * time.Millisecond)
		}
	}()
	// listings checked against the journal
	type listObs struct {
		member int
		v0, v1 int64
		got    map[string]string
	}
	var lists []listObs
	var lmu sync.Mutex
	wg.Add(1)
	go func() {
		defer wg.Done()
		rr := fw.NewRand(c.Seed, "C01/lister", idx)
		for {
			select {
			case <-stopRead:
				return
			default:
			}
			mi := rr.Intn(n)
			m := cl.members[mi]
			if m.journal != nil {
				v0 := m.journal.Version()
				got, err := content(ctx, m)
				v1 := m.journal.Version()
				if err == nil {
					lmu.Lock()
					lists = append(lists, listObs{mi, v0, v1, got})
					lmu.Unlock()
				}
			}
			time.Sleep(time.Duration(2+rr.Intn(8)) * time.Millisecond)
		}
	}()
	var pwg sync.WaitGroup
	for p := 0; p < nproc; p++ {
		pwg.Add(1)
		go func(p int) {
			defer pwg.Done()
			rr := fw.NewRand(c.Seed, fmt.Sprintf("C01/proc%d", p), idx)
			for k := 0; k < perProc; k++ {
				kind := "pin"
				if rr.Chance(1, 3) {
					kind = "unpin"
				}
				submit(p, rr.Intn(n), kind, rr.Intn(nCids), rr)
			}
		}(p)
	}
	pwg.Wait()
	close(stopRead)
	wg.Wait()
	failedA := 0
	for _, h := range hist {
		if h.err != nil {
			failedA++
		}
	}
	mix := fmt.Sprintf("n%d/procs%d/%s/small=%v", n, min(nproc, 3), fault, small)
	c.Cover("config/" + mix)

	quiesce := func(limit time.Duration) bool {
		deadline := time.Now().Add(limit)
		for time.Now().Before(deadline) {
			var ref string
			same := true
			first := true
			for _, m := range cl.members {
				if !m.alive {
					continue
				}
				st, err := content(ctx, m)
				if err != nil {
					same = false
					break
				}
				s := fmtState(st)
				if first {
					ref, first = s, false
				} else if s != ref {
					same = false
				}
			}
			if same {
				return true
			}
			time.Sleep(100 * time.Millisecond)
		}
		return false
	}
	if !quiesce(30 * time.Second) {
		c.Inconclusive("replicas did not converge after the fault-free phase")
		dumpStates(ctx, c, cl)
		return
	}
	checkJournals(ctx, c, cl, hist, acked, "phaseA")
	// listings
	for _, lo := range lists {
		es := journalOf(cl.members[lo.member])
		okAny := false
		for v := lo.v0; v <= lo.v1 && !okAny; v++ {
			if fmtState(fold(es[:min64(v, int64(len(es)))])) == fmtState(lo.got) {
				okAny = true
			}
		}
		c.Eval("listing/" + fmt.Sprint(lo.v1-lo.v0 > 0))
		if !okAny {
			c.Violation("C01/listing-matches-no-journal-version", fmt.Sprintf("a listing on p%d (%s) equals the store content at no version in [%d,%d]", lo.member, fmtState(lo.got), lo.v0, lo.v1), nil)
			break
		}
	}
	// linearizability of the fault-free phase
	if failedA == 0 {
		var ops []porcupine.Operation
		for _, h := range hist {
			in := regIn{key: h.c}
			if h.kind == "pin" {
				in.write, in.val = true, h.vseq
			} else {
				in.del = true
			}
			ops = append(ops, porcupine.Operation{ClientId: h.proc, Input: in, Call: h.call, Output: "", Return: h.ret})
		}
		rmu.Lock()
		for _, rd := range reads {
			ops = append(ops, porcupine.Operation{ClientId: 100, Input: regIn{key: rd.c}, Call: rd.call, Output: rd.readVal, Return: rd.ret})
		}
		rmu.Unlock()
		res, _ := porcupine.CheckOperationsVerbose(regModel, ops, 60*time.Second)
		c.Eval(fmt.Sprintf("linearizability/ops>%d/%s", bucket(len(ops)), res))
		c.Count("history_operations", len(ops))
		switch res {
		case porcupine.Illegal:
			c.Violation("C01/not-linearizable", fmt.Sprintf("history of %d writes and %d leader reads is not linearizable", len(hist), len(reads)), describe(hist, 60))
		case porcupine.Unknown:
			c.Inconclusive("linearizability checker timed out")
		}
	} else {
		c.Count("phaseA_failed_ops", failedA)
	}

	// ---------------- fault phase
	switch fault {
	case "restart":
		victim := r.Intn(n)
		cl.members[victim].peer.Node.Close()
		cl.members[victim].alive = false
		oldJournal := journalOf(cl.members[victim])
		// more operations while it is down (if a quorum remains)
		if n == 3 {
			rr := fw.NewRand(c.Seed, "C01/restart-ops", idx)
			for k := 0; k < 6; k++ {
				mi := (victim + 1 + rr.Intn(2)) % 3
				submit(50, mi, rr.Pick("pin", "pin", "unpin"), rr.Intn(nCids), rr)
			}
		}
		if err := cl.startMember(ctx, victim); err != nil {
			c.Inconclusive("restart host: " + err.Error())
			return
		}
		if err := cl.boot(ctx, []int{victim}); err != nil {
			if n == 1 || n == 3 {
				c.Violation("C01/restart/peer-does-not-come-back", "a restarted member did not become ready: "+err.Error(), nil)
			} else {
				c.Inconclusive("restart: " + err.Error())
			}
			return
		}
		if !quiesce(30 * time.Second) {
			// The known snapshot-install defect can also be reached this way: the
			// restarted member first restores its own snapshot and log, then (the
			// others truncated their logs meanwhile) receives InstallSnapshot onto
			// that non-empty state and keeps entries that were unpinned meanwhile.
			key := "C01/restart/not-caught-up"
			es := journalOf(cl.members[victim])
			groups, sawOther := 0, false
			var lastRestore int64
			for _, e := range es {
				if e.kind == "restore" {
					if lastRestore == 0 || sawOther || e.at-lastRestore > int64(50*time.Millisecond) {
						groups++
					}
					lastRestore, sawOther = e.at, false
				} else {
					sawOther = true
				}
			}
			a, e1 := content(ctx, cl.members[victim])
			b, e2 := content(ctx, cl.members[cl.leaderOr(ctx, (victim+1)%n)])
			// two restores can also follow each other without a gap: a key written twice by
			// restore events was restored twice
			restoredTimes := map[string]int{}
			for _, e := range es {
				if e.kind == "restore" && e.op == "put" {
					restoredTimes[e.cidK]++
					if restoredTimes[e.cidK] >= 2 && groups < 2 {
						groups = 2
					}
				}
			}
			// ... and a snapshot of an empty pinset writes nothing at all: the restarted member
			// carrying the leader's snapshot index was sent that snapshot
			if vh, lh := sim.RaftHandle(cl.members[victim].peer.Node.Consensus), sim.RaftHandle(cl.members[cl.leaderOr(ctx, (victim+1)%n)].peer.Node.Consensus); vh != nil && lh != nil && groups < 2 {
				if vs, ls := vh.Stats()["last_snapshot_index"], lh.Stats()["last_snapshot_index"]; vs != "" && vs != "0" && vs == ls && len(b) == 0 {
					groups = 2
				}
			}
			if groups >= 2 && e1 == nil && e2 == nil {
				staleOnly, stale := true, 0
				for k, v := range b {
					if a[k] != v {
						staleOnly = false
					}
				}
				for k := range a {
					if _, ok := b[k]; !ok {
						stale++
					}
				}
				if staleOnly && stale > 0 {
					key = "C01/snapshot-install/stale-entries-remain"
				}
			}
			c.Violation(key, "a restarted member does not reach the others' content within 30 s", statesOf(ctx, cl))
			return
		}
		c.Eval("restart/caught-up/" + mix)
		_ = oldJournal
		checkDurable(ctx, c, cl, hist, "restart")
	case "partition-snapshot":
		lead = cl.leader(ctx)
		if lead < 0 {
			c.Inconclusive("no leader before partition")
			return
		}
		f := (lead + 1 + r.Intn(2)) % 3
		before, _ := content(ctx, cl.members[f])
		// cut f off
		for j, m := range cl.members {
			if j == f {
				continue
			}
			m.peer.Gater.Block(cl.ids[f])
			cl.members[f].peer.Gater.Block(cl.ids[j])
		}
		rr := fw.NewRand(c.Seed, "C01/partition-ops", idx)
		// a write submitted at the member that was just cut off (it still names the old
		// leader for a heartbeat or so): it cannot be committed; if it is acknowledged all
		// the same, it has to be there after the heal like any acknowledged write
		cutDone := make(chan struct{})
		go func() {
			defer close(cutDone)
			submitT(61, f, "pin", nCids, fw.NewRand(c.Seed, "C01/cut-off-op", idx), 3*time.Second)
		}()
		defer func() { <-cutDone }()
		// unpin what the follower holds, then pin many others: more than trailing_logs entries
		var held []int
		for ci := 0; ci < nCids; ci++ {
			if _, ok := before[gen.UCid(ci).KeyString()]; ok {
				held = append(held, ci)
			}
		}
		for _, ci := range held {
			if rr.Chance(2, 3) {
				submit(60, lead, "unpin", ci, rr)
			}
		}
		for k := 0; k < int(cl.tune.TrailingLogs)+int(cl.tune.SnapshotThreshold)+6; k++ {
			ci := rr.Intn(nCids)
			if containsInt(held, ci) && rr.Chance(2, 3) {
				continue
			}
			submit(60, lead, rr.Pick("pin", "pin", "pin", "unpin"), ci, rr)
		}
		time.Sleep(2*cl.tune.SnapshotInterval + 200*time.Millisecond) // let the leader snapshot and truncate
		for _, m := range cl.members {
			m.peer.Gater.UnblockAll()
		}
		// the follower's own count of installed snapshots: a snapshot of an empty pinset
		// writes nothing, so the journal alone cannot tell that it was installed
		snapIdx := func() string {
			if rh := sim.RaftHandle(cl.members[f].peer.Node.Consensus); rh != nil {
				return rh.Stats()["last_snapshot_index"]
			}
			return ""
		}
		snapBefore := snapIdx()
		sim.ConnectAll(ctx, cl.hosts())
		restored := false
		ok := waitUntil(30*time.Second, func() bool {
			a, e1 := content(ctx, cl.members[f])
			b, e2 := content(ctx, cl.members[cl.leaderOr(ctx, lead)])
			for _, e := range journalOf(cl.members[f]) {
				if e.kind == "restore" {
					restored = true
				}
			}
			if now := snapIdx(); now != "" && now != "0" && now != snapBefore {
				// the index of an installed snapshot is the sender's, not a point of the follower's own run
				if rh := sim.RaftHandle(cl.members[cl.leaderOr(ctx, lead)].peer.Node.Consensus); rh != nil && rh.Stats()["last_snapshot_index"] == now {
					restored = true
				}
			}
			return e1 == nil && e2 == nil && fmtState(a) == fmtState(b)
		})
		c.Eval(fmt.Sprintf("partition/snapshot-installed=%v/held=%d", restored, len(held)))
		c.Count("snapshot_installs_observed", b2i(restored))
		if !ok {
			a, _ := content(ctx, cl.members[f])
			b, _ := content(ctx, cl.members[cl.leaderOr(ctx, lead)])
			key := "C01/partition/follower-differs-from-leader-after-heal"
			if restored {
				key = "C01/snapshot-install/stale-entries-remain"
				stale := 0
				for k := range a {
					if _, ok := b[k]; !ok {
						stale++
					}
				}
				if stale == 0 {
					key = "C01/snapshot-install/follower-differs-from-leader"
				}
			}
			c.Violation(key, fmt.Sprintf("30 s after the heal the follower holds [%s], the leader [%s] (snapshot installed on the follower: %v)", fmtState(a), fmtState(b), restored),
				map[string]interface{}{"follower_before_partition": fmtState(before), "trailing_logs": cl.tune.TrailingLogs, "snapshot_threshold": cl.tune.SnapshotThreshold})
			return
		}
		checkDurable(ctx, c, cl, hist, "partition")
	case "offline":
		// every second time a whole stop/start cycle comes first: the folders then hold a
		// snapshot from the first stop, and the second run goes on well beyond it
		if (idx/6)%2 == 1 {
			for _, m := range cl.members {
				m.peer.Node.Close()
				m.alive = false
			}
			var all []int
			ok := true
			for i := range cl.members {
				if err := cl.startMember(ctx, i); err != nil {
					ok = false
				}
				all = append(all, i)
			}
			if !ok || cl.boot(ctx, all) != nil {
				c.Inconclusive("second run: the cluster did not come back")
				return
			}
			if !waitUntil(30*time.Second, func() bool { return cl.leader(ctx) >= 0 }) {
				c.Inconclusive("second run: no leader")
				return
			}
			rr := fw.NewRand(c.Seed, "C01/second-run-ops", idx)
			// long enough for the log index to gain a digit where that is within reach
			// (56 -> 100 and beyond): numbers that compare differently as text
			more := 70
			if rh := sim.RaftHandle(cl.members[cl.leaderOr(ctx, 0)].peer.Node.Consensus); rh != nil {
				at := int(rh.AppliedIndex())
				next := 10
				for next <= at {
					next *= 10
				}
				if need := next + 5 - at; need > more && need <= 160 {
					more = need
				}
			}
			for k := 0; k < more; k++ {
				submit(70, cl.leaderOr(ctx, 0), rr.Pick("pin", "pin", "unpin"), rr.Intn(nCids), rr)
			}
			if !quiesce(30 * time.Second) {
				c.Inconclusive("second run: replicas did not settle")
				return
			}
			c.Cover("offline/after-a-second-run")
		}
		// shut everything down and read each folder offline
		want := map[string]string{}
		if l := cl.leader(ctx); l >= 0 {
			want, _ = content(ctx, cl.members[l])
		}
		cfgs := make([]*raft.Config, n)
		for i, m := range cl.members {
			cfgs[i] = m.peer.RaftCfg
			m.peer.Node.Close()
			m.alive = false
		}
		for i := range cl.members {
			st, err := raft.OfflineState(cfgs[i], inmem.New())
			c.Eval("offline/" + mix)
			if err != nil {
				c.Violation("C01/offline/unreadable", fmt.Sprintf("p%d: %v", i, err), nil)
				continue
			}
			pins, _ := st.List(ctx)
			got := map[string]string{}
			for _, p := range pins {
				got[p.Cid.KeyString()] = p.Metadata["vseq"]
			}
			if fmtState(got) != fmtState(want) {
				c.Violation("C01/offline/differs-from-live-state", fmt.Sprintf("offline state of p%d after a clean shutdown is [%s], the live state was [%s]", i, fmtState(got), fmtState(want)), nil)
			}
		}
	}
	if idx%6 == 0 {
		c.Sample(map[string]interface{}{"peers": n, "fault": fault, "processes": nproc, "operations": len(hist), "leader_reads": len(reads), "listings": len(lists), "first_ops": describe(hist, 8)})
	}
}

func (cl *cluster) leaderOr(ctx context.Context, def int) int {
	if l := cl.leader(ctx); l >= 0 {
		return l
	}
	return def
}

func waitUntil(limit time.Duration, f func() bool) bool {
	deadline := time.Now().Add(limit)
	for time.Now().Before(deadline) {
		if f() {
			return true
		}
		time.Sleep(100 * time.Millisecond)
	}
	return false
}

func b2i(b bool) int {
	if b {
		return 1
	}
	return 0
}

func containsInt(l []int, x int) bool {
	for _, y := range l {
		if x == y {
			return true
		}
	}
	return false
}

func min(a, b int) int {
	if a < b {
		return a
	}
	return b
}

func min64(a, b int64) int64 {
	if a < b {
		return a
	}
	return b
}

func bucket(n int) int {
	switch {
	case n > 200:
		return 200
	case n > 50:
		return 50
	}
	return 0
}

func describe(hist []opRec, n int) []string {
	var out []string
	for i, h := range hist {
		if i >= n {
			break
		}
		out = append(out, fmt.Sprintf("#%d proc%d@p%d %s c%d %s err=%v", h.seq, h.proc, h.member, h.kind, h.c, h.vseq, h.err))
	}
	return out
}

func statesOf(ctx context.Context, cl *cluster) []string {
	var out []string
	for i, m := range cl.members {
		if !m.alive {
			continue
		}
		st, err := content(ctx, m)
		out = append(out, fmt.Sprintf("p%d: [%s] err=%v journal=%d", i, fmtState(st), err, len(journalOf(m))))
	}
	return out
}

func dumpStates(ctx context.Context, c *fw.Ctx, cl *cluster) {
	c.Journal("states: %v", statesOf(ctx, cl))
}

// checkJournals: order compatibility, acks in a journal before they returned,
// content = fold of journal, hand-off to the tracker.
func checkJournals(ctx context.Context, c *fw.Ctx, cl *cluster, hist []opRec, acked map[string]bool, phase string) {
	journals := map[int][]entry{}
	for i, m := range cl.members {
		if m.alive {
			journals[i] = journalOf(m)
		}
	}
	// every stored entry is the pin that was submitted under its write id
	want := map[string]*api.Pin{}
	for _, h := range hist {
		if h.want != nil {
			want[h.vseq] = h.want
		}
	}
	for i, es := range journals {
		for _, e := range es {
			if e.op != "put" || e.pin == nil {
				continue
			}
			w := want[e.vseq]
			if w == nil {
				continue
			}
			c.Eval("stored-vs-submitted/" + e.kind)
			if d := mon.DeepEq(w, e.pin, nil); d != "" {
				field := d
				if k := strings.Index(d, ":"); k > 0 {
					field = d[:k]
				}
				c.Violation("C01/stored-pin-differs-from-submitted/"+e.kind+"/"+field,
					fmt.Sprintf("p%d stored write %s differently from what was submitted: %s", i, e.vseq, d), nil)
			}
		}
	}
	// order compatibility of write ids between every pair
	pos := map[int]map[string]int{}
	for i, es := range journals {
		pos[i] = map[string]int{}
		for k, e := range es {
			if e.op == "put" && e.kind == "apply" && e.vseq != "" {
				if _, ok := pos[i][e.vseq]; !ok {
					pos[i][e.vseq] = k
				}
			}
		}
	}
	for i := range journals {
		for j := range journals {
			if i >= j {
				continue
			}
			type pr struct{ a, b int }
			var common []pr
			for v, pi := range pos[i] {
				if pj, ok := pos[j][v]; ok {
					common = append(common, pr{pi, pj})
				}
			}
			sort.Slice(common, func(x, y int) bool { return common[x].a < common[y].a })
			c.Eval(fmt.Sprintf("%s/order-compatible/common>%d", phase, bucket(len(common))))
			for k := 1; k < len(common); k++ {
				if common[k].b < common[k-1].b {
					c.Violation("C01/replicas-apply-in-different-order", fmt.Sprintf("p%d and p%d applied two writes in opposite orders", i, j), nil)
					break
				}
			}
		}
	}
	// acks
	for _, h := range hist {
		if h.err != nil || h.kind != "pin" {
			continue
		}
		found := false
		for _, es := range journals {
			for _, e := range es {
				if e.vseq == h.vseq && e.at <= h.ret {
					found = true
				}
			}
		}
		c.Eval(phase + "/ack-in-journal")
		if !found {
			c.Violation("C01/acknowledged-write-in-no-journal", fmt.Sprintf("write %s was acknowledged but no live replica had applied it when the acknowledgement returned", h.vseq), nil)
			break
		}
	}
	// content = fold(journal); tracker hand-off
	for i, es := range journals {
		got, err := content(ctx, cl.members[i])
		if err != nil {
			continue
		}
		c.Eval(phase + "/content-is-fold-of-journal")
		if fmtState(got) != fmtState(fold(es)) {
			c.Violation("C01/content-differs-from-fold-of-journal", fmt.Sprintf("p%d holds [%s], its journal folds to [%s]", i, fmtState(got), fmtState(fold(es))), nil)
		}
		// hand-off (arrival is asynchronous, and a write whose submitter gave up may still be
		// applied: journal and tracker log are re-read together until they agree)
		tr := cl.members[i].peer.Tracker
		var wantTrack, gotTrack map[string]int
		var wantUntrack, gotUn int
		okHand := waitUntil(8*time.Second, func() bool {
			wantTrack, gotTrack = map[string]int{}, map[string]int{}
			wantUntrack, gotUn = 0, 0
			for _, e := range journalOf(cl.members[i]) {
				if e.kind != "apply" {
					continue
				}
				if e.op == "put" && e.pin != nil {
					wantTrack[handoffKey(e.pin, e.cidK)]++
				} else if e.op == "delete" {
					wantUntrack++
				}
			}
			for _, tc := range tr.Calls() {
				if tc.Op == "track" {
					gotTrack[handoffKey(tc.Pin, "")]++
				} else {
					gotUn++
				}
			}
			return sameCounts(wantTrack, gotTrack) && gotUn == wantUntrack
		})
		c.Eval(phase + "/tracker-handoff")
		if !okHand {
			c.Violation("C01/tracker-handoff-differs-from-applied-changes",
				fmt.Sprintf("p%d applied %d pins / %d unpins, its tracker received %d track / %d untrack calls (or with other cid/type/depth/allocations)", i, sum(wantTrack), wantUntrack, sum(gotTrack), gotUn), diffCounts(wantTrack, gotTrack))
		}
	}
}

func handoffKey(p *api.Pin, _ string) string {
	return fmt.Sprintf("%s|%s|%s|%d|%s", p.Metadata["vseq"], p.Cid.String(), p.Type, p.MaxDepth, strings.Join(gen.SortedPeers(p.Allocations), ","))
}

func sameCounts(a, b map[string]int) bool {
	if len(a) != len(b) {
		return false
	}
	for k, v := range a {
		if b[k] != v {
			return false
		}
	}
	return true
}

func sum(m map[string]int) int {
	n := 0
	for _, v := range m {
		n += v
	}
	return n
}

func diffCounts(a, b map[string]int) []string {
	var out []string
	for k, v := range a {
		if b[k] != v {
			out = append(out, fmt.Sprintf("applied x%d, tracked x%d: %s", v, b[k], k))
		}
	}
	for k, v := range b {
		if _, ok := a[k]; !ok {
			out = append(out, fmt.Sprintf("applied x0, tracked x%d: %s", v, k))
		}
	}
	if len(out) > 10 {
		out = out[:10]
	}
	return out
}

// checkDurable: after the fault, every live replica holds, for each CID, the
// latest acknowledged write unless a later (or concurrent/unacknowledged)
// operation on that CID may have replaced it.
func checkDurable(ctx context.Context, c *fw.Ctx, cl *cluster, hist []opRec, phase string) {
	// per cid: the acknowledged pin with the latest call time, and whether anything on that cid
	// was still running or started after it
	type last struct {
		vseq string
		call int64
		ret  int64
	}
	latest := map[int]last{}
	for _, h := range hist {
		if h.kind == "pin" && h.err == nil {
			if l, ok := latest[h.c]; !ok || h.call > l.call {
				latest[h.c] = last{h.vseq, h.call, h.ret}
			}
		}
	}
	for ci, l := range latest {
		overlapped := false
		for _, h := range hist {
			if h.c == ci && h.vseq != l.vseq && (h.ret > l.call || h.err != nil) {
				overlapped = true
			}
		}
		if overlapped {
			continue
		}
		for i, m := range cl.members {
			if !m.alive {
				continue
			}
			st, err := content(ctx, m)
			if err != nil {
				continue
			}
			c.Eval(phase + "/acked-last-write-present")
			if st[gen.UCid(ci).KeyString()] != l.vseq {
				c.Violation("C01/"+phase+"/acknowledged-write-lost", fmt.Sprintf("p%d: c%d should hold the acknowledged write %s (nothing later touched it), holds %q", i, ci, l.vseq, st[gen.UCid(ci).KeyString()]), nil)
				return
			}
		}
	}
}

var _ = mon.DeepEq
var _ = cid.Undef
