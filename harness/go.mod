module verif

go 1.21

toolchain go1.23.5

require (
	github.com/anishathalye/porcupine v1.3.0
	github.com/hashicorp/raft v1.1.1
	github.com/ipfs/go-block-format v0.0.3
	github.com/ipfs/go-blockservice v0.1.4
	github.com/ipfs/go-cid v0.0.7
	github.com/ipfs/go-datastore v0.4.5
	github.com/ipfs/go-ipfs-blockstore v1.0.4
	github.com/ipfs/go-ipfs-chunker v0.0.5
	github.com/ipfs/go-ipfs-ds-help v1.0.0
	github.com/ipfs/go-ipfs-exchange-offline v0.0.1
	github.com/ipfs/go-ipfs-files v0.0.8
	github.com/ipfs/go-ipld-cbor v0.0.5
	github.com/ipfs/go-ipld-format v0.2.0
	github.com/ipfs/go-ipns v0.1.0
	github.com/ipfs/go-merkledag v0.3.2
	github.com/ipfs/go-unixfs v0.2.6
	github.com/ipfs/ipfs-cluster v0.0.0
	github.com/ipld/go-car v0.3.1
	github.com/libp2p/go-libp2p v0.14.3
	github.com/libp2p/go-libp2p-core v0.8.5
	github.com/libp2p/go-libp2p-gorpc v0.1.3
	github.com/libp2p/go-libp2p-kad-dht v0.12.2
	github.com/libp2p/go-libp2p-noise v0.2.0
	github.com/libp2p/go-libp2p-pubsub v0.4.1
	github.com/libp2p/go-libp2p-record v0.1.3
	github.com/libp2p/go-libp2p-tls v0.1.3
	github.com/multiformats/go-multiaddr v0.3.3
	github.com/multiformats/go-multihash v0.0.15
	github.com/ugorji/go/codec v1.2.6
	go.etcd.io/gofail v0.2.0
)

require (
	contrib.go.opencensus.io/exporter/jaeger v0.2.1 // indirect
	contrib.go.opencensus.io/exporter/prometheus v0.3.0 // indirect
	github.com/AndreasBriese/bbloom v0.0.0-20190825152654-46b345b51c96 // indirect
	github.com/Stebalien/go-bitfield v0.0.1 // indirect
	github.com/alecthomas/template v0.0.0-20190718012654-fb15b899a751 // indirect
	github.com/alecthomas/units v0.0.0-20190924025748-f65c72e2690d // indirect
	github.com/armon/go-metrics v0.0.0-20190430140413-ec5e00d3c878 // indirect
	github.com/benbjohnson/clock v1.0.3 // indirect
	github.com/beorn7/perks v1.0.1 // indirect
	github.com/blang/semver v3.5.1+incompatible // indirect
	github.com/boltdb/bolt v1.3.1 // indirect
	github.com/btcsuite/btcd v0.21.0-beta // indirect
	github.com/cenkalti/backoff v2.2.1+incompatible // indirect
	github.com/cespare/xxhash v1.1.0 // indirect
	github.com/cespare/xxhash/v2 v2.1.1 // indirect
	github.com/crackcomm/go-gitignore v0.0.0-20170627025303-887ab5e44cc3 // indirect
	github.com/cskr/pubsub v1.0.2 // indirect
	github.com/davidlazar/go-crypto v0.0.0-20200604182044-b73af7476f6c // indirect
	github.com/dgraph-io/badger v1.6.2 // indirect
	github.com/dgraph-io/ristretto v0.0.2 // indirect
	github.com/dustin/go-humanize v1.0.0 // indirect
	github.com/fatih/color v1.7.0 // indirect
	github.com/felixge/httpsnoop v1.0.1 // indirect
	github.com/flynn/noise v1.0.0 // indirect
	github.com/gogo/protobuf v1.3.2 // indirect
	github.com/golang/groupcache v0.0.0-20200121045136-8c9f03a8e57e // indirect
	github.com/golang/protobuf v1.5.2 // indirect
	github.com/golang/snappy v0.0.0-20180518054509-2e65f85255db // indirect
	github.com/google/gopacket v1.1.19 // indirect
	github.com/google/uuid v1.2.0 // indirect
	github.com/gorilla/handlers v1.5.1 // indirect
	github.com/gorilla/mux v1.8.0 // indirect
	github.com/gorilla/websocket v1.4.2 // indirect
	github.com/hashicorp/errwrap v1.0.0 // indirect
	github.com/hashicorp/go-hclog v0.16.1 // indirect
	github.com/hashicorp/go-immutable-radix v1.0.0 // indirect
	github.com/hashicorp/go-msgpack v0.5.5 // indirect
	github.com/hashicorp/go-multierror v1.1.1 // indirect
	github.com/hashicorp/golang-lru v0.5.4 // indirect
	github.com/hashicorp/raft-boltdb v0.0.0-20190605210249-ef2e128ed477 // indirect
	github.com/hsanjuan/ipfs-lite v1.1.21 // indirect
	github.com/huin/goupnp v1.0.0 // indirect
	github.com/imdario/mergo v0.3.12 // indirect
	github.com/ipfs/bbloom v0.0.4 // indirect
	github.com/ipfs/go-bitswap v0.3.4 // indirect
	github.com/ipfs/go-cidutil v0.0.2 // indirect
	github.com/ipfs/go-ds-badger v0.2.7 // indirect
	github.com/ipfs/go-ds-crdt v0.1.21 // indirect
	github.com/ipfs/go-ds-leveldb v0.4.2 // indirect
	github.com/ipfs/go-ipfs-api v0.2.0 // indirect
	github.com/ipfs/go-ipfs-cmds v0.6.0 // indirect
	github.com/ipfs/go-ipfs-config v0.14.0 // indirect
	github.com/ipfs/go-ipfs-delay v0.0.1 // indirect
	github.com/ipfs/go-ipfs-exchange-interface v0.0.1 // indirect
	github.com/ipfs/go-ipfs-pinner v0.1.1 // indirect
	github.com/ipfs/go-ipfs-posinfo v0.0.1 // indirect
	github.com/ipfs/go-ipfs-pq v0.0.2 // indirect
	github.com/ipfs/go-ipfs-provider v0.5.1 // indirect
	github.com/ipfs/go-ipfs-util v0.0.2 // indirect
	github.com/ipfs/go-log v1.0.5 // indirect
	github.com/ipfs/go-log/v2 v2.2.0 // indirect
	github.com/ipfs/go-metrics-interface v0.0.1 // indirect
	github.com/ipfs/go-mfs v0.1.3-0.20210507195338-96fbfa122164 // indirect
	github.com/ipfs/go-path v0.0.9 // indirect
	github.com/ipfs/go-peertaskqueue v0.2.0 // indirect
	github.com/ipfs/go-verifcid v0.0.1 // indirect
	github.com/ipfs/interface-go-ipfs-core v0.4.0 // indirect
	github.com/ipld/go-codec-dagpb v1.2.0 // indirect
	github.com/ipld/go-ipld-prime v0.9.0 // indirect
	github.com/jackpal/go-nat-pmp v1.0.2 // indirect
	github.com/jbenet/go-temp-err-catcher v0.1.0 // indirect
	github.com/jbenet/goprocess v0.1.4 // indirect
	github.com/kelseyhightower/envconfig v1.4.0 // indirect
	github.com/klauspost/cpuid/v2 v2.0.4 // indirect
	github.com/koron/go-ssdp v0.0.0-20191105050749-2e1c40ed0b5d // indirect
	github.com/lanzafame/go-libp2p-ocgorpc v0.1.1 // indirect
	github.com/libp2p/go-addr-util v0.0.2 // indirect
	github.com/libp2p/go-buffer-pool v0.0.2 // indirect
	github.com/libp2p/go-cidranger v1.1.0 // indirect
	github.com/libp2p/go-conn-security-multistream v0.2.1 // indirect
	github.com/libp2p/go-eventbus v0.2.1 // indirect
	github.com/libp2p/go-flow-metrics v0.0.3 // indirect
	github.com/libp2p/go-libp2p-asn-util v0.0.0-20200825225859-85005c6cf052 // indirect
	github.com/libp2p/go-libp2p-autonat v0.4.2 // indirect
	github.com/libp2p/go-libp2p-blankhost v0.2.0 // indirect
	github.com/libp2p/go-libp2p-circuit v0.4.0 // indirect
	github.com/libp2p/go-libp2p-connmgr v0.2.4 // indirect
	github.com/libp2p/go-libp2p-consensus v0.0.1 // indirect
	github.com/libp2p/go-libp2p-discovery v0.5.0 // indirect
	github.com/libp2p/go-libp2p-gostream v0.3.1 // indirect
	github.com/libp2p/go-libp2p-http v0.2.1 // indirect
	github.com/libp2p/go-libp2p-kbucket v0.4.7 // indirect
	github.com/libp2p/go-libp2p-loggables v0.1.0 // indirect
	github.com/libp2p/go-libp2p-mplex v0.4.1 // indirect
	github.com/libp2p/go-libp2p-nat v0.0.6 // indirect
	github.com/libp2p/go-libp2p-peerstore v0.2.7 // indirect
	github.com/libp2p/go-libp2p-pnet v0.2.0 // indirect
	github.com/libp2p/go-libp2p-quic-transport v0.11.1 // indirect
	github.com/libp2p/go-libp2p-raft v0.1.7 // indirect
	github.com/libp2p/go-libp2p-routing-helpers v0.2.3 // indirect
	github.com/libp2p/go-libp2p-swarm v0.5.0 // indirect
	github.com/libp2p/go-libp2p-transport-upgrader v0.4.2 // indirect
	github.com/libp2p/go-libp2p-yamux v0.5.4 // indirect
	github.com/libp2p/go-maddr-filter v0.1.0 // indirect
	github.com/libp2p/go-mplex v0.3.0 // indirect
	github.com/libp2p/go-msgio v0.0.6 // indirect
	github.com/libp2p/go-nat v0.0.5 // indirect
	github.com/libp2p/go-netroute v0.1.6 // indirect
	github.com/libp2p/go-reuseport v0.0.2 // indirect
	github.com/libp2p/go-reuseport-transport v0.0.4 // indirect
	github.com/libp2p/go-stream-muxer-multistream v0.3.0 // indirect
	github.com/libp2p/go-tcp-transport v0.2.3 // indirect
	github.com/libp2p/go-ws-transport v0.4.0 // indirect
	github.com/libp2p/go-yamux/v2 v2.2.0 // indirect
	github.com/marten-seemann/tcp v0.0.0-20210406111302-dfbc87cc63fd // indirect
	github.com/mattn/go-colorable v0.1.4 // indirect
	github.com/mattn/go-isatty v0.0.10 // indirect
	github.com/matttproud/golang_protobuf_extensions v1.0.1 // indirect
	github.com/miekg/dns v1.1.41 // indirect
	github.com/mikioh/tcpinfo v0.0.0-20190314235526-30a79bb1804b // indirect
	github.com/mikioh/tcpopt v0.0.0-20190314235656-172688c1accc // indirect
	github.com/minio/blake2b-simd v0.0.0-20160723061019-3f5f724cb5b1 // indirect
	github.com/minio/sha256-simd v1.0.0 // indirect
	github.com/mitchellh/go-homedir v1.1.0 // indirect
	github.com/mr-tron/base58 v1.2.0 // indirect
	github.com/multiformats/go-base32 v0.0.3 // indirect
	github.com/multiformats/go-base36 v0.1.0 // indirect
	github.com/multiformats/go-multiaddr-dns v0.3.1 // indirect
	github.com/multiformats/go-multiaddr-fmt v0.1.0 // indirect
	github.com/multiformats/go-multiaddr-net v0.2.0 // indirect
	github.com/multiformats/go-multibase v0.0.3 // indirect
	github.com/multiformats/go-multicodec v0.2.0 // indirect
	github.com/multiformats/go-multistream v0.2.2 // indirect
	github.com/multiformats/go-varint v0.0.6 // indirect
	github.com/opentracing/opentracing-go v1.2.0 // indirect
	github.com/pkg/errors v0.9.1 // indirect
	github.com/polydawn/refmt v0.0.0-20201211092308-30ac6d18308e // indirect
	github.com/prometheus/client_golang v1.11.0 // indirect
	github.com/prometheus/client_model v0.2.0 // indirect
	github.com/prometheus/common v0.26.0 // indirect
	github.com/prometheus/procfs v0.6.0 // indirect
	github.com/prometheus/statsd_exporter v0.20.0 // indirect
	github.com/rs/cors v1.8.0 // indirect
	github.com/sirupsen/logrus v1.6.0 // indirect
	github.com/spaolacci/murmur3 v1.1.0 // indirect
	github.com/syndtr/goleveldb v1.0.0 // indirect
	github.com/tv42/httpunix v0.0.0-20150427012821-b75d8614f926 // indirect
	github.com/uber/jaeger-client-go v2.25.0+incompatible // indirect
	github.com/whyrusleeping/cbor-gen v0.0.0-20200123233031-1cdf64d27158 // indirect
	github.com/whyrusleeping/chunker v0.0.0-20181014151217-fe64bd25879f // indirect
	github.com/whyrusleeping/go-keyspace v0.0.0-20160322163242-5b898ac5add1 // indirect
	github.com/whyrusleeping/mdns v0.0.0-20190826153040-b9b60ed33aa9 // indirect
	github.com/whyrusleeping/multiaddr-filter v0.0.0-20160516205228-e903e4adabd7 // indirect
	github.com/whyrusleeping/tar-utils v0.0.0-20180509141711-8c6c8ba81d5c // indirect
	github.com/whyrusleeping/timecache v0.0.0-20160911033111-cfcb2f1abfee // indirect
	go.opencensus.io v0.23.0 // indirect
	go.uber.org/atomic v1.7.0 // indirect
	go.uber.org/multierr v1.7.0 // indirect
	go.uber.org/zap v1.16.0 // indirect
	golang.org/x/crypto v0.0.0-20210616213533-5ff15b29337e // indirect
	golang.org/x/net v0.0.0-20210423184538-5f58ad60dda6 // indirect
	golang.org/x/sync v0.0.0-20210220032951-036812b2e83c // indirect
	golang.org/x/sys v0.0.0-20210615035016-665e8c7367d1 // indirect
	golang.org/x/text v0.3.6 // indirect
	golang.org/x/xerrors v0.0.0-20200804184101-5ec99f83aff1 // indirect
	gonum.org/v1/gonum v0.0.0-20190926113837-94b2bbd8ac13 // indirect
	google.golang.org/api v0.29.0 // indirect
	google.golang.org/genproto v0.0.0-20200526211855-cb27e3aa2013 // indirect
	google.golang.org/grpc v1.33.2 // indirect
	google.golang.org/protobuf v1.27.1 // indirect
	gopkg.in/alecthomas/kingpin.v2 v2.2.6 // indirect
	gopkg.in/yaml.v2 v2.3.0 // indirect
)

replace github.com/ipfs/ipfs-cluster => /repo

replace github.com/libp2p/go-libp2p-quic-transport => ../third_party/quicstub
