// Package c03: allocations honour the replication factors and use only healthy peers.
package c03

import (
	"context"
	"fmt"
	"sort"
	"strings"
	"time"

	"verif/fw"
	"verif/gen"
	"verif/mon"
	"verif/sim"

	ds "github.com/ipfs/go-datastore"
	ipfscluster "github.com/ipfs/ipfs-cluster"
	"github.com/ipfs/ipfs-cluster/api"
	host "github.com/libp2p/go-libp2p-core/host"
	peer "github.com/libp2p/go-libp2p-core/peer"
	dual "github.com/libp2p/go-libp2p-kad-dht/dual"
	pubsub "github.com/libp2p/go-libp2p-pubsub"
)

func init() {
	fw.Register(&fw.Prop{
		ID:    "C03",
		Level: "exploration",
		Rule: "A real Cluster (real allocate.go, real ascend/descend allocators, real pubsubmon.Monitor with its peerset filter, model consensus holding the current pin) is asked to allocate through Cluster.Pin and through the Cluster.BlockAllocate RPC. " +
			"Per case the generator draws: a peerset of 1-8 members (plus non-members that also report metrics), per peer a metric state in {absent, valid numeric from a small range incl. 0 and 2^64-1 to force ties, expired (-1h), invalid, non-numeric}, " +
			"a current allocation (any subset, incl. holders that left the peerset, or no existing pin), a priority list (with duplicates and unhealthy peers), a replication-factor pair from {-1,0,1..9}^2 incl. invalid pairs and cluster defaults, and the strategy. " +
			"The oracle is a predicate computed from the generated inputs only (mon.CheckAlloc): no duplicates; added peers are members with valid unexpired numeric metrics and not excluded; healthy current holders kept unless more than max (then a subset of exactly max); " +
			"min <= healthy holders <= max; requested peers first, then the strategy's best (ties free); fewer than min reachable => error and pinset unchanged; -1 => empty list; invalid pairs => error and unchanged. " +
			"distinct_nontrivial counts distinct (path, branch of the predicate, strategy, |current| class, priority present, metric-kind mix) keys.",
		Assumptions: []string{
			"metric expiries are one hour from now: no metric changes class during a call",
			"the exclusion list is exercised through the failure/removal path in C10 with the same predicate",
		},
		Cases: func(tier string) int {
			if tier == "thorough" {
				return 400000
			}
			return 40000
		},
		MinEvals: func(tier string) int {
			if tier == "thorough" {
				return 300000
			}
			return 30000
		},
		ChildSetup:    setup,
		ChildTeardown: teardown,
		Run:           run,
	})
}

type env struct {
	node   *sim.Node
	shared *sim.SharedState
	inf    *sim.StubInformer
	alloc  *sim.SwitchAllocator
}

func setup(c *fw.Ctx) {
	ctx := context.Background()
	shared := sim.NewSharedState(nil)
	inf := sim.NewStubInformer("m0")
	alloc := &sim.SwitchAllocator{}
	node, err := sim.NewNode(ctx, sim.NodeOpts{
		Key:     gen.Key(23),
		RealMon: true,
		Consensus: func(h host.Host, _ *pubsub.PubSub, _ *dual.DHT, _ ds.Datastore, _ *ipfscluster.Config) (ipfscluster.Consensus, error) {
			return sim.NewModelConsensus(h.ID(), shared), nil
		},
		Alloc:     alloc,
		Informers: []ipfscluster.Informer{inf},
		Tune: func(cfg *ipfscluster.Config) {
			cfg.ReplicationFactorMin = 2
			cfg.ReplicationFactorMax = 3
		},
	})
	if err != nil {
		fmt.Println("C03 setup:", err)
		return
	}
	c.Store["env"] = &env{node, shared, inf, alloc}
}

func teardown(c *fw.Ctx) {
	if e, ok := c.Store["env"].(*env); ok {
		e.node.Close()
	}
}

func pidx(ps []peer.ID) string {
	var s []string
	for _, p := range ps {
		s = append(s, fmt.Sprint(gen.PeerIndex(p)))
	}
	return "[" + strings.Join(s, ",") + "]"
}

func run(c *fw.Ctx, idx int) {
	e, ok := c.Store["env"].(*env)
	if !ok {
		c.Inconclusive("cluster not built")
		return
	}
	ctx := context.Background()
	r := c.Rand("main")
	if idx%16 == 15 {
		presetCase(ctx, c, e, r, idx)
		return
	}
	name := fmt.Sprintf("m%d", idx)
	e.inf.SetName(name)
	e.alloc.Descend = r.Bool()

	nUniverse := r.Range(1, 10) // peers that exist at all (pool prefix)
	big := r.Chance(1, 8)       // a cluster of a size where sorting algorithms change their ways
	if big {
		nUniverse = r.Range(13, 23) // the peer pool has 24 identities; one beyond the universe is used as a stranger
	}
	in := &mon.AllocInput{Members: map[peer.ID]bool{}, Metrics: map[peer.ID]mon.MetricState{}, Excluded: map[peer.ID]bool{}, Descend: e.alloc.Descend}
	var members []peer.ID
	for i := 0; i < nUniverse; i++ {
		if (i < 8 || big) && !r.Chance(1, 6) {
			in.Members[gen.Peer(i)] = true
			members = append(members, gen.Peer(i))
		}
	}
	e.shared.Reset(members)
	kinds := map[string]bool{}
	valueRange := []uint64{0, 1, 2, 3, 5, 5, 7, 1000, 18446744073709551615}
	for i := 0; i < nUniverse; i++ {
		p := gen.Peer(i)
		var ms mon.MetricState
		switch r.Intn(10) {
		case 0:
			ms.Kind = "absent"
		case 1:
			ms.Kind = "expired"
		case 2:
			ms.Kind = "invalid"
		case 3:
			ms.Kind = "nonnumeric"
		default:
			ms.Kind = "valid"
			ms.Value = valueRange[r.Intn(len(valueRange))]
			if big && idx%2 == 0 {
				ms.Value = uint64(r.Intn(100000)) // hardly any ties: the strategy's order is fully determined
			}
		}
		in.Metrics[p] = ms
		kinds[ms.Kind] = true
		if ms.Kind == "absent" {
			continue
		}
		m := &api.Metric{Name: name, Peer: p, Valid: ms.Kind != "invalid", Value: fmt.Sprint(ms.Value)}
		if ms.Kind == "nonnumeric" {
			m.Value = r.Pick("abc", "", "-1", "1.5", "0x10")
		}
		if ms.Kind == "expired" {
			m.Expire = time.Now().Add(-time.Hour).UnixNano()
		} else {
			m.Expire = time.Now().Add(time.Hour).UnixNano()
		}
		if (ms.Kind == "invalid" || ms.Kind == "nonnumeric") && r.Bool() {
			// an older healthy sample followed by the unhealthy one: latest wins
			old := *m
			old.Valid = true
			old.Value = fmt.Sprint(valueRange[r.Intn(len(valueRange))])
			e.node.Monitor.LogMetric(ctx, &old)
		}
		if ms.Kind == "expired" && r.Bool() {
			// an older valid sample followed by the expired one: latest wins
			old := *m
			old.Expire = time.Now().Add(time.Hour).UnixNano()
			e.node.Monitor.LogMetric(ctx, &old)
		}
		e.node.Monitor.LogMetric(ctx, m)
	}
	// factors
	pick := func() int { return []int{-1, 0, 1, 1, 2, 2, 3, 3, 4, 5, 6, 9}[r.Intn(12)] }
	reqMin, reqMax := pick(), pick()
	if r.Chance(2, 3) && reqMin > 0 && reqMax > 0 && reqMin > reqMax {
		reqMin, reqMax = reqMax, reqMin
	}
	in.Min, in.Max = reqMin, reqMax
	if in.Min == 0 {
		in.Min = 2 // cluster default
	}
	if in.Max == 0 {
		in.Max = 3
	}
	// priority list
	if r.Chance(1, 2) {
		for i := r.Range(1, 4); i > 0; i-- {
			in.Priority = append(in.Priority, gen.Peer(r.Intn(nUniverse)))
		}
	}
	// existing pin
	target := gen.UCid(idx % 7)
	hasExisting := r.Chance(2, 3)
	var existing *api.Pin
	if hasExisting {
		existing = api.PinCid(target)
		existing.Name = "old"
		existing.ReplicationFactorMin, existing.ReplicationFactorMax = 1, 9
		perm := r.Perm(nUniverse + 1)
		for i := 0; i < r.Intn(nUniverse+1); i++ {
			existing.Allocations = append(existing.Allocations, gen.Peer(perm[i]))
		}
		if len(existing.Allocations) == 0 && r.Bool() {
			existing.ReplicationFactorMin, existing.ReplicationFactorMax = -1, -1
		}
		in.Current = existing.Allocations
		if err := e.shared.St.Add(ctx, existing); err != nil {
			c.Inconclusive("seed: " + err.Error())
			return
		}
	}
	before := snapshot(ctx, e)
	viaBlockAllocate := r.Chance(1, 3) && in.Min > 0
	var result []peer.ID
	var err error
	path := "pin"
	c.Journal("case %d path=%v members=%s current=%s prio=%s min=%d max=%d descend=%v", idx, viaBlockAllocate, pidx(members), pidx(in.Current), pidx(in.Priority), reqMin, reqMax, in.Descend)
	if viaBlockAllocate {
		path = "blockallocate"
		arg := api.PinCid(target)
		arg.ReplicationFactorMin, arg.ReplicationFactorMax = reqMin, reqMax
		arg.UserAllocations = in.Priority
		arg.Name = "new"
		err = e.node.Client.CallContext(ctx, "", "Cluster", "BlockAllocate", arg, &result)
	} else {
		opts := api.PinOptions{ReplicationFactorMin: reqMin, ReplicationFactorMax: reqMax, Name: "new", UserAllocations: in.Priority}
		var pin *api.Pin
		pin, err = e.node.Cluster.Pin(ctx, target, opts)
		if err == nil {
			result = pin.Allocations
			// the stored entry carries the same allocation
			st, gerr := e.shared.St.Get(ctx, target)
			if gerr != nil {
				c.Violation("C03/pin/not-stored", "Pin succeeded but the CID is not in the pinset", nil)
			} else if strings.Join(gen.SortedPeers(st.Allocations), ",") != strings.Join(gen.SortedPeers(result), ",") {
				c.Violation("C03/pin/stored-allocations-differ", "stored allocations differ from the returned ones", nil)
			}
		}
	}
	key, msg, situation := mon.CheckAlloc(in, result, err)
	var ks []string
	for k := range kinds {
		ks = append(ks, k[:2])
	}
	sort.Strings(ks)
	curClass := "none"
	if hasExisting {
		curClass = fmt.Sprintf("cur%d", min(len(in.Current), 3))
	}
	c.Eval(fmt.Sprintf("%s/%s/desc=%v/%s/prio=%v/%s", path, situation, in.Descend, curClass, len(in.Priority) > 0, strings.Join(ks, "")))
	detail := map[string]interface{}{"path": path, "members": pidx(members), "metrics": fmtMetrics(in, nUniverse), "current": pidx(in.Current),
		"priority": pidx(in.Priority), "min": reqMin, "max": reqMax, "descend": in.Descend, "result": pidx(result), "error": fmt.Sprint(err)}
	if key != "" {
		c.Violation("C03/"+path+"/"+key, msg, detail)
	}
	if err != nil || viaBlockAllocate {
		after := snapshot(ctx, e)
		if before != after {
			c.Violation("C03/"+path+"/pinset-changed-on-refusal", "the pinset changed although the request failed (or only asked for an allocation)", detail)
		}
	}
	if idx%997 == 0 {
		c.Sample(detail)
	}
}

func min(a, b int) int {
	if a < b {
		return a
	}
	return b
}

func fmtMetrics(in *mon.AllocInput, n int) string {
	var s []string
	for i := 0; i < n; i++ {
		ms := in.Metrics[gen.Peer(i)]
		t := fmt.Sprintf("%d:%s", i, ms.Kind)
		if ms.Kind == "valid" {
			t += fmt.Sprintf("=%d", ms.Value)
		}
		s = append(s, t)
	}
	return strings.Join(s, " ")
}

func snapshot(ctx context.Context, e *env) string {
	pins, _ := e.shared.St.List(ctx)
	var s []string
	for _, p := range pins {
		b, _ := p.ProtoMarshal()
		s = append(s, p.Cid.String()+"="+string(b))
	}
	sort.Strings(s)
	return strings.Join(s, "|")
}

// presetCase: the Cluster.Pin endpoint as the adders use it - a whole pin record
// whose allocations were chosen before (BlockAllocate). Whenever the factors
// in effect (the request's, or the cluster defaults where the request leaves
// them at 0) are -1, the pin is for everybody: the stored and the returned
// record carry -1/-1 and an empty allocation list, whatever was preset.
func presetCase(ctx context.Context, c *fw.Ctx, e *env, r *fw.Rand, idx int) {
	var members []peer.ID
	for i := 0; i < 6; i++ {
		members = append(members, gen.Peer(i))
	}
	e.shared.Reset(members)
	defMin, defMax := e.node.Cfg.ReplicationFactorMin, e.node.Cfg.ReplicationFactorMax
	defer func() { e.node.Cfg.ReplicationFactorMin, e.node.Cfg.ReplicationFactorMax = defMin, defMax }()
	clusterDefault := r.Pick("-1", "2-3")
	if clusterDefault == "-1" {
		e.node.Cfg.ReplicationFactorMin, e.node.Cfg.ReplicationFactorMax = -1, -1
	}
	req := r.Pick("0", "-1")
	if clusterDefault != "-1" {
		req = "-1"
	}
	target := gen.UCid(idx % 7)
	arg := api.PinCid(target)
	arg.Name = "preset"
	if req == "-1" {
		arg.ReplicationFactorMin, arg.ReplicationFactorMax = -1, -1
	}
	perm := r.Perm(6)
	for i := r.Range(1, 4); i > 0; i-- {
		arg.Allocations = append(arg.Allocations, gen.Peer(perm[i]))
	}
	if r.Bool() {
		// something is stored already
		old := api.PinCid(target)
		old.Name = "old"
		old.ReplicationFactorMin, old.ReplicationFactorMax = 1, 2
		old.Allocations = []peer.ID{gen.Peer(perm[0])}
		e.shared.St.Add(ctx, old)
	}
	c.Journal("case %d preset default=%s request=%s preset=%s", idx, clusterDefault, req, pidx(arg.Allocations))
	var out api.Pin
	err := e.node.Client.CallContext(ctx, "", "Cluster", "Pin", arg, &out)
	c.Eval(fmt.Sprintf("pin-preset/default=%s/request=%s/err=%v", clusterDefault, req, err != nil))
	if err != nil {
		return
	}
	st, gerr := e.shared.St.Get(ctx, target)
	if gerr != nil {
		c.Violation("C03/pin-preset/not-stored", "Pin succeeded but the CID is not in the pinset", nil)
		return
	}
	detail := map[string]interface{}{"cluster_default": clusterDefault, "request": req, "preset": pidx(arg.Allocations), "returned": pidx(out.Allocations), "stored": pidx(st.Allocations),
		"stored_factors": fmt.Sprintf("%d/%d", st.ReplicationFactorMin, st.ReplicationFactorMax)}
	if st.ReplicationFactorMin != -1 || st.ReplicationFactorMax != -1 {
		c.Violation("C03/pin-preset/factors-in-effect-not-stored", "the factors in effect are -1/-1, the stored entry says otherwise", detail)
		return
	}
	if len(st.Allocations) != 0 || len(out.Allocations) != 0 {
		c.Violation("C03/pin-preset/everywhere-pin-with-allocations/default="+clusterDefault+"/request="+req, "a pin with replication factor -1 is stored or returned with a non-empty allocation list", detail)
	}
}
