package c06

import (
	"context"
	"errors"
	"fmt"
	"os"
	"path/filepath"
	"sort"
	"strings"
	"sync"
	"time"

	"verif/fw"
	"verif/gen"
	"verif/mon"
	"verif/sim"

	cid "github.com/ipfs/go-cid"
	ipfscluster "github.com/ipfs/ipfs-cluster"
	"github.com/ipfs/ipfs-cluster/api"
	"github.com/ipfs/ipfs-cluster/pintracker/stateless"
	"github.com/ipfs/ipfs-cluster/state"
	host "github.com/libp2p/go-libp2p-core/host"
	peer "github.com/libp2p/go-libp2p-core/peer"
)

// globalCase: the cluster-wide view. Real Raft Cluster peers on real hosts,
// each with the real stateless tracker over its own model daemon. Pins with
// different allocations, some daemons refusing some pins, then one member is
// stopped. From every running member, Status(cid) and StatusAll() must show
// every member exactly once per CID: an allocated member with its own local
// report (or cluster_error when it is unreachable), every other member as
// remote; a CID outside the pinset as unpinned everywhere (and not listed).
func globalCase(c *fw.Ctx, r *fw.Rand, idx int) {
	ctx := context.Background()
	dir := filepath.Join(c.Dir, fmt.Sprintf("global%d", idx))
	os.RemoveAll(dir)
	defer os.RemoveAll(dir)
	n := r.Range(2, 5)
	base := 30
	peers := make([]*sim.NetPeer, n)
	ids := make([]peer.ID, n)
	failOn := map[int]map[string]bool{} // peer -> cid key -> daemon refuses the pin
	for i := 0; i < n; i++ {
		p := &sim.NetPeer{Idx: i, Key: gen.Key(base + i), Dir: filepath.Join(dir, fmt.Sprintf("p%d", i))}
		if err := p.PrepareHost(ctx); err != nil {
			c.Inconclusive("host: " + err.Error())
			return
		}
		peers[i] = p
		ids[i] = p.ID
		failOn[i] = map[string]bool{}
		p.IPFS = sim.NewIPFSModel(p.ID)
	}
	var hs []host.Host
	for _, p := range peers {
		hs = append(hs, p.Host)
	}
	sim.ShareAddrs(hs)
	cids := make([]cid.Cid, 6)
	for k := range cids {
		cids[k] = gen.Cid(66000+idx*10+k, k)
	}
	var fmu sync.Mutex
	for i, p := range peers {
		i := i
		p.IPFS.SetGate(func(call sim.IPFSCall) sim.Decision {
			fmu.Lock()
			defer fmu.Unlock()
			if call.Op == "pin" && failOn[i][call.Cid.KeyString()] {
				return sim.Decision{Err: errors.New("scripted daemon refusal")}
			}
			return sim.Decision{}
		})
	}
	var wg sync.WaitGroup
	errs := make([]error, n)
	for i := range peers {
		wg.Add(1)
		go func(i int) {
			defer wg.Done()
			p := peers[i]
			tcfg := &stateless.Config{}
			tcfg.Default()
			tr := stateless.New(tcfg, p.ID, fmt.Sprintf("p%d", i), func(ctx context.Context) (state.ReadOnly, error) {
				if p.Node == nil {
					return nil, errors.New("not started")
				}
				return p.Node.Consensus.State(ctx)
			})
			errs[i] = sim.StartPeer(ctx, p, sim.NetOpts{Consensus: "raft", Peers: ids, Tracker: tr,
				Tune: func(cfg *ipfscluster.Config) { cfg.Peername = fmt.Sprintf("p%d", i) }})
		}(i)
	}
	wg.Wait()
	alive := map[int]bool{}
	removed := map[int]bool{} // taken out of the peerset (allocations untouched: re-pinning is off)
	defer func() {
		var cw sync.WaitGroup
		for i, p := range peers {
			if alive[i] && p.Node != nil {
				cw.Add(1)
				go func(p *sim.NetPeer) { defer cw.Done(); p.Node.Close() }(p)
			}
		}
		cw.Wait()
	}()
	for i, e := range errs {
		if e != nil {
			c.Inconclusive("start: " + e.Error())
			for j, p := range peers {
				if errs[j] == nil && p.Node != nil {
					alive[j] = true
				}
			}
			_ = i
			return
		}
		alive[i] = true
	}
	sim.ConnectAll(ctx, hs)
	var ms []*api.Metric
	for i, id := range ids {
		ms = append(ms, &api.Metric{Name: "freespace", Peer: id, Value: fmt.Sprint(100 + i), Valid: true, Expire: time.Now().Add(time.Hour).UnixNano()})
	}
	for _, p := range peers {
		p.Mon.SetMetrics("freespace", ms)
	}
	// pins: cids[0..4] with varied allocations, cids[5] stays outside the pinset
	var history []string
	for k := 0; k < 5; k++ {
		opts := api.PinOptions{Name: fmt.Sprintf("n%d", k)}
		switch r.Intn(4) {
		case 0:
			opts.ReplicationFactorMin, opts.ReplicationFactorMax = -1, -1
		case 1:
			opts.ReplicationFactorMin, opts.ReplicationFactorMax = 1, 1
		case 2:
			opts.ReplicationFactorMin, opts.ReplicationFactorMax = 1, 2
		case 3:
			opts.ReplicationFactorMin, opts.ReplicationFactorMax = 1, 1
			opts.UserAllocations = []peer.ID{ids[r.Intn(n)]}
		}
		if r.Intn(3) == 0 {
			f := r.Intn(n)
			fmu.Lock()
			failOn[f][cids[k].KeyString()] = true
			fmu.Unlock()
			history = append(history, fmt.Sprintf("daemon of p%d refuses c%d", f, k))
		}
		at := r.Intn(n)
		_, err := peers[at].Node.Cluster.Pin(ctx, cids[k], opts)
		history = append(history, fmt.Sprintf("pin c%d rf=%d/%d user=%d at p%d err=%v", k, opts.ReplicationFactorMin, opts.ReplicationFactorMax, len(opts.UserAllocations), at, err))
		if err != nil {
			c.Inconclusive("pin: " + err.Error())
			return
		}
	}
	quiesce := func() bool {
		return waitFor(20*time.Second, func() bool {
			// every running member applied the 5 pins and has nothing pending
			for i, p := range peers {
				if !alive[i] {
					continue
				}
				pins, err := p.Node.Cluster.Pins(ctx)
				if err != nil || len(pins) != 5 {
					return false
				}
				for _, pi := range p.Node.Cluster.StatusAllLocal(ctx, api.TrackerStatusUndefined) {
					if class(pi.Status) == "pending" {
						return false
					}
				}
				if p.IPFS.Inflight() > 0 {
					return false
				}
			}
			return true
		})
	}
	idxOf := map[string]int{}
	for i, id := range ids {
		idxOf[peer.Encode(id)] = i
	}
	cidx := map[string]int{}
	for k, ci := range cids {
		cidx[ci.String()] = k
	}
	fail := func(key, msg string, extra interface{}) {
		c.Violation(key, msg, map[string]interface{}{"history": history, "extra": extra})
	}
	judge := func(view string, at int, k int, pm map[string]*api.PinInfoShort, pin *api.Pin, listed bool) {
		// every member exactly once
		var keys []string
		for pk := range pm {
			if j, ok := idxOf[pk]; ok {
				keys = append(keys, fmt.Sprint(j))
			} else {
				keys = append(keys, "?"+pk)
			}
		}
		sort.Strings(keys)
		// members, plus allocated peers that are no longer members (removed without re-pinning)
		var want []string
		for j, id := range ids {
			if !removed[j] {
				want = append(want, fmt.Sprint(j))
				continue
			}
			if pin != nil {
				for _, a := range pin.Allocations {
					if a == id {
						want = append(want, fmt.Sprint(j))
					}
				}
			}
		}
		if view == "statusall" && strings.Join(keys, ",") != strings.Join(want, ",") {
			// the listing asks members only: an allocated peer that was taken out of the
			// peerset is not in it, while Status(cid) reports it (known finding, own key)
			var members []string
			for j := range ids {
				if !removed[j] {
					members = append(members, fmt.Sprint(j))
				}
			}
			if strings.Join(keys, ",") == strings.Join(members, ",") {
				fail("C06/global/statusall/allocated-peer-outside-peerset-not-listed", fmt.Sprintf("at p%d, c%d: the listing shows {%s}; the allocated peers and members are {%s}", at, k, strings.Join(keys, ","), strings.Join(want, ",")), nil)
				return
			}
		}
		if strings.Join(keys, ",") != strings.Join(want, ",") {
			fail("C06/global/"+view+"/members-missing-or-foreign", fmt.Sprintf("at p%d, c%d: the peer map lists {%s}, the members are {%s}", at, k, strings.Join(keys, ","), strings.Join(want, ",")), nil)
			return
		}
		for j, id := range ids {
			e := pm[peer.Encode(id)]
			if e == nil {
				continue
			}
			allocated := false
			if pin != nil {
				if mon.Everywhere(pin) {
					allocated = true
				}
				for _, a := range pin.Allocations {
					if a == id {
						allocated = true
					}
				}
			}
			sit := ""
			wantS := ""
			switch {
			case pin == nil:
				sit, wantS = "not-in-pinset", "unpinned"
			case !allocated:
				sit, wantS = "not-allocated", "remote"
				if !alive[j] {
					sit = "not-allocated-unreachable"
				}
			case !alive[j]:
				sit, wantS = "allocated-unreachable", "cluster_error"
			default:
				own := peers[j].Node.Cluster.StatusLocal(ctx, cids[k])
				sit, wantS = "allocated", own.Status.String()
			}
			c.Eval(fmt.Sprintf("global/%s/%s/%s", view, sit, wantS))
			if e.Status.String() != wantS {
				fail(fmt.Sprintf("C06/global/%s/%s/shown-as-%s-instead-of-%s", view, sit, e.Status, wantS),
					fmt.Sprintf("at p%d, c%d: member p%d (%s) is shown as %s, expected %s", at, k, j, sit, e.Status, wantS), nil)
			}
		}
	}
	checkAll := func(phase string) {
		for at, p := range peers {
			if !alive[at] {
				continue
			}
			stored := map[string]*api.Pin{}
			pins, err := p.Node.Cluster.Pins(ctx)
			if err != nil {
				c.Inconclusive("pins: " + err.Error())
				return
			}
			for _, pin := range pins {
				stored[pin.Cid.String()] = pin
			}
			for k, ci := range cids {
				g, err := p.Node.Cluster.Status(ctx, ci)
				if err != nil {
					fail("C06/global/status/error", fmt.Sprintf("%s: Status(c%d) at p%d: %v", phase, k, at, err), nil)
					continue
				}
				judge("status", at, k, g.PeerMap, stored[ci.String()], true)
			}
			list, err := p.Node.Cluster.StatusAll(ctx, api.TrackerStatusUndefined)
			if err != nil {
				fail("C06/global/statusall/error", fmt.Sprintf("%s: StatusAll at p%d: %v", phase, at, err), nil)
				continue
			}
			seen := map[string]bool{}
			for _, g := range list {
				ks := g.Cid.String()
				if seen[ks] {
					fail("C06/global/statusall/cid-listed-twice", fmt.Sprintf("%s: StatusAll at p%d lists c%d twice", phase, at, cidx[ks]), nil)
				}
				seen[ks] = true
				if stored[ks] == nil {
					fail("C06/global/statusall/lists-cid-outside-pinset", fmt.Sprintf("%s: StatusAll at p%d lists c%d which is not in the pinset", phase, at, cidx[ks]), nil)
					continue
				}
				judge("statusall", at, cidx[ks], g.PeerMap, stored[ks], true)
			}
			for ks := range stored {
				if !seen[ks] {
					fail("C06/global/statusall/pinset-entry-missing", fmt.Sprintf("%s: StatusAll at p%d does not list c%d", phase, at, cidx[ks]), nil)
				}
			}
		}
	}
	if !quiesce() {
		c.Inconclusive("not quiescent within 20 s")
		return
	}
	checkAll("all-up")
	// one member goes away (the others keep a quorum only when n >= 3; reads need none)
	victim := r.Intn(n)
	history = append(history, fmt.Sprintf("p%d stops", victim))
	peers[victim].Node.Close()
	alive[victim] = false
	if n == 1 {
		return
	}
	time.Sleep(300 * time.Millisecond)
	checkAll("one-down")
	// the stopped member is taken out of the peerset while its allocations stay (re-pinning
	// is off by default): still an allocated peer, still unreachable
	if n >= 3 && r.Bool() {
		at := -1
		for i := range peers {
			if alive[i] {
				at = i
				break
			}
		}
		rctx, cancel := context.WithTimeout(ctx, 30*time.Second)
		err := peers[at].Node.Cluster.PeerRemove(rctx, ids[victim])
		cancel()
		history = append(history, fmt.Sprintf("p%d removed from the peerset at p%d err=%v", victim, at, err))
		if err == nil {
			removed[victim] = true
			ok := waitFor(20*time.Second, func() bool {
				for i, p := range peers {
					if !alive[i] {
						continue
					}
					ps, err := p.Node.Consensus.Peers(ctx)
					if err != nil || len(ps) != n-1 {
						return false
					}
				}
				return true
			})
			if ok {
				c.Cover("global/member-removed-from-peerset")
				checkAll("one-removed")
			}
		}
		c.Sample(map[string]interface{}{"family": "global", "peers": n, "history": history})
		return
	}
	// a second member goes away (the views are reads: no quorum needed)
	if n >= 3 {
		second := (victim + 1 + r.Intn(n-1)) % n
		history = append(history, fmt.Sprintf("p%d stops", second))
		peers[second].Node.Close()
		alive[second] = false
		time.Sleep(300 * time.Millisecond)
		checkAll("two-down")
	}
	c.Sample(map[string]interface{}{"family": "global", "peers": n, "history": history})
}

func waitFor(limit time.Duration, f func() bool) bool {
	deadline := time.Now().Add(limit)
	for time.Now().Before(deadline) {
		if f() {
			return true
		}
		time.Sleep(50 * time.Millisecond)
	}
	return false
}
