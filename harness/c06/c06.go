// Package c06: reported pin status is truthful and consistent between its two views.
package c06

import (
	"context"
	"fmt"
	"sort"
	"strings"
	"sync"
	"sync/atomic"
	"time"

	"verif/fw"
	"verif/gen"
	"verif/mon"
	"verif/sim"
	"verif/trk"

	cid "github.com/ipfs/go-cid"
	"github.com/ipfs/ipfs-cluster/api"
	peer "github.com/libp2p/go-libp2p-core/peer"
)

func init() {
	fw.Register(&fw.Prop{
		ID:    "C06",
		Level: "exploration",
		Rule: "Quiescent situations are built directly on the real stateless tracker: for each of 6 CIDs a pinset entry in {absent, allocated here, to everyone, elsewhere, meta} x {recursive, direct}, a daemon pin state in {none, recursive, direct}, " +
			"and for some CIDs a last operation that really ran and failed (scripted daemon error on pin or unpin) or succeeded. Then Status(c) for every CID, StatusAll(undefined), StatusAll(f) for every single status and ~24 random unions are taken. " +
			"Oracle: (1) Status(c) and the entry of c in the unfiltered listing fall in the same class of {pinned, remote, sharded, unpinned-or-absent, error (pin_error|unpin_error|cluster_error|unexpectedly_unpinned), pending}; " +
			"(2) that class is the one the constructed facts dictate (pinned iff the daemon holds the CID in the pinset's mode, error iff it should be held here and is not or the last operation failed, ...); " +
			"(3) every filtered listing equals the unfiltered listing restricted to the filter, as a set of (cid,status); no CID listed twice. The cluster-wide view is a separate case family (keys 'global/...'). " +
			"distinct_nontrivial counts distinct (pinset entry, daemon state, last-operation outcome) situations and filter shapes.",
		Assumptions: []string{
			"where the daemon holds a CID in another mode than the pinset records (a state the system cannot create itself when the daemon is healthy) only agreement of the two views is demanded, not a particular verdict",
			"pin_error and unexpectedly_unpinned are treated as the same class: the property speaks of 'an error status'",
		},
		Cases: func(tier string) int {
			if tier == "thorough" {
				return 40000
			}
			return 2000
		},
		MinEvals: func(tier string) int {
			if tier == "thorough" {
				return 1000000
			}
			return 50000
		},
		Run: run,
	})
}

const nCids = 6

type fact struct {
	entry  string // absent | local | everywhere | remote | meta
	mode   api.PinMode
	daemon string // "" | recursive | direct
	lastOp string // none | pin-ok | pin-failed | unpin-failed | unpin-ok
}

func class(s api.TrackerStatus) string {
	switch s {
	case api.TrackerStatusPinned:
		return "pinned"
	case api.TrackerStatusRemote:
		return "remote"
	case api.TrackerStatusSharded:
		return "sharded"
	case api.TrackerStatusUnpinned:
		return "unpinned"
	case api.TrackerStatusPinError, api.TrackerStatusUnpinError, api.TrackerStatusClusterError, api.TrackerStatusUnexpectedlyUnpinned:
		return "error"
	case api.TrackerStatusPinQueued, api.TrackerStatusUnpinQueued, api.TrackerStatusPinning, api.TrackerStatusUnpinning:
		return "pending"
	}
	return "other:" + s.String()
}

var singles = []api.TrackerStatus{api.TrackerStatusClusterError, api.TrackerStatusPinError, api.TrackerStatusUnpinError,
	api.TrackerStatusPinned, api.TrackerStatusPinning, api.TrackerStatusUnpinning, api.TrackerStatusUnpinned,
	api.TrackerStatusRemote, api.TrackerStatusPinQueued, api.TrackerStatusUnpinQueued, api.TrackerStatusSharded,
	api.TrackerStatusUnexpectedlyUnpinned}

func listing(l []*api.PinInfo) map[string]api.TrackerStatus {
	out := map[string]api.TrackerStatus{}
	for _, pi := range l {
		out[pi.Cid.KeyString()] = pi.Status
	}
	return out
}

func fmtListing(m map[string]api.TrackerStatus, idx map[string]int) string {
	var s []string
	for k, v := range m {
		s = append(s, fmt.Sprintf("c%d=%s", idx[k], v))
	}
	sort.Strings(s)
	return strings.Join(s, " ")
}

func run(c *fw.Ctx, idx int) {
	r := c.Rand("main")
	// the first cases are the cluster-wide family (real multi-peer clusters)
	nglobal := 8
	if c.Thorough() {
		nglobal = 64
	}
	if idx < nglobal {
		globalCase(c, r, idx)
		return
	}
	ctx := context.Background()
	self, other := gen.Peer(0), gen.Peer(1)
	// a quarter of the cases run with a queue of one and a single worker, so that
	// an operation can be refused because the queue is full
	smallQueue := r.Chance(1, 4)
	rig := trk.New(self, 100, 2)
	if smallQueue {
		rig.Close()
		rig = trk.New(self, 1, 1)
	}
	defer func() { rig.Close() }()
	holds := map[string]chan struct{}{}
	holdsUnpin := map[string]chan struct{}{}
	cids := make([]cid.Cid, nCids)
	cidx := map[string]int{}
	for i := range cids {
		cids[i] = gen.Cid(300+i, i)
		cidx[cids[i].KeyString()] = i
	}
	facts := make([]fact, nCids)
	var fmu sync.Mutex
	failPin := map[string]bool{}
	failUnpin := map[string]bool{}
	// once this process has reported three statuses without an operation behind them, the
	// remaining cases fail their pins the plain way only (each such report costs 30 s)
	var plainErrors int32
	if stuck, _ := c.Store["c06-stuck"].(int); stuck >= 3 {
		plainErrors = 1
	}
	rig.IPFS.SetGate(func(call sim.IPFSCall) sim.Decision {
		fmu.Lock()
		defer fmu.Unlock()
		if ch := holds[call.Cid.KeyString()]; ch != nil && call.Op == "pin" {
			return sim.Decision{Hold: ch}
		}
		if ch := holdsUnpin[call.Cid.KeyString()]; ch != nil && call.Op == "unpin" {
			delete(holdsUnpin, call.Cid.KeyString()) // the first unpin only
			return sim.Decision{Hold: ch, Err: fmt.Errorf("ipfs model: scripted failure of the held unpin")}
		}
		if call.Op == "pin" && failPin[call.Cid.KeyString()] {
			// the ways a pin fails: the daemon says no, or the connector gives up on a pin
			// that makes no progress (it cancels its own request: context.Canceled as such)
			kind := call.Cid.KeyString()[len(call.Cid.KeyString())-1] % 3
			if atomic.LoadInt32(&plainErrors) == 1 {
				kind = 2
			}
			switch kind {
			case 0:
				return sim.Decision{Err: context.Canceled}
			case 1:
				return sim.Decision{Err: fmt.Errorf("ipfs model: pin gave up: %w", context.Canceled)}
			}
			return sim.Decision{Err: fmt.Errorf("ipfs model: scripted pin failure")}
		}
		if call.Op == "unpin" && failUnpin[call.Cid.KeyString()] {
			return sim.Decision{Err: fmt.Errorf("ipfs model: scripted unpin failure")}
		}
		return sim.Decision{}
	})
	mkPin := func(i int, f fact) *api.Pin {
		p := api.PinCid(cids[i])
		p.Name = fmt.Sprintf("n%d", i)
		p.Mode = f.mode
		p.MaxDepth = mon.DepthOf(f.mode)
		switch f.entry {
		case "local":
			p.ReplicationFactorMin, p.ReplicationFactorMax = 1, 2
			p.Allocations = []peer.ID{self, other}
		case "everywhere":
			p.ReplicationFactorMin, p.ReplicationFactorMax = -1, -1
			// entries written by other versions or imported may still list peers: the
			// factors say "everybody", so this peer holds it whoever is listed
			if i%3 == 1 {
				p.Allocations = []peer.ID{other}
			}
		case "remote":
			p.ReplicationFactorMin, p.ReplicationFactorMax = 1, 1
			p.Allocations = []peer.ID{other}
		case "meta":
			p.Type = api.MetaType
			ref := gen.UCid(77)
			p.Reference = &ref
			p.MaxDepth = 0
			// the replication factors a sharded add was given stay on its meta entry
			switch i % 3 {
			case 0:
				p.ReplicationFactorMin, p.ReplicationFactorMax = -1, -1
			case 1:
				p.ReplicationFactorMin, p.ReplicationFactorMax = 1, 1
			case 2:
				p.ReplicationFactorMin, p.ReplicationFactorMax = 2, 3
			}
		}
		return p
	}
	// notQuiescent: called when the tracker did not come to rest within 20 s. If nothing at
	// all happens any more - no call inside the daemon, the daemon's call log not growing
	// for 10 more seconds - and a CID is still shown as queued or in progress, that status
	// has no operation behind it.
	notQuiescent := func(upto int) {
		n0 := rig.IPFS.NCalls()
		idle := true
		for w := 0; w < 100 && idle; w++ {
			time.Sleep(100 * time.Millisecond)
			if rig.IPFS.Inflight() > 0 || rig.IPFS.NCalls() != n0 {
				idle = false
			}
		}
		if idle {
			for i := 0; i < upto; i++ {
				st := rig.T.Status(ctx, cids[i]).Status
				if class(st) == "pending" {
					stuck, _ := c.Store["c06-stuck"].(int)
					c.Store["c06-stuck"] = stuck + 1
					c.Violation(fmt.Sprintf("C06/in-progress-status-without-operation/%s/%s", facts[i].lastOp, st),
						fmt.Sprintf("c%d is shown as %s although nothing has been pending for 30 s (no call in the daemon, no new call for 10 s); last operation: %s", i, st, facts[i].lastOp),
						map[string]interface{}{"facts": fmt.Sprintf("%+v", facts[i])})
					return
				}
			}
		}
		c.Inconclusive("situation did not quiesce")
	}
	stuckEarly := false
	built := 0
	for i := range facts {
		built = i + 1
		f := fact{lastOp: "none"}
		f.entry = r.Pick("absent", "local", "local", "everywhere", "remote", "meta")
		if r.Chance(1, 3) {
			f.mode = api.PinModeDirect
		}
		f.daemon = r.Pick("", "recursive", "direct")
		// make the consistent situations frequent
		if (f.entry == "local" || f.entry == "everywhere") && r.Chance(1, 2) {
			f.daemon = f.mode.String()
		}
		if f.entry == "absent" && r.Chance(1, 2) {
			f.daemon = ""
		}
		switch f.entry {
		case "local", "everywhere":
			f.lastOp = r.Pick("none", "none", "pin-ok", "pin-failed")
		case "absent":
			f.lastOp = r.Pick("none", "none", "unpin-ok", "unpin-failed", "realloc+untrack")
		case "meta":
			// handed to the tracker like any pinset change; the daemon may refuse whatever it is asked
			f.lastOp = r.Pick("none", "tracked", "tracked/daemon-refuses")
		}
		facts[i] = f
		// build it
		switch f.lastOp {
		case "none":
			if f.entry != "absent" {
				rig.St.Add(ctx, mkPin(i, f))
			}
			rig.IPFS.SetPin(cids[i], f.daemon)
		case "tracked", "tracked/daemon-refuses":
			rig.St.Add(ctx, mkPin(i, f))
			rig.IPFS.SetPin(cids[i], f.daemon)
			if f.lastOp == "tracked/daemon-refuses" {
				fmu.Lock()
				failPin[cids[i].KeyString()] = true
				failUnpin[cids[i].KeyString()] = true
				fmu.Unlock()
			}
			rig.T.Track(ctx, mkPin(i, f))
		case "pin-ok":
			// a real pin operation that succeeds: the daemon ends up holding it in the asked mode
			rig.St.Add(ctx, mkPin(i, f))
			if f.daemon != "" && !(f.daemon == "recursive" && f.mode == api.PinModeDirect) {
				rig.IPFS.SetPin(cids[i], f.daemon)
			}
			rig.T.Track(ctx, mkPin(i, f))
			facts[i].daemon = f.mode.String()
		case "pin-failed":
			rig.St.Add(ctx, mkPin(i, f))
			rig.IPFS.SetPin(cids[i], f.daemon)
			fmu.Lock()
			failPin[cids[i].KeyString()] = true
			fmu.Unlock()
			rig.T.Track(ctx, mkPin(i, f))
		case "unpin-ok":
			rig.IPFS.SetPin(cids[i], f.daemon)
			rig.T.Untrack(ctx, cids[i])
			facts[i].daemon = ""
		case "realloc+untrack":
			// the item is re-allocated to another peer (the tracker's own unpin is held
			// inside the daemon and then fails) and removed from the pinset meanwhile:
			// a failed unpin of something that should not be pinned here
			if f.daemon == "" {
				f.daemon = "recursive"
				facts[i].daemon = "recursive"
			}
			rig.IPFS.SetPin(cids[i], f.daemon)
			ch := make(chan struct{})
			fmu.Lock()
			holdsUnpin[cids[i].KeyString()] = ch
			failUnpin[cids[i].KeyString()] = true
			fmu.Unlock()
			rp := mkPin(i, fact{entry: "remote", mode: f.mode})
			rig.Quiesce(ctx, 20*time.Second) // nothing else in flight: the held call is the re-allocation's unpin
			rig.St.Add(ctx, rp)
			done := make(chan struct{})
			go func() { rig.T.Track(ctx, rp); close(done) }()
			for w := 0; w < 5000; w++ {
				fmu.Lock()
				_, waiting := holdsUnpin[cids[i].KeyString()]
				fmu.Unlock()
				if !waiting {
					break // the unpin of the re-allocation sits in the daemon
				}
				time.Sleep(time.Millisecond)
			}
			rig.St.Rm(ctx, cids[i])
			rig.T.Untrack(ctx, cids[i])
			close(ch)
			<-done
			facts[i].lastOp = "unpin-failed"
			c.Cover("situation/realloc+untrack")
		case "unpin-failed":
			rig.IPFS.SetPin(cids[i], f.daemon)
			fmu.Lock()
			failUnpin[cids[i].KeyString()] = true
			fmu.Unlock()
			rig.T.Untrack(ctx, cids[i])
		}
		if smallQueue {
			// one operation at a time: only the deliberate overflow below may meet a full queue
			if !rig.Quiesce(ctx, 20*time.Second) {
				stuckEarly = true
				break
			}
		}
	}
	if stuckEarly {
		notQuiescent(built)
		return
	}
	if smallQueue {
		// overflow: the worker is busy with A (held inside the daemon), B fills the
		// queue, the pin of X is refused with "queue full" - a failed last operation
		x := -1
		for i, f := range facts {
			if (f.entry == "local" || f.entry == "everywhere") && f.lastOp == "none" && f.daemon == "" {
				x = i
				break
			}
		}
		if x >= 0 && rig.Quiesce(ctx, 20*time.Second) {
			a, b := gen.Cid(390, 0), gen.Cid(391, 1)
			fmu.Lock()
			holds[a.KeyString()] = make(chan struct{})
			fmu.Unlock()
			for _, fc := range []cid.Cid{a, b} {
				fp := api.PinCid(fc)
				fp.ReplicationFactorMin, fp.ReplicationFactorMax = -1, -1
				rig.St.Add(ctx, fp)
				rig.T.Track(ctx, fp)
				if fc.Equals(a) {
					// wait until the worker sits in the daemon with A
					for w := 0; w < 2000 && rig.IPFS.Inflight() == 0; w++ {
						time.Sleep(time.Millisecond)
					}
				}
			}
			err := rig.T.Track(ctx, mkPin(x, facts[x]))
			fmu.Lock()
			close(holds[a.KeyString()])
			delete(holds, a.KeyString())
			fmu.Unlock()
			if err != nil {
				facts[x].lastOp = "pin-failed" // refused: queue full
				c.Cover("situation/pin-refused-queue-full")
				// everything that was accepted completes (A and B end up on the daemon);
				// after that nothing is pending any more, whatever the table says
				done := false
				for w := 0; w < 200 && !done; w++ {
					done = rig.IPFS.ModeOf(a) != "" && rig.IPFS.ModeOf(b) != "" && rig.IPFS.Inflight() == 0
					if !done {
						time.Sleep(100 * time.Millisecond)
					}
				}
				if done {
					stuck := true
					var st api.TrackerStatus
					for w := 0; w < 50 && stuck; w++ {
						st = rig.T.Status(ctx, cids[x]).Status
						stuck = class(st) == "pending"
						if stuck {
							time.Sleep(100 * time.Millisecond)
						}
					}
					c.Eval("queue-full/refused-operation-status")
					if stuck {
						c.Violation("C06/status-pending-but-nothing-is-pending/"+st.String(), fmt.Sprintf("the pin of c%d was refused (%v); every accepted operation has completed and the daemon is idle, yet 5 s later Status still says %s", x, err, st), nil)
						return
					}
				}
			} else {
				facts[x].lastOp = "pin-ok"
				facts[x].daemon = facts[x].mode.String()
			}
		}
	}
	if stuckEarly || !rig.Quiesce(ctx, 20*time.Second) {
		notQuiescent(built)
		return
	}
	// facts are final now
	for i := range facts {
		if got := rig.IPFS.ModeOf(cids[i]); got != facts[i].daemon {
			c.Inconclusive(fmt.Sprintf("constructed daemon state differs (%q vs %q, %+v)", got, facts[i].daemon, facts[i]))
			return
		}
	}
	// a finished operation stays visible (as pinned/unpinned) for an instant before it is
	// cleaned: take the listing once it no longer changes
	all := rig.T.StatusAll(ctx, api.TrackerStatusUndefined)
	for try := 0; try < 500; try++ {
		time.Sleep(2 * time.Millisecond)
		again := rig.T.StatusAll(ctx, api.TrackerStatusUndefined)
		same := fmtListing(listing(all), cidx) == fmtListing(listing(again), cidx)
		all = again
		if same && try >= 2 {
			break
		}
	}
	seen := map[string]bool{}
	for _, pi := range all {
		if seen[pi.Cid.KeyString()] {
			c.Violation("C06/listing/duplicate", "a CID is listed twice", nil)
		}
		seen[pi.Cid.KeyString()] = true
	}
	allMap := listing(all)
	describe := func() []string {
		var s []string
		for i, f := range facts {
			st := rig.T.Status(ctx, cids[i]).Status
			s = append(s, fmt.Sprintf("c%d entry=%s/%s daemon=%s lastop=%s => status=%s listing=%v", i, f.entry, f.mode, orDash(f.daemon), f.lastOp, st, allMap[cids[i].KeyString()]))
		}
		return s
	}
	for i, f := range facts {
		st := rig.T.Status(ctx, cids[i])
		lst, inList := allMap[cids[i].KeyString()]
		cs := class(st.Status)
		cl := "unpinned"
		if inList {
			cl = class(lst)
		}
		sit := fmt.Sprintf("%s/%s/daemon=%s/%s", f.entry, f.mode, orDash(f.daemon), f.lastOp)
		c.Eval("local/" + sit)
		if cs != cl {
			c.Violation(fmt.Sprintf("C06/views-disagree/%s/status=%s/listing=%s", sit, st.Status, orAbsent(inList, lst)),
				fmt.Sprintf("c%d: Status says %s, the listing says %s", i, st.Status, orAbsent(inList, lst)), describe())
		}
		// the class the facts dictate
		want := ""
		switch {
		case f.lastOp == "pin-failed" || f.lastOp == "unpin-failed":
			want = "error"
		case f.entry == "absent":
			want = "unpinned"
		case f.entry == "meta":
			want = "sharded"
		case f.entry == "remote":
			want = "remote"
		case f.daemon == f.mode.String():
			want = "pinned"
		case f.daemon == "":
			want = "error"
		default:
			want = "" // mode mismatch: only agreement demanded
		}
		if want != "" {
			if cs != want {
				c.Violation(fmt.Sprintf("C06/status-untruthful/%s/got=%s", sit, st.Status),
					fmt.Sprintf("c%d: facts dictate %q, Status says %s", i, want, st.Status), describe())
			}
			if cl != want {
				c.Violation(fmt.Sprintf("C06/listing-untruthful/%s/got=%s", sit, orAbsent(inList, lst)),
					fmt.Sprintf("c%d: facts dictate %q, the listing says %s", i, want, orAbsent(inList, lst)), describe())
			}
		}
		if st.Peer != self || !st.Cid.Equals(cids[i]) {
			c.Violation("C06/status/wrong-identity", "Status carries another peer or CID", nil)
		}
	}
	// filters
	var filters []api.TrackerStatus
	filters = append(filters, singles...)
	filters = append(filters, api.TrackerStatusError, api.TrackerStatusQueued)
	for i := 0; i < 24; i++ {
		var f api.TrackerStatus
		for j := r.Range(2, 5); j > 0; j-- {
			f |= singles[r.Intn(len(singles))]
		}
		filters = append(filters, f)
	}
	for _, f := range filters {
		got := listing(rig.T.StatusAll(ctx, f))
		want := map[string]api.TrackerStatus{}
		for k, s := range allMap {
			if s&f != 0 {
				want[k] = s
			}
		}
		nbits := 0
		for _, s := range singles {
			if f&s != 0 {
				nbits++
			}
		}
		c.Eval(fmt.Sprintf("filter/bits=%d/matches=%d", nbits, len(want)))
		// "unpinned" and "absent from the listing" are the same fact for an item outside
		// the pinset (a finished unpin is dropped from the table a moment after it is done)
		for _, m := range []map[string]api.TrackerStatus{got, want} {
			for k, s := range m {
				if s == api.TrackerStatusUnpinned {
					delete(m, k)
				}
			}
		}
		if fmtListing(got, cidx) != fmtListing(want, cidx) {
			c.Violation("C06/filter/not-restriction-of-unfiltered/"+f.String(),
				fmt.Sprintf("StatusAll(%s) = [%s]; unfiltered restricted to the filter = [%s]", f, fmtListing(got, cidx), fmtListing(want, cidx)), describe())
		}
	}
	if idx%200 == 0 {
		c.Sample(map[string]interface{}{"family": "local views", "situation": describe()})
	}
}

func orDash(s string) string {
	if s == "" {
		return "-"
	}
	return s
}

func orAbsent(in bool, s api.TrackerStatus) string {
	if !in {
		return "absent"
	}
	return s.String()
}
