package c02

import (
	"context"
	"fmt"
	"strings"
	"sync/atomic"
	"time"

	"verif/fw"
	"verif/gen"

	"github.com/ipfs/ipfs-cluster/consensus/crdt"
)

// trickleCase: the age limit counts from the first operation of a batch.
// Operations keep arriving max_batch_age/3 apart for 25 x max_batch_age, never
// reaching the size limit and never leaving a silent gap. While they are still
// arriving, everything accepted more than 12 x max_batch_age + 0.3 s ago must be
// visible in the state (each batch is due one max_batch_age after its first
// operation). The bound is a wall-clock one with a margin of an order of
// magnitude; nothing else in the case depends on time.
func trickleCase(c *fw.Ctx, idx int) {
	ctx := context.Background()
	r := c.Rand("trickle")
	age := time.Duration(r.Range(100, 200)) * time.Millisecond
	rep, err := newReplica(ctx, r.Intn(20), func(cfg *crdt.Config) {
		cfg.Batching.MaxBatchSize = 1000000
		cfg.Batching.MaxBatchAge = age
		cfg.Batching.MaxQueueSize = 50000
	})
	if err != nil {
		c.Inconclusive("replica: " + err.Error())
		return
	}
	defer rep.close()
	type acc struct {
		ci   int
		vseq string
		at   time.Time
	}
	var log []acc
	end := time.Now().Add(25 * age)
	k := 0
	for time.Now().Before(end) {
		ci := k % nCids
		vseq := fmt.Sprintf("t%d", k)
		octx, ocancel := context.WithCancel(ctx) // the submitter's context ends with the call
		err := rep.cons.LogPin(octx, mkPin(ci, vseq, r))
		ocancel()
		if err == nil {
			log = append(log, acc{ci, vseq, time.Now()})
		}
		k++
		time.Sleep(age / 3)
	}
	// still inside the stream of operations: what is old enough must be there
	now := time.Now()
	cutoff := now.Add(-12*age - 300*time.Millisecond)
	want := map[int]string{}
	old := 0
	for _, a := range log {
		if a.at.Before(cutoff) {
			want[a.ci] = a.vseq
			old++
		}
	}
	got, err := rep.content(ctx)
	if err != nil {
		c.Inconclusive("state: " + err.Error())
		return
	}
	c.Eval(fmt.Sprintf("trickle/old-operations=%d", bucket(old)))
	// a CID may already show a newer write than the last old one, never an older one or nothing
	for ci, v := range want {
		g, ok := got[ci]
		if !ok {
			c.Violation("C02/trickle/operations-older-than-the-age-limit-not-committed", fmt.Sprintf("operations arrive every %s (max_batch_age %s): c%d was pinned (%s) more than %s ago and is not in the state while operations keep arriving (%d accepted, %d old enough)", age/3, age, ci, v, 12*age+300*time.Millisecond, len(log), old), nil)
			return
		}
		var gi, vi int
		fmt.Sscanf(g, "t%d", &gi)
		fmt.Sscanf(v, "t%d", &vi)
		if gi < vi {
			c.Violation("C02/trickle/operations-older-than-the-age-limit-not-committed", fmt.Sprintf("c%d shows %s, the write %s accepted more than %s ago is not committed yet", ci, g, v, 12*age+300*time.Millisecond), nil)
			return
		}
	}
	c.Sample(map[string]interface{}{"family": "trickle", "max_batch_age": age.String(), "accepted": len(log), "old_enough": old})
	_ = gen.UCid
}

func bucket(n int) int {
	switch {
	case n < 10:
		return n
	case n < 50:
		return n / 10 * 10
	}
	return 50
}

// identicalRepinCase: every change that lands in the pinset is handed to the
// tracker, also when it re-creates an entry byte-identical to one that was
// there before. Pin P, unpin, pin the same P again (each waited for until it
// is visible): the tracker must have been told track, untrack, track.
func identicalRepinCase(c *fw.Ctx, idx int) {
	ctx := context.Background()
	r := c.Rand("repin")
	mode := r.Pick("direct", "size", "age")
	rep, err := newReplica(ctx, r.Intn(20), func(cfg *crdt.Config) {
		switch mode {
		case "size":
			cfg.Batching.MaxBatchSize, cfg.Batching.MaxBatchAge, cfg.Batching.MaxQueueSize = 1, time.Hour, 50000
		case "age":
			cfg.Batching.MaxBatchSize, cfg.Batching.MaxBatchAge, cfg.Batching.MaxQueueSize = 1000000, 50*time.Millisecond, 50000
		}
	})
	if err != nil {
		c.Inconclusive("replica: " + err.Error())
		return
	}
	defer rep.close()
	ci := r.Intn(nCids)
	p := mkPin(ci, "same", r)
	visible := func(want bool) bool {
		return waitUntil(5*time.Second, func() bool {
			got, err := rep.content(ctx)
			_, ok := got[ci]
			return err == nil && ok == want
		})
	}
	steps := []struct {
		kind string
		want bool
	}{{"pin", true}, {"unpin", false}, {"pin", true}, {"unpin", false}, {"pin", true}}
	n := r.Range(3, 5)
	for k := 0; k < n; k++ {
		st := steps[k]
		cp := *p // the same record every time
		if st.kind == "pin" {
			err = rep.cons.LogPin(ctx, &cp)
		} else {
			err = rep.cons.LogUnpin(ctx, &cp)
		}
		if err != nil {
			c.Inconclusive("submit: " + err.Error())
			return
		}
		if !visible(st.want) {
			c.Inconclusive("operation not visible within 5 s")
			return
		}
	}
	if mode == "age" {
		// burst: the entry is in the committed pinset; an unpin and the very same record
		// again are accepted back to back (one batch). The last accepted operation is a pin.
		if !steps[n-1].want {
			cp := *p
			if rep.cons.LogPin(ctx, &cp) != nil || !visible(true) {
				c.Inconclusive("re-pin before the burst not visible")
				return
			}
		}
		u, q := *p, *p
		e1 := rep.cons.LogUnpin(ctx, &u)
		e2 := rep.cons.LogPin(ctx, &q)
		if e1 == nil && e2 == nil {
			time.Sleep(600 * time.Millisecond) // twelve batch ages
			got, err := rep.content(ctx)
			_, present := got[ci]
			c.Eval("identical-repin/burst")
			if err == nil && !present {
				time.Sleep(time.Second)
				got, _ = rep.content(ctx)
				if _, present = got[ci]; !present {
					c.Violation("C02/identical-repin/burst/last-accepted-pin-lost", "an entry of the committed pinset was unpinned and pinned again with the very same record in one batch: it is gone, the last accepted operation was the pin", nil)
				}
			}
		}
		return
	}
	// the hooks run asynchronously to the state change: allow them a moment
	wantCalls := n
	ok := waitUntil(5*time.Second, func() bool {
		rep.tmu.Lock()
		defer rep.tmu.Unlock()
		return len(rep.tracks) >= wantCalls
	})
	rep.tmu.Lock()
	calls := append([]string{}, rep.tracks...)
	rep.tmu.Unlock()
	c.Eval(fmt.Sprintf("identical-repin/batching=%s/steps=%d", mode, n))
	last := ""
	if len(calls) > 0 {
		last = calls[len(calls)-1]
	}
	finalPinned := steps[n-1].want
	if !ok || (finalPinned && !strings.HasPrefix(last, "track")) || (!finalPinned && !strings.HasPrefix(last, "untrack")) {
		c.Violation("C02/identical-repin/tracker-not-told-about-a-change", fmt.Sprintf("pin / unpin / pin of the same record (%d steps, batching %s): the tracker was told %v", n, mode, calls), nil)
	}
}

// sizeFaultQuiesceCase: a batch whose size-triggered commit fails and which
// is then left alone (no further operations) is still due at its age limit.
// Exactly max_batch_size pins are accepted while datastore writes fail; the
// datastore recovers; nothing else is submitted. Everything accepted must be
// in the state within W = max(5 s, 30 x max_batch_age).
func sizeFaultQuiesceCase(c *fw.Ctx, idx int) {
	ctx := context.Background()
	r := c.Rand("sizefault")
	size := r.Range(2, 6)
	age := time.Duration(r.Range(150, 300)) * time.Millisecond
	rep, err := newReplica(ctx, r.Intn(20), func(cfg *crdt.Config) {
		cfg.Batching.MaxBatchSize = size
		cfg.Batching.MaxBatchAge = age
		cfg.Batching.MaxQueueSize = 50000
	})
	if err != nil {
		c.Inconclusive("replica: " + err.Error())
		return
	}
	defer rep.close()
	atomic.StoreInt32(&rep.failing, 1)
	want := map[int]string{}
	for k := 0; k < size; k++ {
		ci := k % nCids
		vseq := fmt.Sprintf("s%d", k)
		if err := rep.cons.LogPin(ctx, mkPin(ci, vseq, r)); err != nil {
			c.Inconclusive("submit: " + err.Error())
			return
		}
		want[ci] = vseq
	}
	// the size-triggered commit happens (and fails) now; then the datastore recovers
	time.Sleep(age / 3)
	atomic.StoreInt32(&rep.failing, 0)
	W := 5 * time.Second
	if 30*age > W {
		W = 30 * age
	}
	ok := waitUntil(W, func() bool {
		got, err := rep.content(ctx)
		return err == nil && fmtState(got) == fmtState(want)
	})
	c.Eval(fmt.Sprintf("size-fault-quiesce/size=%d", size))
	if !ok {
		got, _ := rep.content(ctx)
		c.Violation("C02/size-fault-quiesce/accepted-operations-never-committed", fmt.Sprintf("%d pins were accepted (max_batch_size %d, max_batch_age %s) while the size-triggered commit failed; the datastore recovered, nothing else was submitted, and %s later the state is [%s], expected [%s]", size, size, age, W, fmtState(got), fmtState(want)), nil)
	}
}
