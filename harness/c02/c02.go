// Package c02: CRDT - replicas converge; batching neither loses nor reorders operations.
package c02

import (
	"context"
	"errors"
	"fmt"
	"sort"
	"strings"
	"sync"
	"sync/atomic"
	"time"

	"verif/fw"
	"verif/gen"
	"verif/sim"

	ds "github.com/ipfs/go-datastore"
	dsq "github.com/ipfs/go-datastore/query"
	"github.com/ipfs/ipfs-cluster/api"
	"github.com/ipfs/ipfs-cluster/consensus/crdt"
	"github.com/ipfs/ipfs-cluster/datastore/inmem"
	host "github.com/libp2p/go-libp2p-core/host"
	peer "github.com/libp2p/go-libp2p-core/peer"
)

func init() {
	fw.Register(&fw.Prop{
		ID:    "C02",
		Level: "exploration",
		Rule: "Real crdt.Consensus components (go-ds-crdt, ipfs-lite, gossipsub) on real libp2p hosts, a recording PinTracker RPC service behind each, and a journalling fault datastore under each replica. " +
			"Single-replica families: batching disabled / size-triggered (size 1-10, age 1 h) / age-triggered (size 10^6, age 100-300 ms) / queue smaller than the burst (queue 1-5, bursts of 20-120 from several goroutines), " +
			"with pin and unpin of the same CID inside one batch in both orders (one submitter per CID so that submission order per CID is defined), and a window of failing datastore commits placed on a size- or age-triggered commit. " +
			"Oracle: the final entry of every CID is the last accepted operation for it; an operation refused with ErrMaxQueueSizeReached (or any error) has no effect; after the size-th accepted operation, resp. after max_batch_age, the batch is visible within W = max(5 s, 30 x age); " +
			"after a failed commit, operations accepted once the datastore is healthy again still take effect within W; every CID whose presence/value changed has a matching Track/Untrack at the tracker and in sequential cases the last tracker call per CID agrees with the final state. " +
			"Multi-replica family: 2-3 mutually trusting replicas, operations at any replica while connection gaters form and heal partitions; once all gaters are open and the head sets (read from the stores) are equal, the pinsets must be equal per CID. " +
			"distinct_nontrivial counts distinct (family, batching shape, fault placement, outcome) keys.",
		Assumptions: []string{
			"the visibility bound W is the only wall-clock element (observed: a few ms after the trigger)",
			"equal head sets not reached within 30 s after the heal = inconclusive (antecedent of the convergence clause is false)",
			"last-ness of tracker calls under concurrent multi-replica delivery and a winner among concurrent operations are not demanded",
		},
		Cases: func(tier string) int {
			if tier == "thorough" {
				return 1600
			}
			return 128
		},
		Children: func(string) int { return 8 },
		MinEvals: func(tier string) int {
			if tier == "thorough" {
				return 5000
			}
			return 350
		},
		CaseTimeout: 240 * time.Second,
		Run:         run,
	})
}

const nCids = 6

type replica struct {
	h       host.Host
	cons    *crdt.Consensus
	fds     *sim.FaultDS
	rec     *sim.RPCRecorder
	gater   *sim.Gater
	failing int32
	tmu     sync.Mutex
	tracks  []string // "track c<i> vseq" | "untrack c<i>"
}

func cidIdx(p *api.Pin) int {
	for i := 0; i < nCids; i++ {
		if gen.UCid(i).Equals(p.Cid) {
			return i
		}
	}
	return -1
}

func newReplica(ctx context.Context, keyIdx int, tune func(*crdt.Config)) (*replica, error) {
	r := &replica{gater: sim.NewGater()}
	store := inmem.New()
	h, ps, dht, err := sim.NewNetHost(ctx, gen.Key(keyIdx), sim.NetSecret, store, r.gater)
	if err != nil {
		return nil, err
	}
	r.h = h
	r.fds = sim.NewFaultDS(store)
	r.fds.FailWrites = func(op string, n int) error {
		if atomic.LoadInt32(&r.failing) == 1 && (op == "put" || op == "commit" || op == "delete") {
			return errors.New("scripted datastore failure")
		}
		return nil
	}
	r.rec = sim.NewRPCRecorder(func(ctx context.Context, call sim.Call, out interface{}) error {
		switch call.Name() {
		case "PinTracker.Track":
			p := call.In.(*api.Pin)
			r.tmu.Lock()
			r.tracks = append(r.tracks, fmt.Sprintf("track c%d %s", cidIdx(p), p.Metadata["vseq"]))
			r.tmu.Unlock()
		case "PinTracker.Untrack":
			p := call.In.(*api.Pin)
			r.tmu.Lock()
			r.tracks = append(r.tracks, fmt.Sprintf("untrack c%d", cidIdx(p)))
			r.tmu.Unlock()
		case "PeerMonitor.LatestMetrics":
			*(out.(*[]*api.Metric)) = nil
		}
		return nil
	})
	cfg := &crdt.Config{}
	cfg.Default()
	cfg.ClusterName = "verif-c02"
	cfg.TrustAll = true
	cfg.RebroadcastInterval = 300 * time.Millisecond
	if tune != nil {
		tune(cfg)
	}
	r.cons, err = crdt.New(h, dht, ps, cfg, r.fds)
	if err != nil {
		h.Close()
		return nil, err
	}
	r.cons.SetClient(r.rec.Client)
	select {
	case <-r.cons.Ready(ctx):
	case <-time.After(30 * time.Second):
		return nil, errors.New("crdt consensus not ready in 30 s")
	}
	return r, nil
}

func (r *replica) close() {
	ctx, cancel := context.WithTimeout(context.Background(), 10*time.Second)
	defer cancel()
	r.cons.Shutdown(ctx)
	r.h.Close()
}

func (r *replica) content(ctx context.Context) (map[int]string, error) {
	st, err := r.cons.State(ctx)
	if err != nil {
		return nil, err
	}
	pins, err := st.List(ctx)
	if err != nil {
		return nil, err
	}
	out := map[int]string{}
	for _, p := range pins {
		out[cidIdx(p)] = p.Metadata["vseq"]
	}
	return out, nil
}

func (r *replica) heads() string {
	res, err := r.fds.Query(dsq.Query{Prefix: "/"})
	if err != nil {
		return "?"
	}
	entries, _ := res.Rest()
	var hs []string
	for _, e := range entries {
		k := ds.NewKey(e.Key)
		ns := k.Namespaces()
		for i, n := range ns {
			if n == "h" && i == len(ns)-2 {
				hs = append(hs, ns[len(ns)-1])
			}
		}
	}
	sort.Strings(hs)
	return strings.Join(hs, ",")
}

func fmtState(m map[int]string) string {
	var s []string
	for k, v := range m {
		s = append(s, fmt.Sprintf("c%d=%s", k, v))
	}
	sort.Strings(s)
	return strings.Join(s, " ")
}

func mkPin(ci int, vseq string, r *fw.Rand) *api.Pin {
	p := gen.Pin(r, gen.PinParams{NPeers: 4, NoOrigins: true})
	p.Cid = gen.UCid(ci)
	p.Metadata = map[string]string{"vseq": vseq}
	p.Name = vseq
	p.UserAllocations = nil
	return p
}

func waitUntil(limit time.Duration, f func() bool) bool {
	deadline := time.Now().Add(limit)
	for time.Now().Before(deadline) {
		if f() {
			return true
		}
		time.Sleep(10 * time.Millisecond)
	}
	return false
}

func run(c *fw.Ctx, idx int) {
	// the first cases are the trickle family (age limit under a steady stream)
	ntr := 8
	if c.Thorough() {
		ntr = 32
	}
	if idx < ntr {
		trickleCase(c, idx)
		return
	}
	if idx < 2*ntr {
		identicalRepinCase(c, idx)
		return
	}
	if idx < 3*ntr {
		sizeFaultQuiesceCase(c, idx)
		return
	}
	if idx%4 == 3 {
		multiReplica(c, idx)
		return
	}
	singleReplica(c, idx)
}

type accepted struct {
	seq   int
	kind  string
	ci    int
	vseq  string
	err   error
	phase string // before | during | after the fault window
}

func singleReplica(c *fw.Ctx, idx int) {
	ctx := context.Background()
	r := c.Rand("main")
	shape := []string{"direct", "size", "age", "queue", "size+fault", "age+fault"}[r.Intn(6)]
	size, age, queue := 0, time.Duration(0), 50000
	switch shape {
	case "size", "size+fault":
		size, age = r.Range(1, 10), time.Hour
	case "age", "age+fault":
		size, age = 1000000, time.Duration(r.Range(100, 300))*time.Millisecond
	case "queue":
		size, age, queue = r.Range(2, 6), time.Duration(r.Range(50, 150))*time.Millisecond, r.Range(1, 5)
	}
	rep, err := newReplica(ctx, r.Intn(20), func(cfg *crdt.Config) {
		cfg.Batching.MaxBatchSize = size
		cfg.Batching.MaxBatchAge = age
		cfg.Batching.MaxQueueSize = queue
	})
	if err != nil {
		c.Inconclusive("replica: " + err.Error())
		return
	}
	defer rep.close()
	W := 5 * time.Second
	if age > 0 && age < time.Hour && 30*age > W {
		W = 30 * age
	}
	c.Journal("case %d shape=%s size=%d age=%s queue=%d", idx, shape, size, age, queue)
	var seq int64
	var mu sync.Mutex
	var log []accepted
	phase := "before"
	submit := func(kind string, ci int, rr *fw.Rand) error {
		s := int(atomic.AddInt64(&seq, 1))
		vseq := fmt.Sprintf("w%d", s)
		var err error
		// every second operation comes with a context of its own that ends when the call
		// returns (a request-scoped context): accepted is accepted
		octx, ocancel := ctx, func() {}
		if s%2 == 0 {
			octx, ocancel = context.WithCancel(ctx)
		}
		if kind == "pin" {
			err = rep.cons.LogPin(octx, mkPin(ci, vseq, rr))
		} else {
			err = rep.cons.LogUnpin(octx, api.PinCid(gen.UCid(ci)))
		}
		ocancel()
		mu.Lock()
		log = append(log, accepted{s, kind, ci, vseq, err, phase})
		mu.Unlock()
		return err
	}
	expect := func(only func(a accepted) bool) map[int]string {
		// last accepted op per CID, in submission order (one submitter per CID)
		mu.Lock()
		defer mu.Unlock()
		sorted := append([]accepted{}, log...)
		sort.Slice(sorted, func(i, j int) bool { return sorted[i].seq < sorted[j].seq })
		st := map[int]string{}
		for _, a := range sorted {
			if a.err != nil || (only != nil && !only(a)) {
				continue
			}
			if a.kind == "pin" {
				st[a.ci] = a.vseq
			} else {
				delete(st, a.ci)
			}
		}
		return st
	}
	visible := func(want map[int]string) bool {
		got, err := rep.content(ctx)
		return err == nil && fmtState(got) == fmtState(want)
	}
	detail := func() map[string]interface{} {
		got, _ := rep.content(ctx)
		mu.Lock()
		defer mu.Unlock()
		var ops []string
		sorted := append([]accepted{}, log...)
		sort.Slice(sorted, func(i, j int) bool { return sorted[i].seq < sorted[j].seq })
		for _, a := range sorted {
			e := ""
			if a.err != nil {
				e = " REFUSED"
			}
			ops = append(ops, fmt.Sprintf("%s %s c%d %s%s", a.phase, a.kind, a.ci, a.vseq, e))
		}
		if len(ops) > 80 {
			ops = ops[len(ops)-80:]
		}
		return map[string]interface{}{"shape": shape, "size": size, "age": age.String(), "queue": queue, "visible": fmtState(got), "ops": ops}
	}

	switch shape {
	case "direct", "size", "age", "queue":
		// several goroutines, each owning its CIDs
		nproc := r.Range(1, 4)
		if shape == "size" || shape == "age" {
			nproc = 1 // trigger points are counted in one sequence
		}
		burst := r.Range(8, 40)
		if shape == "queue" {
			burst = r.Range(20, 120)
		}
		var wg sync.WaitGroup
		for p := 0; p < nproc; p++ {
			wg.Add(1)
			go func(p int) {
				defer wg.Done()
				rr := fw.NewRand(c.Seed, fmt.Sprintf("C02/proc%d", p), idx)
				nAcc := 0
				for k := 0; k < burst; k++ {
					ci := p + nproc*rr.Intn((nCids+nproc-1-p)/nproc) // CIDs congruent to p mod nproc
					if ci >= nCids {
						ci = p
					}
					kind := "pin"
					if rr.Chance(1, 3) {
						kind = "unpin"
					}
					err := submit(kind, ci, rr)
					if err == nil {
						nAcc++
					}
					// size trigger: after every size-th accepted op the batch must become visible
					if shape == "size" && err == nil && nAcc%size == 0 {
						want := expect(nil)
						c.Eval(fmt.Sprintf("size-trigger/size%d", size))
						if !waitUntil(W, func() bool { return visible(want) }) {
							c.Violation("C02/batch-not-committed-at-size-limit", fmt.Sprintf("after the %d-th accepted operation (max_batch_size %d) the batch is not visible within %s", nAcc, size, W), detail())
							return
						}
					}
				}
			}(p)
		}
		wg.Wait()
		if shape == "size" {
			// flush the remainder so that the final comparison is defined: fill up to the next boundary
			mu.Lock()
			acc := 0
			for _, a := range log {
				if a.err == nil {
					acc++
				}
			}
			mu.Unlock()
			rr := fw.NewRand(c.Seed, "C02/fill", idx)
			for acc%size != 0 {
				if submit("pin", 0, rr) == nil {
					acc++
				}
			}
		}
		want := expect(nil)
		c.Eval(fmt.Sprintf("%s/final/procs%d", shape, nproc))
		if !waitUntil(W, func() bool { return visible(want) }) {
			nref := 0
			mu.Lock()
			for _, a := range log {
				if a.err != nil {
					nref++
				}
			}
			mu.Unlock()
			key := "C02/" + shape + "/final-state-is-not-last-accepted-operation-per-cid"
			c.Violation(key, fmt.Sprintf("final pinset differs from 'last accepted operation per CID' (%d refused operations) within %s", nref, W), detail())
			return
		}
		if shape == "queue" {
			mu.Lock()
			nref := 0
			for _, a := range log {
				if a.err != nil {
					nref++
					if !errors.Is(a.err, crdt.ErrMaxQueueSizeReached) {
						c.Violation("C02/queue/unexpected-error", a.err.Error(), nil)
					}
				}
			}
			mu.Unlock()
			c.Count("refused_operations", nref)
			c.Cover(fmt.Sprintf("queue/refused=%v", nref > 0))
		}
	case "size+fault", "age+fault":
		rr := fw.NewRand(c.Seed, "C02/fault", idx)
		// some healthy operations first
		pre := r.Range(0, 2*maxInt(size, 1))
		if shape == "age+fault" {
			pre = r.Range(0, 4)
		}
		for k := 0; k < pre; k++ {
			submit(rr.Pick("pin", "pin", "unpin"), rr.Intn(nCids), rr)
		}
		if shape == "age+fault" {
			time.Sleep(2 * age)
		}
		// fault window: datastore writes fail while a commit is triggered
		phase = "during"
		atomic.StoreInt32(&rep.failing, 1)
		during := r.Range(1, 3)
		if shape == "size+fault" {
			during = size + r.Intn(size+1)
		}
		for k := 0; k < during; k++ {
			submit(rr.Pick("pin", "pin", "unpin"), rr.Intn(nCids), rr)
		}
		if shape == "age+fault" {
			time.Sleep(3 * age) // the age-triggered commit happens (and fails) inside the window
		} else {
			time.Sleep(50 * time.Millisecond)
		}
		atomic.StoreInt32(&rep.failing, 0)
		phase = "after"
		// operations accepted now must take effect
		after := r.Range(2, 8)
		touched := map[int]bool{}
		for k := 0; k < after; k++ {
			ci := rr.Intn(nCids - 1) // the last CID is reserved for padding
			touched[ci] = true
			submit("pin", ci, rr)
		}
		wantAfter := expect(func(a accepted) bool { return a.phase == "after" })
		seen := func() bool {
			got, err := rep.content(ctx)
			if err != nil {
				return false
			}
			for ci := range touched {
				if got[ci] != wantAfter[ci] {
					return false
				}
			}
			return true
		}
		okAfter := false
		if shape == "size+fault" {
			// where the batch boundaries lie after the failed commits is not specified: keep
			// accepting operations (on a CID nothing else uses); within two full batches the
			// earlier ones must have been committed
			for k := 0; k <= 2*size+2 && !okAfter; k++ {
				okAfter = waitUntil(300*time.Millisecond, seen)
				if !okAfter {
					submit("pin", nCids-1, rr)
				}
			}
			if !okAfter {
				okAfter = waitUntil(W, seen)
			}
		} else {
			okAfter = waitUntil(W, seen)
		}
		c.Eval(fmt.Sprintf("%s/after-window/pre=%v", shape, pre > 0))
		if !okAfter {
			c.Violation("C02/"+shape+"/operations-accepted-after-failed-commit-never-take-effect",
				fmt.Sprintf("a datastore commit failed; operations accepted after the datastore recovered are not visible within %s", W), detail())
			return
		}
	}
	// no refused operation is visible (its write id must never show up)
	got, _ := rep.content(ctx)
	mu.Lock()
	for _, a := range log {
		if a.err != nil && a.kind == "pin" {
			for _, v := range got {
				if v == a.vseq {
					c.Violation("C02/refused-operation-has-effect", "a pin that was refused with an error is in the pinset: "+a.vseq, nil)
				}
			}
		}
	}
	mu.Unlock()
	c.Eval(shape + "/refused-invisible")
	// tracker hand-off
	final, _ := rep.content(ctx)
	ok := waitUntil(5*time.Second, func() bool {
		rep.tmu.Lock()
		defer rep.tmu.Unlock()
		lastCall := map[int]string{}
		for _, t := range rep.tracks {
			var ci int
			var v string
			if strings.HasPrefix(t, "track") {
				fmt.Sscanf(t, "track c%d %s", &ci, &v)
				lastCall[ci] = v
			} else {
				fmt.Sscanf(t, "untrack c%d", &ci)
				lastCall[ci] = ""
			}
		}
		for ci := 0; ci < nCids; ci++ {
			if lc, seen := lastCall[ci]; seen {
				if lc != final[ci] {
					return false
				}
			} else if final[ci] != "" {
				return false
			}
		}
		return true
	})
	c.Eval(shape + "/tracker-handoff")
	if !ok && !strings.Contains(shape, "fault") {
		rep.tmu.Lock()
		tr := append([]string{}, rep.tracks...)
		rep.tmu.Unlock()
		if len(tr) > 40 {
			tr = tr[len(tr)-40:]
		}
		c.Violation("C02/tracker-handoff-disagrees-with-final-state", "the last tracker call per CID does not agree with the final pinset ["+fmtState(final)+"]", map[string]interface{}{"shape": shape, "tracker_calls": tr})
	}
	if idx%8 == 0 {
		c.Sample(detail())
	}
}

func maxInt(a, b int) int {
	if a > b {
		return a
	}
	return b
}

func multiReplica(c *fw.Ctx, idx int) {
	ctx := context.Background()
	r := c.Rand("multi")
	n := r.Range(2, 3)
	base := r.Intn(6) * 3
	var reps []*replica
	defer func() {
		for _, rp := range reps {
			rp.close()
		}
	}()
	// who trusts whom: everybody (the default), an explicit list naming every replica,
	// or the usual layout of trusted_peers: the others, not oneself
	trustMode := []string{"trust-all", "listed-with-self", "listed-others-only"}[idx%3]
	ids := []peer.ID{}
	for i := 0; i < n; i++ {
		id, err := peer.IDFromPrivateKey(gen.Key(base + i))
		if err != nil {
			c.Inconclusive("key: " + err.Error())
			return
		}
		ids = append(ids, id)
	}
	for i := 0; i < n; i++ {
		i := i
		rp, err := newReplica(ctx, base+i, func(cfg *crdt.Config) {
			if trustMode == "trust-all" {
				return
			}
			cfg.TrustAll = false
			cfg.TrustedPeers = nil
			for j, id := range ids {
				if j != i || trustMode == "listed-with-self" {
					cfg.TrustedPeers = append(cfg.TrustedPeers, id)
				}
			}
		})
		if err != nil {
			c.Inconclusive("replica: " + err.Error())
			return
		}
		reps = append(reps, rp)
	}
	var hosts []host.Host
	for _, rp := range reps {
		hosts = append(hosts, rp.h)
	}
	sim.ConnectAll(ctx, hosts)
	var seq int64
	var script []string
	submit := func(at int, kind string, ci int) {
		s := int(atomic.AddInt64(&seq, 1))
		vseq := fmt.Sprintf("w%d", s)
		var err error
		if kind == "pin" {
			err = reps[at].cons.LogPin(ctx, mkPin(ci, vseq, r))
		} else {
			err = reps[at].cons.LogUnpin(ctx, api.PinCid(gen.UCid(ci)))
		}
		script = append(script, fmt.Sprintf("%s c%d %s @r%d err=%v", kind, ci, vseq, at, err))
	}
	partition := func(groups [][]int) {
		for i := range reps {
			reps[i].gater.UnblockAll()
		}
		grp := map[int]int{}
		for g, members := range groups {
			for _, m := range members {
				grp[m] = g
			}
		}
		for i := range reps {
			for j := range reps {
				if i != j && grp[i] != grp[j] {
					reps[i].gater.Block(ids[j])
				}
			}
		}
		script = append(script, fmt.Sprintf("partition %v", groups))
	}
	steps := r.Range(3, 8)
	for s := 0; s < steps; s++ {
		switch r.Intn(4) {
		case 0:
			if n == 3 {
				k := r.Intn(3)
				partition([][]int{{k}, {(k + 1) % 3, (k + 2) % 3}})
			} else {
				partition([][]int{{0}, {1}})
			}
		case 1:
			for i := range reps {
				reps[i].gater.UnblockAll()
			}
			sim.ConnectAll(ctx, hosts)
			script = append(script, "heal")
		default:
			for k := r.Range(1, 5); k > 0; k-- {
				submit(r.Intn(n), r.Pick("pin", "pin", "unpin"), r.Intn(nCids))
			}
			time.Sleep(time.Duration(r.Intn(200)) * time.Millisecond)
		}
	}
	for i := range reps {
		reps[i].gater.UnblockAll()
	}
	sim.ConnectAll(ctx, hosts)
	script = append(script, "heal (final)")
	headsAtHeal := make([]string, len(reps))
	for i, rp := range reps {
		headsAtHeal[i] = rp.heads()
	}
	// wait for equal, non-changing head sets
	converged := func() bool {
		h0 := reps[0].heads()
		for _, rp := range reps[1:] {
			if rp.heads() != h0 {
				return false
			}
		}
		time.Sleep(400 * time.Millisecond)
		for _, rp := range reps {
			if rp.heads() != h0 {
				return false
			}
		}
		return true
	}
	sameHeads := waitUntil(30*time.Second, converged)
	if !sameHeads && trustMode != "trust-all" {
		// control by one variable: nothing at all moved for 30 s although everybody is
		// connected; now every replica is told to trust itself too (which it does anyway)
		moved := false
		for i, rp := range reps {
			if rp.heads() != headsAtHeal[i] {
				moved = true
			}
		}
		if !moved {
			if trustMode == "listed-others-only" {
				for _, rp := range reps {
					rp.cons.Trust(ctx, rp.h.ID())
				}
				c.Eval("multi/control/self-trust")
				if waitUntil(30*time.Second, converged) {
					c.Violation("C02/replicas-that-trust-each-other-exchange-nothing/until-each-lists-itself",
						"replicas that list each other (not themselves) as trusted exchanged no update for 30 s after the heal; they converged as soon as each was told to trust itself", script)
					return
				}
			}
			// second control: the configured trust is stated again at run time (a no-op when
			// the configuration took effect)
			for _, rp := range reps {
				for _, id := range ids {
					rp.cons.Trust(ctx, id)
				}
			}
			c.Eval("multi/control/trust-restated")
			if waitUntil(30*time.Second, converged) {
				c.Violation("C02/replicas-that-trust-each-other-exchange-nothing/until-the-configured-trust-is-restated/"+trustMode,
					"replicas configured to trust each other exchanged no update for 30 s after the heal; they converged as soon as the same trust was stated again through Trust()", script)
				return
			}
		}
	}
	if !sameHeads {
		c.Inconclusive("head sets did not become equal within 30 s after the heal")
		return
	}
	var states []string
	for _, rp := range reps {
		st, err := rp.content(ctx)
		if err != nil {
			c.Inconclusive("state: " + err.Error())
			return
		}
		states = append(states, fmtState(st))
	}
	c.Eval(fmt.Sprintf("multi/n%d/steps%d/%s", n, steps, trustMode))
	for i := 1; i < len(states); i++ {
		if states[i] != states[0] {
			// which CIDs differ, and what kind of history they had
			a, _ := reps[0].content(ctx)
			b, _ := reps[i].content(ctx)
			class := "other"
			for ci := 0; ci < nCids; ci++ {
				if a[ci] == b[ci] {
					continue
				}
				pinAt := map[string]bool{}
				unpins := 0
				for _, l := range script {
					var k, v, at string
					var cj int
					if n, _ := fmt.Sscanf(l, "%s c%d %s %s", &k, &cj, &v, &at); n == 4 && cj == ci {
						if k == "pin" {
							pinAt[at] = true
						} else if k == "unpin" {
							unpins++
						}
					}
				}
				if len(pinAt) >= 2 && unpins >= 1 && a[ci] != "" && b[ci] != "" {
					class = "both-present-different-value/cid-pinned-at-two-replicas-and-unpinned"
				} else {
					class = "other"
					break
				}
			}
			c.Violation("C02/replicas-with-equal-heads-hold-different-pinsets/"+class, fmt.Sprintf("heads are equal on all replicas, yet r0 holds [%s] and r%d holds [%s]", states[0], i, states[i]), script)
			return
		}
	}
	// hand-off: every CID present in the final state was Tracked on every replica with the final value at least once
	for i, rp := range reps {
		st, _ := rp.content(ctx)
		rp.tmu.Lock()
		calls := strings.Join(rp.tracks, "\n")
		rp.tmu.Unlock()
		c.Eval("multi/handoff")
		for ci, v := range st {
			if !strings.Contains(calls, fmt.Sprintf("track c%d %s", ci, v)) {
				c.Violation("C02/multi/landed-change-not-handed-to-tracker", fmt.Sprintf("r%d holds c%d=%s but its tracker never received that pin", i, ci, v), script)
				return
			}
		}
	}
	c.Sample(map[string]interface{}{"family": "multi-replica", "replicas": n, "script": script, "final": states[0]})
}
