package mon

import (
	"fmt"
	"sort"
	"strconv"

	peer "github.com/libp2p/go-libp2p-core/peer"
)

// MetricState is the state of a peer's allocation metric as constructed by
// the driver (never read back from the system).
type MetricState struct {
	Kind  string // absent | valid | expired | invalid | nonnumeric
	Value uint64 // for Kind == valid
}

// AllocInput is everything an allocation decision depends on.
type AllocInput struct {
	Members  map[peer.ID]bool // current peerset
	Metrics  map[peer.ID]MetricState
	Current  []peer.ID
	Excluded map[peer.ID]bool
	Priority []peer.ID
	Min, Max int
	Descend  bool // strategy: largest value first
}

// Healthy: valid unexpired metric from a member that is not excluded.
func (in *AllocInput) Healthy(p peer.ID) bool {
	ms := in.Metrics[p]
	return (ms.Kind == "valid" || ms.Kind == "nonnumeric") && in.Members[p] && !in.Excluded[p]
}

// Candidate: healthy with a numeric value.
func (in *AllocInput) Candidate(p peer.ID) bool {
	return in.Healthy(p) && in.Metrics[p].Kind == "valid"
}

func contains(l []peer.ID, p peer.ID) bool {
	for _, q := range l {
		if q == p {
			return true
		}
	}
	return false
}

// bestK tells whether chosen is, as a multiset of metric values, the k best of
// pool under the strategy (ties free).
func (in *AllocInput) bestK(chosen, pool []peer.ID) bool {
	vals := func(ps []peer.ID) []uint64 {
		var v []uint64
		for _, p := range ps {
			v = append(v, in.Metrics[p].Value)
		}
		sort.Slice(v, func(i, j int) bool {
			if in.Descend {
				return v[i] > v[j]
			}
			return v[i] < v[j]
		})
		return v
	}
	c, p := vals(chosen), vals(pool)
	if len(c) > len(p) {
		return false
	}
	for i := range c {
		if c[i] != p[i] {
			return false
		}
	}
	return true
}

// CheckAlloc evaluates the allocation predicate of property C03. result is the
// allocation list produced (nil with err != nil on refusal). It returns a
// stable violation key suffix and a message, or "" when the predicate holds.
// situation is a coverage label of the branch that applied.
func CheckAlloc(in *AllocInput, result []peer.ID, err error) (key, msg, situation string) {
	// everywhere
	if in.Min == -1 && in.Max == -1 {
		if err != nil {
			return "everywhere-refused", "replication factor -1 refused: " + err.Error(), "everywhere"
		}
		if len(result) != 0 {
			return "everywhere-nonempty", fmt.Sprintf("replication factor -1 must give an empty allocation list, got %d peers", len(result)), "everywhere"
		}
		return "", "", "everywhere"
	}
	// invalid pairs
	if in.Min <= 0 || in.Max <= 0 || in.Min > in.Max {
		if err == nil {
			return "invalid-factors-accepted", fmt.Sprintf("invalid replication factors %d/%d accepted", in.Min, in.Max), "invalid-factors"
		}
		return "", "", "invalid-factors"
	}
	var H []peer.ID // still-healthy current holders
	seenCur := map[peer.ID]bool{}
	for _, p := range in.Current {
		if in.Healthy(p) && !seenCur[p] {
			H = append(H, p)
		}
		seenCur[p] = true
	}
	var cand []peer.ID // candidates that are not current holders
	for p := range in.Metrics {
		if in.Candidate(p) && !seenCur[p] {
			cand = append(cand, p)
		}
	}
	prio := map[peer.ID]bool{}
	for _, p := range in.Priority {
		prio[p] = true
	}
	need := in.Min - len(H)
	if len(H) > in.Max {
		situation = "above-max"
	} else if need <= 0 {
		situation = "enough"
	} else if len(cand) < need {
		situation = "not-enough-candidates"
	} else {
		situation = "allocate"
	}
	if situation == "not-enough-candidates" {
		if err == nil {
			return "allocated-without-enough-healthy-peers", fmt.Sprintf("min=%d, healthy holders=%d, candidates=%d, but no error (result %d peers)", in.Min, len(H), len(cand), len(result)), situation
		}
		return "", "", situation
	}
	if err != nil {
		return "refused-although-satisfiable/" + situation, fmt.Sprintf("min=%d max=%d healthy holders=%d candidates=%d: refused: %v", in.Min, in.Max, len(H), len(cand), err), situation
	}
	// no duplicates
	seen := map[peer.ID]bool{}
	for _, p := range result {
		if seen[p] {
			return "duplicate-peer", "a peer is listed twice", situation
		}
		seen[p] = true
	}
	// added peers must be candidates
	var added []peer.ID
	healthyInR := 0
	for _, p := range result {
		if in.Healthy(p) {
			healthyInR++
		}
		if seenCur[p] {
			continue
		}
		added = append(added, p)
		if in.Excluded[p] {
			return "added-excluded-peer", "an excluded peer was added", situation
		}
		if !in.Candidate(p) {
			return "added-unhealthy-peer/" + in.Metrics[p].Kind + memberTag(in, p), fmt.Sprintf("added a peer whose metric is %q (member=%v)", in.Metrics[p].Kind, in.Members[p]), situation
		}
	}
	if situation == "above-max" {
		for _, p := range result {
			if !contains(H, p) {
				return "above-max-not-subset", "more healthy holders than max: result must be a subset of them", situation
			}
		}
		if len(result) != in.Max {
			return "above-max-wrong-size", fmt.Sprintf("more healthy holders (%d) than max (%d): result has %d", len(H), in.Max, len(result)), situation
		}
		return "", "", situation
	}
	// healthy current holders are kept
	for _, p := range H {
		if !seen[p] {
			return "dropped-healthy-holder", fmt.Sprintf("a still-healthy current holder was dropped (holders=%d, max=%d)", len(H), in.Max), situation
		}
	}
	if healthyInR < in.Min {
		return "below-min", fmt.Sprintf("%d healthy holders in the result, min is %d", healthyInR, in.Min), situation
	}
	if healthyInR > in.Max {
		return "above-max", fmt.Sprintf("%d healthy holders in the result, max is %d", healthyInR, in.Max), situation
	}
	if len(added) == 0 {
		return "", "", situation
	}
	// preference: user-requested candidates first, then the strategy's best
	var pc, oc, ap, ao []peer.ID
	for _, p := range cand {
		if prio[p] {
			pc = append(pc, p)
		} else {
			oc = append(oc, p)
		}
	}
	for _, p := range added {
		if prio[p] {
			ap = append(ap, p)
		} else {
			ao = append(ao, p)
		}
	}
	wantPrio := len(added)
	if len(pc) < wantPrio {
		wantPrio = len(pc)
	}
	if len(ap) != wantPrio {
		return "priority-not-preferred", fmt.Sprintf("%d peers added, %d healthy requested peers available, only %d of them used", len(added), len(pc), len(ap)), situation
	}
	if !in.bestK(ap, pc) {
		return "priority-not-best", "requested peers were not taken in the strategy's order", situation
	}
	if !in.bestK(ao, oc) {
		return "not-strategy-best/" + strconv.FormatBool(in.Descend), "added peers are not the best-ranked candidates of the strategy", situation
	}
	return "", "", situation
}

func memberTag(in *AllocInput, p peer.ID) string {
	if !in.Members[p] {
		return "/non-member"
	}
	return ""
}
