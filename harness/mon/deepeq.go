// Package mon holds monitors and oracles shared between property checks.
package mon

import (
	"fmt"
	"reflect"
	"time"

	cid "github.com/ipfs/go-cid"
	ma "github.com/multiformats/go-multiaddr"
)

var (
	tTime = reflect.TypeOf(time.Time{})
	tCid  = reflect.TypeOf(cid.Cid{})
	tMa   = reflect.TypeOf((*ma.Multiaddr)(nil)).Elem()
)

// DeepEq is the harness's own field-by-field comparator. It does not use any
// Equals method of ipfs-cluster. nil and empty slices/maps are equal; times
// compare as instants (both zero, or Equal); CIDs and multiaddresses by value.
// skip lists dotted field paths to ignore (documented lossy fields).
// It returns "" when equal, else the path and values of the first difference.
func DeepEq(a, b interface{}, skip map[string]bool) string {
	return deepEq(reflect.ValueOf(a), reflect.ValueOf(b), "", skip)
}

func isEmptyish(v reflect.Value) bool {
	switch v.Kind() {
	case reflect.Slice, reflect.Map:
		return v.Len() == 0
	case reflect.Ptr, reflect.Interface:
		return v.IsNil()
	}
	return false
}

func deepEq(a, b reflect.Value, path string, skip map[string]bool) string {
	if skip[path] {
		return ""
	}
	if !a.IsValid() || !b.IsValid() {
		if a.IsValid() != b.IsValid() {
			return fmt.Sprintf("%s: one side invalid", path)
		}
		return ""
	}
	if a.Type() != b.Type() {
		return fmt.Sprintf("%s: type %s vs %s", path, a.Type(), b.Type())
	}
	switch a.Type() {
	case tTime:
		ta, tb := a.Interface().(time.Time), b.Interface().(time.Time)
		if ta.IsZero() && tb.IsZero() {
			return ""
		}
		if !ta.Equal(tb) {
			return fmt.Sprintf("%s: time %s vs %s", path, ta.UTC().Format(time.RFC3339Nano), tb.UTC().Format(time.RFC3339Nano))
		}
		return ""
	case tCid:
		ca, cb := a.Interface().(cid.Cid), b.Interface().(cid.Cid)
		if ca.KeyString() != cb.KeyString() {
			return fmt.Sprintf("%s: cid %s vs %s", path, ca, cb)
		}
		return ""
	}
	switch a.Kind() {
	case reflect.Ptr:
		if a.IsNil() || b.IsNil() {
			if a.IsNil() != b.IsNil() {
				return fmt.Sprintf("%s: nil vs non-nil pointer", path)
			}
			return ""
		}
		return deepEq(a.Elem(), b.Elem(), path, skip)
	case reflect.Interface:
		if a.IsNil() || b.IsNil() {
			if a.IsNil() != b.IsNil() {
				return fmt.Sprintf("%s: nil vs non-nil interface", path)
			}
			return ""
		}
		if a.Type().Implements(tMa) || a.Elem().Type().Implements(tMa) {
			ma1, ok1 := a.Interface().(ma.Multiaddr)
			ma2, ok2 := b.Interface().(ma.Multiaddr)
			if ok1 && ok2 {
				if !ma1.Equal(ma2) {
					return fmt.Sprintf("%s: multiaddr %s vs %s", path, ma1, ma2)
				}
				return ""
			}
		}
		return deepEq(a.Elem(), b.Elem(), path, skip)
	case reflect.Struct:
		for i := 0; i < a.NumField(); i++ {
			f := a.Type().Field(i)
			if f.PkgPath != "" { // unexported
				continue
			}
			p := f.Name
			if path != "" {
				p = path + "." + f.Name
			}
			if f.Anonymous {
				p = path // embedded: same path level
			}
			if d := deepEq(a.Field(i), b.Field(i), p, skip); d != "" {
				return d
			}
		}
		return ""
	case reflect.Slice, reflect.Array:
		if a.Kind() == reflect.Slice && a.Len() == 0 && b.Len() == 0 {
			return ""
		}
		if a.Len() != b.Len() {
			return fmt.Sprintf("%s: len %d vs %d", path, a.Len(), b.Len())
		}
		for i := 0; i < a.Len(); i++ {
			if d := deepEq(a.Index(i), b.Index(i), fmt.Sprintf("%s[%d]", path, i), skip); d != "" {
				return d
			}
		}
		return ""
	case reflect.Map:
		if a.Len() == 0 && b.Len() == 0 {
			return ""
		}
		if a.Len() != b.Len() {
			return fmt.Sprintf("%s: map len %d vs %d", path, a.Len(), b.Len())
		}
		for _, k := range a.MapKeys() {
			bv := b.MapIndex(k)
			if !bv.IsValid() {
				return fmt.Sprintf("%s: key %v missing", path, k)
			}
			if d := deepEq(a.MapIndex(k), bv, fmt.Sprintf("%s[%v]", path, k), skip); d != "" {
				return d
			}
		}
		return ""
	case reflect.String:
		if a.String() != b.String() {
			return fmt.Sprintf("%s: %q vs %q", path, a.String(), b.String())
		}
		return ""
	case reflect.Bool:
		if a.Bool() != b.Bool() {
			return fmt.Sprintf("%s: %v vs %v", path, a.Bool(), b.Bool())
		}
		return ""
	case reflect.Int, reflect.Int8, reflect.Int16, reflect.Int32, reflect.Int64:
		if a.Int() != b.Int() {
			return fmt.Sprintf("%s: %d vs %d", path, a.Int(), b.Int())
		}
		return ""
	case reflect.Uint, reflect.Uint8, reflect.Uint16, reflect.Uint32, reflect.Uint64:
		if a.Uint() != b.Uint() {
			return fmt.Sprintf("%s: %d vs %d", path, a.Uint(), b.Uint())
		}
		return ""
	case reflect.Float32, reflect.Float64:
		if a.Float() != b.Float() {
			return fmt.Sprintf("%s: %v vs %v", path, a.Float(), b.Float())
		}
		return ""
	}
	if !reflect.DeepEqual(a.Interface(), b.Interface()) {
		return fmt.Sprintf("%s: %v vs %v", path, a.Interface(), b.Interface())
	}
	return ""
}
