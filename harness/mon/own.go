package mon

import "github.com/ipfs/ipfs-cluster/api"

// The harness's own reading of two conventions of the pin record, so that no
// oracle asks the code under test what it should expect.

// DepthOf is the depth a plain pin of the given mode is stored with:
// recursive = unlimited (-1), direct = 0.
func DepthOf(m api.PinMode) api.PinDepth {
	if m == api.PinModeDirect {
		return 0
	}
	return -1
}

// Everywhere tells whether a pin is to be held by every member (both factors -1).
func Everywhere(p *api.Pin) bool {
	return p.ReplicationFactorMin == -1 && p.ReplicationFactorMax == -1
}
