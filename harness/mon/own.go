package mon

import (
	"time"

	"github.com/ipfs/ipfs-cluster/api"
)

// The harness's own reading of two conventions of the pin record, so that no
// oracle asks the code under test what it should expect.

// DepthOf is the depth a plain pin of the given mode is stored with:
// recursive = unlimited (-1), direct = 0.
func DepthOf(m api.PinMode) api.PinDepth {
	if m == api.PinModeDirect {
		return 0
	}
	return -1
}

// Everywhere tells whether a pin is to be held by every member (both factors -1).
func Everywhere(p *api.Pin) bool {
	return p.ReplicationFactorMin == -1 && p.ReplicationFactorMax == -1
}

// StoredForm is what the state must hold for a submitted pin, by the
// documented losses of the stored (protobuf) form only: user allocations are
// not stored, the mode follows from the depth, the expiry has second
// resolution. Everything else - metadata entries with empty values included -
// is stored as submitted.
func StoredForm(p *api.Pin) *api.Pin {
	q := *p
	q.UserAllocations = nil
	q.Mode = api.PinModeRecursive
	if q.MaxDepth == 0 {
		q.Mode = api.PinModeDirect
	}
	if !q.ExpireAt.IsZero() {
		q.ExpireAt = time.Unix(q.ExpireAt.Unix(), 0)
	}
	if p.Metadata != nil {
		q.Metadata = map[string]string{}
		for k, v := range p.Metadata {
			q.Metadata[k] = v
		}
	}
	return &q
}
