// Package c10: peer failure or removal re-homes under-replicated pins once and drops none; expiry.
package c10

import (
	"context"
	"fmt"
	"sort"
	"strings"
	"time"

	"verif/fw"
	"verif/gen"
	"verif/mon"
	"verif/sim"

	cid "github.com/ipfs/go-cid"
	ds "github.com/ipfs/go-datastore"
	ipfscluster "github.com/ipfs/ipfs-cluster"
	"github.com/ipfs/ipfs-cluster/api"
	host "github.com/libp2p/go-libp2p-core/host"
	peer "github.com/libp2p/go-libp2p-core/peer"
	dual "github.com/libp2p/go-libp2p-kad-dht/dual"
	pubsub "github.com/libp2p/go-libp2p-pubsub"
)

const maxNodes = 8

func init() {
	fw.Register(&fw.Prop{
		ID:    "C10",
		Level: "exploration",
		Rule: "Up to 8 real Clusters (real alertsHandler, vacatePeer, repinFromPeer, distance check, StateSync, allocate.go and allocators) share one model consensus state and peerset, each with its own scripted monitor. " +
			"Per scenario: 1-8 members, one of them failing (the same ping alert, plus non-ping alerts, is delivered to every survivor; a trailing marker alert is the logical 'handled' barrier) or being removed with PeerRemove on one peer; " +
			"5-40 generated pins with arbitrary allocations (incl. peers that left), factors, options (name, metadata, expiry, origins, shard size), pins created by pin-update (source present or gone), everywhere-pins and pins not held by the failing peer; " +
			"survivor metric states as in C03 (the failing peer may still report a valid allocation metric); re-pinning on/off; follower on/off. " +
			"Oracle from the recorded consensus submissions and before/after pinsets: nothing disappears; per pin held by the failing peer at most one survivor submits, exactly one when its healthy holders fell below min and enough candidates exist, " +
			"and then the stored allocation satisfies the C03 predicate with the failing peer excluded, does not contain it, and every option equals the original; everything else is content-identical; disabled/follower => no submission at all. " +
			"Expiry: StateSync on every member => each expired pin unpinned by exactly one peer, live ones by none. distinct_nontrivial counts distinct (path, members, situation of the pin) keys.",
		Assumptions: []string{
			"all members trust each other and see the same peerset (the property's premise); partial trust is not asserted",
			"handled-barrier: the alert handler is sequential, so consumption of a marker alert sent after the ping alert means the ping alert was fully processed; a barrier not reached within 20 s is inconclusive",
		},
		Cases: func(tier string) int {
			if tier == "thorough" {
				return 40000
			}
			return 4000
		},
		MinEvals: func(tier string) int {
			if tier == "thorough" {
				return 600000
			}
			return 50000
		},
		CaseTimeout:   180 * time.Second,
		ChildSetup:    setup,
		ChildTeardown: teardown,
		Run:           run,
	})
}

type member struct {
	node *sim.Node
	mon  *sim.ScriptedMonitor
	inf  *sim.StubInformer
}

type env struct {
	shared  *sim.SharedState
	members []*member
}

func newMember(i int, shared *sim.SharedState) (*member, error) {
	m := &member{mon: sim.NewScriptedMonitor(), inf: sim.NewStubInformer("m")}
	node, err := sim.NewNode(context.Background(), sim.NodeOpts{
		Key:     gen.Key(i),
		Monitor: m.mon,
		Consensus: func(h host.Host, _ *pubsub.PubSub, _ *dual.DHT, _ ds.Datastore, _ *ipfscluster.Config) (ipfscluster.Consensus, error) {
			return sim.NewModelConsensus(h.ID(), shared), nil
		},
		Informers: []ipfscluster.Informer{m.inf},
	})
	if err != nil {
		return nil, err
	}
	m.node = node
	return m, nil
}

func setup(c *fw.Ctx) {
	shared := sim.NewSharedState(nil)
	e := &env{shared: shared}
	for i := 0; i < maxNodes; i++ {
		m, err := newMember(i, shared)
		if err != nil {
			fmt.Println("C10 setup:", err)
			return
		}
		e.members = append(e.members, m)
	}
	c.Store["env"] = e
}

func teardown(c *fw.Ctx) {
	if e, ok := c.Store["env"].(*env); ok {
		for _, m := range e.members {
			m.node.Close()
		}
	}
}

func pidx(ps []peer.ID) string {
	var s []string
	for _, p := range ps {
		s = append(s, fmt.Sprint(gen.PeerIndex(p)))
	}
	return "[" + strings.Join(s, ",") + "]"
}

type snap map[string]*api.Pin

func snapshot(ctx context.Context, shared *sim.SharedState) snap {
	pins, _ := shared.State().List(ctx)
	out := snap{}
	for _, p := range pins {
		out[p.Cid.KeyString()] = p
	}
	return out
}

func sameAllocs(a, b []peer.ID) bool {
	return strings.Join(gen.SortedPeers(a), ",") == strings.Join(gen.SortedPeers(b), ",")
}

// waitHandled sends a marker alert to m and waits until it was consumed.
func waitHandled(m *member, disabled bool) bool {
	if disabled {
		// the handler stops at the ping alert: wait until it took it
		for i := 0; i < 400; i++ {
			if len(m.mon.AlertCh) == 0 {
				time.Sleep(30 * time.Millisecond)
				return true
			}
			time.Sleep(5 * time.Millisecond)
		}
		return false
	}
	m.mon.AlertCh <- &api.Alert{Metric: api.Metric{Name: "verif-marker", Peer: gen.Peer(23)}}
	m.mon.AlertCh <- &api.Alert{Metric: api.Metric{Name: "verif-marker2", Peer: gen.Peer(23)}}
	// the second marker can only be taken after the first was fully handled
	for i := 0; i < 4000; i++ {
		if len(m.mon.AlertCh) == 0 {
			time.Sleep(2 * time.Millisecond)
			return true
		}
		time.Sleep(5 * time.Millisecond)
	}
	return false
}

func run(c *fw.Ctx, idx int) {
	e, ok := c.Store["env"].(*env)
	if !ok {
		c.Inconclusive("clusters not built")
		return
	}
	r := c.Rand("main")
	if idx%5 == 4 {
		expiryCase(c, e, r)
		return
	}
	failureCase(c, e, r, idx)
}

func genPins(r *fw.Rand, n int, universe int, allowExpired bool) []*api.Pin {
	var pins []*api.Pin
	seen := map[string]bool{}
	for i := 0; i < n; i++ {
		p := gen.Pin(r, gen.PinParams{NPeers: universe, NoExpiry: true})
		p.Cid = gen.Cid(2000+i, r.Intn(5))
		if seen[p.Cid.KeyString()] {
			continue
		}
		seen[p.Cid.KeyString()] = true
		p.UserAllocations = nil
		p.PinUpdate = cid.Undef
		// the parts of a sharded add are entries like any other: shards (and, when somebody
		// gave it factors, the cluster DAG) are held by allocated peers and are re-homed too
		switch r.Intn(8) {
		case 0:
			p.Type, p.MaxDepth, p.Mode = api.ShardType, api.PinDepth(r.Range(1, 2)), api.PinModeRecursive
			if r.Bool() {
				ref := gen.Cid(2900+i, 1)
				p.Reference = &ref
			}
		case 1:
			ref := gen.Cid(2950+i, 1)
			p.Type, p.MaxDepth, p.Mode, p.Reference = api.ClusterDAGType, 0, api.PinModeDirect, &ref
		}
		if p.ReplicationFactorMin == -1 {
			p.Allocations = nil
		} else if len(p.Allocations) > p.ReplicationFactorMax {
			// the system never stores more holders than max
			p.Allocations = p.Allocations[:p.ReplicationFactorMax]
		}
		switch r.Intn(6) {
		case 0:
			p.ExpireAt = time.Unix(time.Now().Add(time.Hour).Unix(), 0)
		case 1:
			// (parts of a sharded add expire with their root, never on their own: Unpin refuses them)
			if allowExpired && p.Type == api.DataType {
				p.ExpireAt = time.Unix(time.Now().Add(-time.Hour).Unix(), 0)
			}
		}
		pins = append(pins, p)
	}
	// some pins were created by pin-update (source present or gone)
	for _, p := range pins {
		if r.Chance(1, 6) && len(pins) > 1 {
			if r.Bool() {
				p.PinUpdate = pins[r.Intn(len(pins))].Cid
			} else {
				p.PinUpdate = gen.Cid(7777, 1) // source no longer pinned
			}
			if p.PinUpdate.Equals(p.Cid) {
				p.PinUpdate = cid.Undef
			}
		}
	}
	return pins
}

func failureCase(c *fw.Ctx, e *env, r *fw.Rand, idx int) {
	ctx := context.Background()
	n := r.Range(1, maxNodes)
	members := gen.Peers(n)
	e.shared.Reset(members)
	fIdx := r.Intn(n)
	F := gen.Peer(fIdx)
	viaRemove := r.Chance(1, 3)
	disabled := r.Chance(1, 8)
	follower := r.Chance(1, 10)
	if disabled && !viaRemove {
		// the alert handler of a peer with re-pinning disabled never handles another alert:
		// exercise that combination on the removal path only (long-lived clusters)
		viaRemove = true
	}
	if n == 1 {
		viaRemove = true
	}
	// survivors' view of allocation metrics
	in0 := &mon.AllocInput{Members: map[peer.ID]bool{}, Metrics: map[peer.ID]mon.MetricState{}, Excluded: map[peer.ID]bool{F: true}}
	var metrics []*api.Metric
	kinds := ""
	for i := 0; i < n+1; i++ { // one non-member too
		p := gen.Peer(i)
		if i < n {
			in0.Members[p] = true
		}
		var ms mon.MetricState
		switch r.Intn(8) {
		case 0:
			ms.Kind = "absent"
		case 1:
			ms.Kind = "nonnumeric"
		default:
			ms.Kind = "valid"
			ms.Value = uint64(r.Intn(6))
		}
		if i == n {
			ms.Kind = "absent" // the scripted monitor is already filtered by membership
		}
		in0.Metrics[p] = ms
		kinds += ms.Kind[:1]
		if ms.Kind == "absent" {
			continue
		}
		m := &api.Metric{Name: "m", Peer: p, Valid: true, Value: fmt.Sprint(ms.Value), Expire: time.Now().Add(time.Hour).UnixNano()}
		if ms.Kind == "nonnumeric" {
			m.Value = "n/a"
		}
		metrics = append(metrics, m)
	}
	descend := r.Bool()
	// ping metrics as each member's own monitor sees them: complete, or - at one survivor -
	// lacking the ping of one live member (metric views are private and may differ; who acts
	// is decided on the agreed peerset, not on them)
	lackAt, lackOf := -1, -1
	if r.Chance(1, 2) && n >= 3 {
		lackAt = r.Intn(n)
		lackOf = (lackAt + 1 + r.Intn(n-1)) % n
	}
	for i := 0; i < maxNodes; i++ {
		var pings []*api.Metric
		for j := 0; j < n; j++ {
			if i == lackAt && j == lackOf {
				continue
			}
			pings = append(pings, &api.Metric{Name: "ping", Peer: gen.Peer(j), Valid: true, Expire: time.Now().Add(time.Hour).UnixNano()})
		}
		e.members[i].mon.SetMetrics("ping", pings)
	}
	for i := 0; i < maxNodes; i++ {
		m := e.members[i]
		m.mon.SetMetrics("m", metrics)
		m.node.Cfg.DisableRepinning = disabled
		m.node.Cfg.FollowerMode = follower
		m.node.Alloc.(*sim.SwitchAllocator).Descend = descend
	}
	defer func() {
		for i := 0; i < maxNodes; i++ {
			e.members[i].node.Cfg.DisableRepinning = false
			e.members[i].node.Cfg.FollowerMode = false
		}
	}()
	// a peer whose only alert is about another metric has not failed: nothing may move
	onlyNonPing := !viaRemove && r.Chance(1, 5)
	pins := genPins(r, r.Range(5, 40), n+1, false)
	for _, p := range pins {
		if err := e.shared.St.Add(ctx, p); err != nil {
			c.Inconclusive("seed: " + err.Error())
			return
		}
	}
	before := snapshot(ctx, e.shared)
	path := "alert"
	if onlyNonPing {
		path = "nonping-alert"
	}
	c.Journal("case %d n=%d F=%d remove=%v disabled=%v follower=%v pins=%d", idx, n, fIdx, viaRemove, disabled, follower, len(pins))
	if viaRemove {
		path = "remove"
		x := r.Intn(n) // the peer on which PeerRemove is called (may be the removed one)
		if err := e.members[x].node.Cluster.PeerRemove(ctx, F); err != nil {
			c.Violation("C10/remove/error", "PeerRemove failed: "+err.Error(), nil)
		}
		for _, q := range e.shared.Peers() {
			if q == F {
				c.Violation("C10/remove/peer-still-in-peerset", "removed peer still in the peerset", nil)
			}
		}
	} else {
		for i := 0; i < n; i++ {
			if i == fIdx {
				continue
			}
			m := e.members[i]
			if r.Chance(1, 3) { // alerts about other metrics never trigger re-pinning
				m.mon.AlertCh <- &api.Alert{Metric: api.Metric{Name: "freespace", Peer: F, Valid: true}}
			}
			if onlyNonPing {
				m.mon.AlertCh <- &api.Alert{Metric: api.Metric{Name: r.Pick("freespace", "numpin", "m"), Peer: F, Valid: true}}
				continue
			}
			m.mon.AlertCh <- &api.Alert{Metric: api.Metric{Name: "ping", Peer: F, Valid: true}, TriggeredAt: time.Now()}
		}
		for i := 0; i < n; i++ {
			if i == fIdx {
				continue
			}
			if !waitHandled(e.members[i], false) {
				c.Inconclusive("handled-barrier not reached")
				// drain so the next case starts clean
				for len(e.members[i].mon.AlertCh) > 0 {
					<-e.members[i].mon.AlertCh
				}
				return
			}
		}
	}
	after := snapshot(ctx, e.shared)
	log := e.shared.Log()
	subs := map[string]map[peer.ID]int{}
	for _, l := range log {
		switch l.Op {
		case "unpin":
			c.Violation("C10/"+path+"/unpin-submitted", "re-homing submitted an unpin for "+l.Pin.Cid.String(), nil)
		case "pin":
			k := l.Pin.Cid.KeyString()
			if subs[k] == nil {
				subs[k] = map[peer.ID]int{}
			}
			subs[k][l.By]++
			if l.By == F && !viaRemove {
				c.Violation("C10/"+path+"/failed-peer-acted", "the failed peer itself submitted a pin", nil)
			}
		}
	}
	detailFor := func(p *api.Pin, a *api.Pin) map[string]interface{} {
		d := map[string]interface{}{"path": path, "members": n, "failing": fIdx, "disabled": disabled, "follower": follower, "descend": descend,
			"metrics": kinds, "cid": p.Cid.String(), "allocations_before": pidx(p.Allocations), "min": p.ReplicationFactorMin, "max": p.ReplicationFactorMax,
			"pin_update": p.PinUpdate.String()}
		if a != nil {
			d["allocations_after"] = pidx(a.Allocations)
		}
		var who []string
		for by, cnt := range subs[p.Cid.KeyString()] {
			who = append(who, fmt.Sprintf("%d x%d", gen.PeerIndex(by), cnt))
		}
		sort.Strings(who)
		d["submitted_by"] = who
		return d
	}
	for k := range before {
		if after[k] == nil {
			c.Violation("C10/"+path+"/pin-disappeared", "a pin disappeared: "+before[k].Cid.String(), detailFor(before[k], nil))
		}
	}
	for k, a := range after {
		if before[k] == nil {
			c.Violation("C10/"+path+"/pin-appeared", "a pin appeared: "+a.Cid.String(), nil)
		}
	}
	for k, p := range before {
		a := after[k]
		if a == nil {
			continue
		}
		held := false
		for _, q := range p.Allocations {
			if q == F {
				held = true
			}
		}
		in := *in0
		in.Current = p.Allocations
		in.Min, in.Max = p.ReplicationFactorMin, p.ReplicationFactorMax
		in.Descend = descend
		healthyHolders := 0
		for _, q := range p.Allocations {
			if in.Healthy(q) {
				healthyHolders++
			}
		}
		var cands int
		for q := range in.Metrics {
			if in.Candidate(q) && !containsP(p.Allocations, q) {
				cands++
			}
		}
		isUpdate := p.PinUpdate.Defined()
		sit := "not-held"
		switch {
		case !held:
		case onlyNonPing:
			sit = "held/non-ping-alert-only"
		case disabled:
			sit = "held/disabled"
		case follower:
			sit = "held/follower"
		case p.ReplicationFactorMin == -1:
			sit = "held/everywhere"
		case healthyHolders >= p.ReplicationFactorMin:
			sit = "held/still-meets-min"
		case cands < p.ReplicationFactorMin-healthyHolders:
			sit = "held/under-min/no-candidates"
		default:
			sit = "held/under-min/rehome"
		}
		if isUpdate && held {
			sit += "/created-by-update"
		}
		c.Eval(fmt.Sprintf("%s/n%d/%s", path, n, sit))
		nsub := len(subs[k])
		if nsub > 1 {
			c.Violation("C10/"+path+"/more-than-one-actor/"+sit, fmt.Sprintf("%d survivors submitted a pin for the same CID", nsub), detailFor(p, a))
		}
		needRehome := strings.HasPrefix(sit, "held/under-min/rehome")
		if !needRehome {
			if !held || disabled || follower || onlyNonPing {
				if nsub > 0 {
					c.Violation("C10/"+path+"/untouchable-pin-submitted/"+sit, "a pin that must be left untouched was re-submitted", detailFor(p, a))
				}
			}
			// content-identical
			if d := mon.DeepEq(stripAlloc(p), stripAlloc(a), nil); d != "" || !sameAllocs(p.Allocations, a.Allocations) {
				c.Violation("C10/"+path+"/pin-changed/"+sit, "a pin that needed no re-homing changed: "+d+" allocations "+pidx(p.Allocations)+" -> "+pidx(a.Allocations), detailFor(p, a))
			}
			continue
		}
		// must be re-homed by exactly one survivor
		if nsub == 0 {
			c.Violation("C10/"+path+"/not-rehomed/"+sit, fmt.Sprintf("pin fell below min (healthy holders %d < %d, %d candidates) and nobody re-allocated it", healthyHolders, p.ReplicationFactorMin, cands), detailFor(p, a))
			continue
		}
		if containsP(a.Allocations, F) {
			c.Violation("C10/"+path+"/rehomed-onto-failed-peer/"+sit, "the new allocation still contains the failed/removed peer", detailFor(p, a))
		}
		if key, msg, _ := mon.CheckAlloc(&in, a.Allocations, nil); key != "" {
			c.Violation("C10/"+path+"/allocation/"+key+"/"+sit, msg, detailFor(p, a))
		}
		if d := mon.DeepEq(stripAlloc(p), stripAlloc(a), nil); d != "" {
			f := strings.SplitN(strings.SplitN(d, ":", 2)[0], "[", 2)[0]
			c.Violation("C10/"+path+"/option-lost/"+f+"/"+sit, "re-homing changed an option of the pin: "+d, detailFor(p, a))
		}
	}
	if idx%50 == 0 {
		c.Sample(map[string]interface{}{"path": path, "members": n, "failing": fIdx, "pins": len(pins), "disabled": disabled, "follower": follower, "submissions": len(log)})
	}
}

func containsP(l []peer.ID, p peer.ID) bool {
	for _, q := range l {
		if q == p {
			return true
		}
	}
	return false
}

func stripAlloc(p *api.Pin) *api.Pin {
	q := *p
	q.Allocations = nil
	return &q
}

func expiryCase(c *fw.Ctx, e *env, r *fw.Rand) {
	ctx := context.Background()
	n := r.Range(1, maxNodes)
	members := gen.Peers(n)
	e.shared.Reset(members)
	follower := r.Chance(1, 8)
	for i := 0; i < maxNodes; i++ {
		e.members[i].node.Cfg.FollowerMode = follower
	}
	defer func() {
		for i := 0; i < maxNodes; i++ {
			e.members[i].node.Cfg.FollowerMode = false
		}
	}()
	pins := genPins(r, r.Range(5, 30), n, true)
	for _, p := range pins {
		p.PinUpdate = cid.Undef
		e.shared.St.Add(ctx, p)
	}
	before := snapshot(ctx, e.shared)
	for _, i := range r.Perm(n) {
		if err := e.members[i].node.Cluster.StateSync(ctx); err != nil {
			c.Violation("C10/expiry/statesync-error", err.Error(), nil)
		}
	}
	after := snapshot(ctx, e.shared)
	unpins := map[string]map[peer.ID]int{}
	for _, l := range e.shared.Log() {
		if l.Op == "unpin" {
			k := l.Pin.Cid.KeyString()
			if unpins[k] == nil {
				unpins[k] = map[peer.ID]int{}
			}
			unpins[k][l.By]++
		}
		if l.Op == "pin" {
			c.Violation("C10/expiry/pin-submitted", "StateSync submitted a pin", nil)
		}
	}
	for k, p := range before {
		exp := !p.ExpireAt.IsZero() && p.ExpireAt.Before(time.Now())
		sit := "live"
		if exp {
			sit = "expired"
		}
		if follower {
			sit += "/follower"
		}
		c.Eval(fmt.Sprintf("expiry/n%d/%s", n, sit))
		total := 0
		for _, cnt := range unpins[k] {
			total += cnt
		}
		switch {
		case !exp || follower:
			if total > 0 {
				c.Violation("C10/expiry/unpinned-"+sit, "a pin that must stay was unpinned", p.Cid.String())
			}
			if after[k] == nil {
				c.Violation("C10/expiry/lost-"+sit, "a pin that must stay disappeared", p.Cid.String())
			}
		default:
			if len(unpins[k]) != 1 || total != 1 {
				c.Violation("C10/expiry/not-exactly-one-unpin", fmt.Sprintf("expired pin unpinned by %d peers (%d submissions), want exactly one", len(unpins[k]), total), map[string]interface{}{"cid": p.Cid.String(), "members": n})
			}
			if after[k] != nil {
				c.Violation("C10/expiry/expired-pin-remains", "expired pin still in the pinset after every member ran StateSync", p.Cid.String())
			}
		}
	}
}
