package sim

import (
	"context"
	"fmt"
	"time"

	cid "github.com/ipfs/go-cid"
	ds "github.com/ipfs/go-datastore"
	ipfscluster "github.com/ipfs/ipfs-cluster"
	"github.com/ipfs/ipfs-cluster/allocator/ascendalloc"
	"github.com/ipfs/ipfs-cluster/allocator/descendalloc"
	"github.com/ipfs/ipfs-cluster/api"
	"github.com/ipfs/ipfs-cluster/config"
	"github.com/ipfs/ipfs-cluster/datastore/inmem"
	"github.com/ipfs/ipfs-cluster/monitor/pubsubmon"
	libp2p "github.com/libp2p/go-libp2p"
	crypto "github.com/libp2p/go-libp2p-core/crypto"
	host "github.com/libp2p/go-libp2p-core/host"
	peer "github.com/libp2p/go-libp2p-core/peer"
	rpc "github.com/libp2p/go-libp2p-gorpc"
	dual "github.com/libp2p/go-libp2p-kad-dht/dual"
	pubsub "github.com/libp2p/go-libp2p-pubsub"
	ma "github.com/multiformats/go-multiaddr"
)

// SwitchAllocator delegates to one of the two shipped strategies; the
// strategy can be switched between cases on a long-lived Cluster.
type SwitchAllocator struct {
	Descend bool
	// After, when set, runs after every allocation (a driver changes the world
	// between two allocations with it).
	After func()
	asc     ascendalloc.AscendAllocator
	desc    descendalloc.DescendAllocator
}

func (s *SwitchAllocator) SetClient(*rpc.Client)          {}
func (s *SwitchAllocator) Shutdown(context.Context) error { return nil }
func (s *SwitchAllocator) Allocate(ctx context.Context, c cid.Cid, current, candidates, priority map[peer.ID]*api.Metric) ([]peer.ID, error) {
	if s.After != nil {
		defer s.After()
	}
	if s.Descend {
		return s.desc.Allocate(ctx, c, current, candidates, priority)
	}
	return s.asc.Allocate(ctx, c, current, candidates, priority)
}

// Node is one Cluster with everything around it.
type Node struct {
	ID        peer.ID
	Host      host.Host
	PubSub    *pubsub.PubSub
	DHT       *dual.DHT
	Store     ds.Datastore
	Cfg       *ipfscluster.Config
	Cluster   *ipfscluster.Cluster
	Consensus ipfscluster.Consensus
	Monitor   ipfscluster.PeerMonitor
	Tracker   ipfscluster.PinTracker
	IPFS      ipfscluster.IPFSConnector
	Alloc     ipfscluster.PinAllocator
	Informers []ipfscluster.Informer
	Client    *rpc.Client
}

// NodeOpts configures NewNode. Nil components get simulated defaults.
type NodeOpts struct {
	Key       crypto.PrivKey
	Secret    []byte
	Network   bool // real listening host built by ipfscluster.NewClusterHost
	Host      host.Host
	PubSub    *pubsub.PubSub
	DHT       *dual.DHT
	Tune      func(cfg *ipfscluster.Config)
	Consensus func(h host.Host, ps *pubsub.PubSub, dht *dual.DHT, store ds.Datastore, cfg *ipfscluster.Config) (ipfscluster.Consensus, error)
	Monitor   ipfscluster.PeerMonitor
	RealMon   bool // real pubsubmon fed with the consensus peerset
	Tracker   ipfscluster.PinTracker
	IPFS      ipfscluster.IPFSConnector
	Alloc     ipfscluster.PinAllocator
	Informers []ipfscluster.Informer
	APIs      []ipfscluster.API
	BaseDir   string
	// NoWaitReady returns right after NewCluster (a staging Raft peer only
	// becomes ready once it has joined).
	NoWaitReady bool
}

// QuietConfig returns a valid cluster config whose background activity is
// pushed far into the future, so that only what the driver triggers happens.
func QuietConfig(secret []byte) *ipfscluster.Config {
	cfg := &ipfscluster.Config{}
	cfg.Default()
	cfg.Secret = secret
	addr, _ := ma.NewMultiaddr("/ip4/127.0.0.1/tcp/0")
	cfg.ListenAddr = []ma.Multiaddr{addr}
	cfg.MDNSInterval = 0
	cfg.StateSyncInterval = 24 * time.Hour
	cfg.PinRecoverInterval = 24 * time.Hour
	cfg.MonitorPingInterval = time.Hour
	cfg.PeerWatchInterval = 24 * time.Hour
	cfg.ReplicationFactorMin = -1
	cfg.ReplicationFactorMax = -1
	cfg.LeaveOnShutdown = false
	cfg.Peername = "verif"
	return cfg
}

// NewNode builds a real ipfscluster.Cluster around the given components.
func NewNode(ctx context.Context, o NodeOpts) (*Node, error) {
	n := &Node{}
	cfg := QuietConfig(o.Secret)
	if o.BaseDir != "" {
		cfg.SetBaseDir(o.BaseDir)
	}
	if o.Tune != nil {
		o.Tune(cfg)
	}
	n.Cfg = cfg
	n.Store = inmem.New()
	var err error
	switch {
	case o.Host != nil:
		n.Host, n.PubSub, n.DHT = o.Host, o.PubSub, o.DHT
	case o.Network:
		pid, err := peer.IDFromPrivateKey(o.Key)
		if err != nil {
			return nil, err
		}
		ident := &config.Identity{ID: pid, PrivateKey: o.Key}
		n.Host, n.PubSub, n.DHT, err = ipfscluster.NewClusterHost(ctx, ident, cfg, n.Store)
		if err != nil {
			return nil, err
		}
	default:
		n.Host, err = libp2p.New(ctx, libp2p.Identity(o.Key), libp2p.NoListenAddrs)
		if err != nil {
			return nil, err
		}
	}
	n.ID = n.Host.ID()
	if o.Consensus == nil {
		return nil, fmt.Errorf("sim.NewNode: consensus constructor required")
	}
	n.Consensus, err = o.Consensus(n.Host, n.PubSub, n.DHT, n.Store, cfg)
	if err != nil {
		n.Host.Close()
		return nil, err
	}
	n.Monitor = o.Monitor
	if n.Monitor == nil {
		if o.RealMon {
			if n.PubSub == nil {
				n.PubSub, err = pubsub.NewGossipSub(ctx, n.Host)
				if err != nil {
					return nil, err
				}
			}
			mcfg := &pubsubmon.Config{}
			mcfg.Default()
			mcfg.CheckInterval = 24 * time.Hour
			cons := n.Consensus
			n.Monitor, err = pubsubmon.New(ctx, mcfg, n.PubSub, func(ctx context.Context) ([]peer.ID, error) { return cons.Peers(ctx) })
			if err != nil {
				return nil, err
			}
		} else {
			n.Monitor = NewScriptedMonitor()
		}
	}
	n.Tracker = o.Tracker
	if n.Tracker == nil {
		n.Tracker = &RecTracker{Self: n.ID}
	}
	n.IPFS = o.IPFS
	if n.IPFS == nil {
		n.IPFS = NewIPFSModel(n.ID)
	}
	n.Alloc = o.Alloc
	if n.Alloc == nil {
		n.Alloc = &SwitchAllocator{}
	}
	n.Informers = o.Informers
	if len(n.Informers) == 0 {
		n.Informers = []ipfscluster.Informer{NewStubInformer("freespace")}
	}
	tracer := &CatchTracer{}
	n.Cluster, err = ipfscluster.NewCluster(ctx, n.Host, n.DHT, cfg, n.Store, n.Consensus, append([]ipfscluster.API{tracer}, o.APIs...), n.IPFS, n.Tracker, n.Monitor, n.Alloc, n.Informers, tracer)
	if err != nil {
		n.Host.Close()
		return nil, err
	}
	n.Client = tracer.Client()
	if o.NoWaitReady {
		return n, nil
	}
	select {
	case <-n.Cluster.Ready():
	case <-time.After(60 * time.Second):
		n.Cluster.Shutdown(ctx)
		n.Host.Close()
		return nil, fmt.Errorf("cluster not ready within 60s")
	}
	return n, nil
}

// Close shuts the node down.
func (n *Node) Close() {
	ctx, cancel := context.WithTimeout(context.Background(), 30*time.Second)
	defer cancel()
	if n.Cluster != nil {
		n.Cluster.Shutdown(ctx)
	}
	if n.DHT != nil {
		n.DHT.Close()
	}
	if n.Host != nil {
		n.Host.Close()
	}
	if n.Store != nil {
		n.Store.Close()
	}
}
