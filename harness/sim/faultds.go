package sim

import (
	"errors"
	"runtime"
	"strings"
	"sync"
	"time"

	ds "github.com/ipfs/go-datastore"
	dsq "github.com/ipfs/go-datastore/query"
)

// DSEvent is one write that reached the datastore under a consensus component.
type DSEvent struct {
	Ver   int64  // monotone version of this replica's store after the write
	Op    string // put | delete
	Key   string
	Value []byte
	Kind  string // apply | restore | other (from the call stack, see classify)
	At    int64  // UnixNano
}

// FaultDS wraps the datastore handed to a consensus component: a versioned
// journal of every write (each replica's apply order at the component's
// boundary) plus a fault script.
type FaultDS struct {
	inner ds.Datastore

	mu     sync.Mutex
	ver    int64
	events []DSEvent
	// FailWrites, when it returns an error for an op ("put","delete","commit","query"), makes that op fail.
	FailWrites func(op string, n int) error
	counts     map[string]int
}

// NewFaultDS wraps inner.
func NewFaultDS(inner ds.Datastore) *FaultDS {
	return &FaultDS{inner: inner, counts: map[string]int{}}
}

// classify tags a write by who performs it: hashicorp/raft's FSM interface
// fixes the method names Apply and Restore; go-libp2p-raft implements them on
// its FSM type.
func classify() string {
	pcs := make([]uintptr, 40)
	n := runtime.Callers(3, pcs)
	frames := runtime.CallersFrames(pcs[:n])
	for {
		f, more := frames.Next()
		if strings.HasSuffix(f.Function, "go-libp2p-raft.(*FSM).Restore") {
			return "restore"
		}
		if strings.HasSuffix(f.Function, "go-libp2p-raft.(*FSM).Apply") {
			return "apply"
		}
		if !more {
			break
		}
	}
	return "other"
}

func (f *FaultDS) fail(op string) error {
	f.mu.Lock()
	f.counts[op]++
	n := f.counts[op]
	fn := f.FailWrites
	f.mu.Unlock()
	if fn != nil {
		return fn(op, n)
	}
	return nil
}

func (f *FaultDS) record(op string, key ds.Key, value []byte, kind string) {
	f.mu.Lock()
	f.ver++
	f.events = append(f.events, DSEvent{Ver: f.ver, Op: op, Key: key.String(), Value: append([]byte{}, value...), Kind: kind, At: time.Now().UnixNano()})
	f.mu.Unlock()
}

// Events returns a copy of the journal.
func (f *FaultDS) Events() []DSEvent {
	f.mu.Lock()
	defer f.mu.Unlock()
	return append([]DSEvent{}, f.events...)
}

// Version is the current version.
func (f *FaultDS) Version() int64 {
	f.mu.Lock()
	defer f.mu.Unlock()
	return f.ver
}

func (f *FaultDS) Put(key ds.Key, value []byte) error {
	if err := f.fail("put"); err != nil {
		return err
	}
	kind := classify()
	// journal and store change together
	f.mu.Lock()
	err := f.inner.Put(key, value)
	if err == nil {
		f.ver++
		f.events = append(f.events, DSEvent{Ver: f.ver, Op: "put", Key: key.String(), Value: append([]byte{}, value...), Kind: kind, At: time.Now().UnixNano()})
	}
	f.mu.Unlock()
	return err
}

func (f *FaultDS) Delete(key ds.Key) error {
	if err := f.fail("delete"); err != nil {
		return err
	}
	kind := classify()
	f.mu.Lock()
	err := f.inner.Delete(key)
	if err == nil {
		f.ver++
		f.events = append(f.events, DSEvent{Ver: f.ver, Op: "delete", Key: key.String(), Kind: kind, At: time.Now().UnixNano()})
	}
	f.mu.Unlock()
	return err
}

func (f *FaultDS) Get(key ds.Key) ([]byte, error)  { return f.inner.Get(key) }
func (f *FaultDS) Has(key ds.Key) (bool, error)    { return f.inner.Has(key) }
func (f *FaultDS) GetSize(key ds.Key) (int, error) { return f.inner.GetSize(key) }
func (f *FaultDS) Sync(prefix ds.Key) error        { return f.inner.Sync(prefix) }
func (f *FaultDS) Close() error                    { return nil }
func (f *FaultDS) Query(q dsq.Query) (dsq.Results, error) {
	if err := f.fail("query"); err != nil {
		return nil, err
	}
	// a consistent view: taken under the journal lock, so a listing always
	// equals the content at one journal version
	f.mu.Lock()
	defer f.mu.Unlock()
	res, err := f.inner.Query(q)
	if err != nil {
		return nil, err
	}
	entries, err := res.Rest()
	if err != nil {
		return nil, err
	}
	return dsq.ResultsWithEntries(q, entries), nil
}

// Batch implements ds.Batching when the inner store does.
func (f *FaultDS) Batch() (ds.Batch, error) {
	b, ok := f.inner.(ds.Batching)
	if !ok {
		return nil, errors.New("inner datastore does not batch")
	}
	ib, err := b.Batch()
	if err != nil {
		return nil, err
	}
	return &faultBatch{f: f, inner: ib}, nil
}

type faultBatch struct {
	f     *FaultDS
	inner ds.Batch
	ops   []DSEvent
}

func (b *faultBatch) Put(key ds.Key, value []byte) error {
	b.ops = append(b.ops, DSEvent{Op: "put", Key: key.String(), Value: append([]byte{}, value...)})
	return b.inner.Put(key, value)
}
func (b *faultBatch) Delete(key ds.Key) error {
	b.ops = append(b.ops, DSEvent{Op: "delete", Key: key.String()})
	return b.inner.Delete(key)
}
func (b *faultBatch) Commit() error {
	if err := b.f.fail("commit"); err != nil {
		return err
	}
	b.f.mu.Lock()
	defer b.f.mu.Unlock()
	err := b.inner.Commit()
	if err == nil {
		for _, op := range b.ops {
			b.f.ver++
			op.Ver = b.f.ver
			op.Kind = "batch"
			op.At = time.Now().UnixNano()
			b.f.events = append(b.f.events, op)
		}
	}
	b.ops = nil
	return err
}
