package sim

import (
	"reflect"
	"unsafe"

	hraft "github.com/hashicorp/raft"
	ipfscluster "github.com/ipfs/ipfs-cluster"
)

// RaftHandle returns the hashicorp/raft instance inside a raft.Consensus (an
// unexported field, read through reflection: read-only observation, no hook
// in the repository needed). Nil when the component is not Raft.
func RaftHandle(cons ipfscluster.Consensus) *hraft.Raft {
	v := reflect.ValueOf(cons)
	if v.Kind() != reflect.Ptr || v.IsNil() {
		return nil
	}
	f := v.Elem().FieldByName("raft")
	if !f.IsValid() || f.Kind() != reflect.Ptr || f.IsNil() {
		return nil
	}
	g := f.Elem().FieldByName("raft")
	if !g.IsValid() || g.Kind() != reflect.Ptr || g.IsNil() {
		return nil
	}
	p := reflect.NewAt(g.Type(), unsafe.Pointer(g.UnsafeAddr())).Elem().Interface()
	r, _ := p.(*hraft.Raft)
	return r
}
