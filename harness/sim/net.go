package sim

import (
	"context"
	"fmt"
	"os"
	"path/filepath"
	"sync"
	"time"

	ds "github.com/ipfs/go-datastore"
	ipns "github.com/ipfs/go-ipns"
	ipfscluster "github.com/ipfs/ipfs-cluster"
	"github.com/ipfs/ipfs-cluster/config"
	"github.com/ipfs/ipfs-cluster/consensus/crdt"
	"github.com/ipfs/ipfs-cluster/consensus/raft"
	"github.com/ipfs/ipfs-cluster/datastore/inmem"
	libp2p "github.com/libp2p/go-libp2p"
	"github.com/libp2p/go-libp2p-core/control"
	crypto "github.com/libp2p/go-libp2p-core/crypto"
	host "github.com/libp2p/go-libp2p-core/host"
	"github.com/libp2p/go-libp2p-core/network"
	peer "github.com/libp2p/go-libp2p-core/peer"
	peerstore "github.com/libp2p/go-libp2p-core/peerstore"
	"github.com/libp2p/go-libp2p-core/routing"
	dht "github.com/libp2p/go-libp2p-kad-dht"
	dual "github.com/libp2p/go-libp2p-kad-dht/dual"
	noise "github.com/libp2p/go-libp2p-noise"
	pubsub "github.com/libp2p/go-libp2p-pubsub"
	record "github.com/libp2p/go-libp2p-record"
	libp2ptls "github.com/libp2p/go-libp2p-tls"
	ma "github.com/multiformats/go-multiaddr"
)

// Gater is a libp2p ConnectionGater the driver uses to form partitions.
type Gater struct {
	mu      sync.Mutex
	blocked map[peer.ID]bool
	h       host.Host
}

// NewGater makes an open gater.
func NewGater() *Gater { return &Gater{blocked: map[peer.ID]bool{}} }

// Block cuts the peer off (and closes existing connections).
func (g *Gater) Block(p peer.ID) {
	g.mu.Lock()
	g.blocked[p] = true
	h := g.h
	g.mu.Unlock()
	if h != nil {
		h.Network().ClosePeer(p)
	}
}

// Unblock re-admits the peer.
func (g *Gater) Unblock(p peer.ID) {
	g.mu.Lock()
	delete(g.blocked, p)
	g.mu.Unlock()
}

// UnblockAll opens the gater.
func (g *Gater) UnblockAll() {
	g.mu.Lock()
	g.blocked = map[peer.ID]bool{}
	g.mu.Unlock()
}

func (g *Gater) ok(p peer.ID) bool {
	g.mu.Lock()
	defer g.mu.Unlock()
	return !g.blocked[p]
}

func (g *Gater) InterceptPeerDial(p peer.ID) bool                 { return g.ok(p) }
func (g *Gater) InterceptAddrDial(p peer.ID, _ ma.Multiaddr) bool { return g.ok(p) }
func (g *Gater) InterceptAccept(network.ConnMultiaddrs) bool      { return true }
func (g *Gater) InterceptSecured(_ network.Direction, p peer.ID, _ network.ConnMultiaddrs) bool {
	return g.ok(p)
}
func (g *Gater) InterceptUpgraded(network.Conn) (bool, control.DisconnectReason) { return true, 0 }

// NewNetHost builds a listening libp2p host the way ipfscluster.NewClusterHost
// does (private network, noise+tls, TCP, dual DHT, signed gossipsub), plus a
// connection gater.
func NewNetHost(ctx context.Context, key crypto.PrivKey, secret []byte, store ds.Datastore, g *Gater) (host.Host, *pubsub.PubSub, *dual.DHT, error) {
	return NewNetHostPS(ctx, key, secret, store, g)
}

// NewNetHostPS is NewNetHost with the gossipsub options chosen by the caller
// (none given = signed messages, strict verification, as the cluster does).
func NewNetHostPS(ctx context.Context, key crypto.PrivKey, secret []byte, store ds.Datastore, g *Gater, psOpts ...pubsub.Option) (host.Host, *pubsub.PubSub, *dual.DHT, error) {
	var idht *dual.DHT
	var err error
	opts := []libp2p.Option{
		libp2p.Identity(key),
		libp2p.ListenAddrStrings("/ip4/127.0.0.1/tcp/0"),
		libp2p.PrivateNetwork(secret),
		libp2p.Security(noise.ID, noise.New),
		libp2p.Security(libp2ptls.ID, libp2ptls.New),
		libp2p.DefaultTransports,
		libp2p.Routing(func(h host.Host) (routing.PeerRouting, error) {
			idht, err = dual.New(ctx, h,
				dual.DHTOption(dht.NamespacedValidator("pk", record.PublicKeyValidator{})),
				dual.DHTOption(dht.NamespacedValidator("ipns", ipns.Validator{KeyBook: h.Peerstore()})),
				dual.DHTOption(dht.Concurrency(10)))
			return idht, err
		}),
	}
	if g != nil {
		opts = append(opts, libp2p.ConnectionGater(g))
	}
	h, err := libp2p.New(ctx, opts...)
	if err != nil {
		return nil, nil, nil, err
	}
	if g != nil {
		g.mu.Lock()
		g.h = h
		g.mu.Unlock()
	}
	if len(psOpts) == 0 {
		psOpts = []pubsub.Option{pubsub.WithMessageSigning(true), pubsub.WithStrictSignatureVerification(true)}
	}
	ps, err := pubsub.NewGossipSub(ctx, h, psOpts...)
	if err != nil {
		h.Close()
		return nil, nil, nil, err
	}
	return h, ps, idht, nil
}

// NetSecret is the shared cluster secret of simulated networks.
var NetSecret = []byte("verif-verif-verif-verif-verif-32")

// RaftTune sets fast Raft timings and small snapshot/trailing settings.
type RaftTune struct {
	SnapshotThreshold uint64
	TrailingLogs      uint64
	SnapshotInterval  time.Duration
	MaxAppendEntries  int
	BackupsRotate     int
	NoCommitRetries   bool // commit_retries = 0: one try per operation
}

// RaftConfig returns a raft config for a peer folder.
func RaftConfig(dir string, peers []peer.ID, t RaftTune) *raft.Config {
	cfg := &raft.Config{}
	cfg.Default()
	cfg.SetBaseDir(dir)
	cfg.DataFolder = filepath.Join(dir, "raft")
	cfg.InitPeerset = append([]peer.ID{}, peers...) // own copy: raft appends to it
	cfg.WaitForLeaderTimeout = 15 * time.Second
	cfg.CommitRetries = 2
	cfg.CommitRetryDelay = 50 * time.Millisecond
	cfg.BackupsRotate = 2
	cfg.NetworkTimeout = 3 * time.Second
	cfg.RaftConfig.HeartbeatTimeout = 300 * time.Millisecond
	cfg.RaftConfig.ElectionTimeout = 300 * time.Millisecond
	cfg.RaftConfig.CommitTimeout = 30 * time.Millisecond
	cfg.RaftConfig.LeaderLeaseTimeout = 250 * time.Millisecond
	cfg.RaftConfig.MaxAppendEntries = 64
	cfg.RaftConfig.TrailingLogs = 10240
	cfg.RaftConfig.SnapshotInterval = 2 * time.Minute
	cfg.RaftConfig.SnapshotThreshold = 8192
	if t.SnapshotThreshold > 0 {
		cfg.RaftConfig.SnapshotThreshold = t.SnapshotThreshold
	}
	if t.TrailingLogs > 0 {
		cfg.RaftConfig.TrailingLogs = t.TrailingLogs
	}
	if t.NoCommitRetries {
		cfg.CommitRetries = 0
	}
	if t.BackupsRotate > 0 {
		cfg.BackupsRotate = t.BackupsRotate
	}
	if t.MaxAppendEntries > 0 {
		cfg.RaftConfig.MaxAppendEntries = t.MaxAppendEntries
	}
	if t.SnapshotInterval > 0 {
		cfg.RaftConfig.SnapshotInterval = t.SnapshotInterval
	}
	return cfg
}

// NetPeer describes one networked peer before/after start.
type NetPeer struct {
	Idx     int
	Key     crypto.PrivKey
	ID      peer.ID
	Dir     string
	Gater   *Gater
	Node    *Node
	Tracker *RecTracker
	IPFS    *IPFSModel
	Mon     *ScriptedMonitor
	RaftCfg *raft.Config
	CrdtCfg *crdt.Config
	// WrapStore lets a check interpose on the datastore handed to consensus.
	WrapStore func(ds.Datastore) ds.Datastore
	Store     ds.Datastore
	Host      host.Host
	PubSub    *pubsub.PubSub
	DHT       *dual.DHT
	// SlowRaft > 0 delays every read on incoming Raft streams (see SlowHost).
	SlowRaft time.Duration
	Slow     *SlowHost
	// RealHost: host, pubsub and DHT come from ipfscluster.NewClusterHost (the
	// code's own construction, signature policy included); no gater then.
	RealHost bool
	// PubSubOpts replaces the gossipsub options of a harness-built host.
	PubSubOpts []pubsub.Option
}

// PrepareHost creates the peer's libp2p host (so that addresses can be
// exchanged before consensus starts).
func (p *NetPeer) PrepareHost(ctx context.Context) error {
	if p.Gater == nil {
		p.Gater = NewGater()
	}
	p.Store = inmem.New()
	var h host.Host
	var ps *pubsub.PubSub
	var idht *dual.DHT
	var err error
	if p.RealHost {
		pid, perr := peer.IDFromPrivateKey(p.Key)
		if perr != nil {
			return perr
		}
		h, ps, idht, err = ipfscluster.NewClusterHost(ctx, &config.Identity{ID: pid, PrivateKey: p.Key}, QuietConfig(NetSecret), p.Store)
	} else {
		h, ps, idht, err = NewNetHostPS(ctx, p.Key, NetSecret, p.Store, p.Gater, p.PubSubOpts...)
	}
	if err != nil {
		return err
	}
	p.Host, p.PubSub, p.DHT = h, ps, idht
	p.ID = h.ID()
	if p.SlowRaft > 0 {
		p.Slow = NewSlowHost(h, "raft", p.SlowRaft)
		p.Host = p.Slow
	}
	return nil
}

// NetOpts configures StartPeer.
type NetOpts struct {
	Consensus   string // raft | crdt
	Peers       []peer.ID
	RaftTune    RaftTune
	Staging     bool
	CrdtTune    func(cfg *crdt.Config)
	Tune        func(cfg *ipfscluster.Config)
	Tracker     ipfscluster.PinTracker
	IPFS        ipfscluster.IPFSConnector
	RealMon     bool
	NoWaitReady bool
	Informers   []ipfscluster.Informer
}

// StartPeer boots a real Cluster peer with real consensus on a real host.
func StartPeer(ctx context.Context, p *NetPeer, o NetOpts) error {
	os.MkdirAll(p.Dir, 0o755)
	if p.Host == nil {
		if err := p.PrepareHost(ctx); err != nil {
			return err
		}
	}
	base := p.Store
	h, ps, idht := p.Host, p.PubSub, p.DHT
	if p.Tracker == nil {
		p.Tracker = &RecTracker{Self: p.ID}
	}
	if p.IPFS == nil {
		p.IPFS = NewIPFSModel(p.ID)
	}
	var tracker ipfscluster.PinTracker = p.Tracker
	if o.Tracker != nil {
		tracker = o.Tracker
	}
	var ipfs ipfscluster.IPFSConnector = p.IPFS
	if o.IPFS != nil {
		ipfs = o.IPFS
	}
	var mon ipfscluster.PeerMonitor
	if !o.RealMon {
		p.Mon = NewScriptedMonitor()
		mon = p.Mon
	}
	node, err := NewNode(ctx, NodeOpts{
		Host: h, PubSub: ps, DHT: idht,
		Secret:      NetSecret,
		BaseDir:     p.Dir,
		NoWaitReady: o.NoWaitReady,
		Tune:        o.Tune,
		Monitor:     mon,
		RealMon:     o.RealMon,
		Informers:   o.Informers,
		Tracker:     tracker,
		IPFS:        ipfs,
		Consensus: func(h host.Host, ps *pubsub.PubSub, d *dual.DHT, store ds.Datastore, _ *ipfscluster.Config) (ipfscluster.Consensus, error) {
			cs := store
			if p.WrapStore != nil {
				cs = p.WrapStore(store)
			}
			switch o.Consensus {
			case "raft":
				p.RaftCfg = RaftConfig(p.Dir, o.Peers, o.RaftTune)
				return raft.NewConsensus(h, p.RaftCfg, cs, o.Staging)
			case "crdt":
				cfg := &crdt.Config{}
				cfg.Default()
				cfg.ClusterName = "verif"
				cfg.RebroadcastInterval = 300 * time.Millisecond
				cfg.TrustAll = true
				if o.CrdtTune != nil {
					o.CrdtTune(cfg)
				}
				p.CrdtCfg = cfg
				return crdt.New(h, d, ps, cfg, cs)
			}
			return nil, fmt.Errorf("unknown consensus %q", o.Consensus)
		},
	})
	if err != nil {
		h.Close()
		return err
	}
	node.Store = base
	p.Node = node
	return nil
}

// ShareAddrs makes every host know every other host's addresses without
// dialing. (Components such as bitswap only learn about peers from connection
// events that happen after they were created, so peers are connected after
// the clusters have started; Raft dials on demand from the peerstore.)
func ShareAddrs(hosts []host.Host) {
	for _, a := range hosts {
		for _, b := range hosts {
			if a.ID() == b.ID() {
				continue
			}
			a.Peerstore().AddAddrs(b.ID(), b.Addrs(), peerstore.PermanentAddrTTL)
		}
	}
}

// ConnectAll makes every pair of hosts know and dial each other.
func ConnectAll(ctx context.Context, hosts []host.Host) {
	for _, a := range hosts {
		for _, b := range hosts {
			if a.ID() == b.ID() {
				continue
			}
			a.Peerstore().AddAddrs(b.ID(), b.Addrs(), peerstore.PermanentAddrTTL)
		}
	}
	for _, a := range hosts {
		for _, b := range hosts {
			if a.ID() < b.ID() {
				a.Connect(ctx, peer.AddrInfo{ID: b.ID(), Addrs: b.Addrs()})
			}
		}
	}
}
