package sim

import (
	"bytes"
	"encoding/json"
	"fmt"
	"io"
	"io/ioutil"
	"mime"
	"mime/multipart"
	"net"
	"net/http"
	"sort"
	"strings"
	"sync"
	"time"

	cid "github.com/ipfs/go-cid"
)

// HTTPReq is one request received by the fake daemon, byte for byte.
type HTTPReq struct {
	Seq      int
	Method   string
	Path     string // URL path as received
	RawQuery string
	Body     []byte
	Header   http.Header
	// what the daemon did with it
	Handled string
	// MaxGap is the longest time the daemon itself measured between two
	// consecutive progress lines it wrote (or between the arrival of the
	// request and the first line): what the scripted cadence really was on
	// this machine.
	MaxGap time.Duration
}

// HTTPReply scripts the daemon's behaviour for one request. The zero value
// means "behave like a healthy daemon".
type HTTPReply struct {
	Kind string // "" | ipfs-error | non-json | reset | reset-mid-body | stall | progress-stall | progress-repeat-stall | progress-late-error | slow-progress | raw
	// Message for ipfs-error / progress-late-error
	Message string
	// Status for non-json / raw
	Status int
	Body   []byte
	// Progress steps and pacing for the progress kinds
	Steps    int
	Interval time.Duration
	// Stall duration (the handler returns when the client goes away or this passes)
	Stall time.Duration
	// NoEffect: for progress kinds that must not pin (error paths never pin)
}

// FakeIPFS is a net/http server speaking the subset of the go-ipfs HTTP API
// that ipfs-cluster uses, with go-ipfs's observable conventions, a pin table
// that is the ground truth of the scenario, and a per-request script.
type FakeIPFS struct {
	mu     sync.Mutex
	pins   map[string]string // cid string -> recursive|direct
	blocks map[string][]byte
	reqs   []HTTPReq
	gen    int // incremented by ResetLog: requests of an earlier generation have no record
	Script func(r *HTTPReq) *HTTPReply
	srv    *http.Server
	ln     net.Listener
	PeerID string
}

// NewFakeIPFS starts the daemon on 127.0.0.1:0.
func NewFakeIPFS() (*FakeIPFS, error) {
	f := &FakeIPFS{pins: map[string]string{}, blocks: map[string][]byte{}, PeerID: "12D3KooWMdxBsGVaSpibDF1bC5WQPfkJsfwYBmymNJCuZCivpZHE"}
	ln, err := net.Listen("tcp", "127.0.0.1:0")
	if err != nil {
		return nil, err
	}
	f.ln = ln
	f.srv = &http.Server{Handler: http.HandlerFunc(f.serve)}
	go f.srv.Serve(ln)
	return f, nil
}

// Addr is host:port.
func (f *FakeIPFS) Addr() string { return f.ln.Addr().String() }

// Multiaddr is the /ip4/.../tcp/... form.
func (f *FakeIPFS) Multiaddr() string {
	h, p, _ := net.SplitHostPort(f.Addr())
	return fmt.Sprintf("/ip4/%s/tcp/%s", h, p)
}

// Close stops the daemon.
func (f *FakeIPFS) Close() { f.srv.Close() }

// SetScript installs the per-request script.
func (f *FakeIPFS) SetScript(s func(r *HTTPReq) *HTTPReply) {
	f.mu.Lock()
	f.Script = s
	f.mu.Unlock()
}

// Requests returns the log.
func (f *FakeIPFS) Requests() []HTTPReq {
	f.mu.Lock()
	defer f.mu.Unlock()
	return append([]HTTPReq{}, f.reqs...)
}

// ResetLog forgets the requests.
func (f *FakeIPFS) ResetLog() {
	f.mu.Lock()
	f.reqs = nil
	f.gen++
	f.mu.Unlock()
}

// SetPin writes the pin table.
func (f *FakeIPFS) SetPin(c cid.Cid, mode string) {
	f.mu.Lock()
	defer f.mu.Unlock()
	if mode == "" {
		delete(f.pins, c.String())
	} else {
		f.pins[c.String()] = mode
	}
}

// ModeOf reads the pin table.
func (f *FakeIPFS) ModeOf(c cid.Cid) string {
	f.mu.Lock()
	defer f.mu.Unlock()
	return f.pins[c.String()]
}

// Pins returns a copy of the table.
func (f *FakeIPFS) Pins() map[string]string {
	f.mu.Lock()
	defer f.mu.Unlock()
	out := map[string]string{}
	for k, v := range f.pins {
		out[k] = v
	}
	return out
}

func ipfsErr(w http.ResponseWriter, msg string) {
	w.Header().Set("Content-Type", "application/json")
	w.WriteHeader(http.StatusInternalServerError)
	b, _ := json.Marshal(map[string]interface{}{"Message": msg, "Code": 0, "Type": "error"})
	w.Write(b)
}

func normCid(s string) string {
	s = strings.TrimPrefix(s, "/ipfs/")
	c, err := cid.Decode(s)
	if err != nil {
		return ""
	}
	return c.String()
}

func (f *FakeIPFS) serve(w http.ResponseWriter, r *http.Request) {
	body, _ := ioutil.ReadAll(r.Body)
	f.mu.Lock()
	rec := HTTPReq{Seq: len(f.reqs), Method: r.Method, Path: r.URL.Path, RawQuery: r.URL.RawQuery, Body: body, Header: r.Header.Clone()}
	f.reqs = append(f.reqs, rec)
	idx := len(f.reqs) - 1
	gen := f.gen
	script := f.Script
	f.mu.Unlock()
	setHandled := func(s string) {
		f.mu.Lock()
		// a request that outlived a Reset (a stalled one from the previous
		// case) has no record any more
		if gen == f.gen && idx < len(f.reqs) {
			f.reqs[idx].Handled = s
		}
		f.mu.Unlock()
	}
	arrived := time.Now()
	setGap := func(d time.Duration) {
		f.mu.Lock()
		if gen == f.gen && idx < len(f.reqs) && d > f.reqs[idx].MaxGap {
			f.reqs[idx].MaxGap = d
		}
		f.mu.Unlock()
	}
	var rep *HTTPReply
	if script != nil {
		rep = script(&rec)
	}
	if rep == nil {
		rep = &HTTPReply{}
	}
	// headers a real daemon sends (the proxy copies some of them)
	w.Header().Set("Server", "go-ipfs/0.9.0-fake")
	w.Header().Set("Access-Control-Allow-Headers", "X-Stream-Output, X-Chunked-Output, X-Content-Length")
	w.Header().Set("Access-Control-Expose-Headers", "X-Stream-Output, X-Chunked-Output, X-Content-Length")
	w.Header().Set("Trailer", "X-Stream-Error")
	switch rep.Kind {
	case "ipfs-error":
		setHandled("scripted ipfs-error")
		ipfsErr(w, rep.Message)
		return
	case "non-json":
		setHandled("scripted non-json")
		st := rep.Status
		if st == 0 {
			st = 500
		}
		w.WriteHeader(st)
		w.Write([]byte("<html>bad gateway</html>"))
		return
	case "raw":
		setHandled("scripted raw")
		st := rep.Status
		if st == 0 {
			st = 200
		}
		w.WriteHeader(st)
		w.Write(rep.Body)
		return
	case "reset":
		setHandled("scripted reset")
		if hj, ok := w.(http.Hijacker); ok {
			conn, _, _ := hj.Hijack()
			conn.Close()
		}
		return
	case "reset-mid-body":
		setHandled("scripted reset-mid-body")
		if hj, ok := w.(http.Hijacker); ok {
			conn, buf, _ := hj.Hijack()
			buf.WriteString("HTTP/1.1 200 OK\r\nContent-Type: application/json\r\nTransfer-Encoding: chunked\r\n\r\n10\r\n{\"Progress\":1}\n\r\n")
			buf.Flush()
			conn.Close()
		}
		return
	case "stall":
		setHandled("scripted stall")
		select {
		case <-r.Context().Done():
		case <-time.After(rep.Stall):
		}
		// a daemon that hung never answers: drop the connection
		if hj, ok := w.(http.Hijacker); ok {
			if conn, _, err := hj.Hijack(); err == nil {
				conn.Close()
			}
		}
		return
	}
	p := strings.TrimPrefix(r.URL.Path, "/api/v0/")
	q := r.URL.Query()
	args := q["arg"]
	jsonOK := func(v interface{}) {
		w.Header().Set("Content-Type", "application/json")
		w.WriteHeader(200)
		json.NewEncoder(w).Encode(v)
	}
	switch p {
	case "pin/add":
		if len(args) == 0 || normCid(args[0]) == "" {
			setHandled("pin/add bad arg")
			ipfsErr(w, "invalid path")
			return
		}
		c := normCid(args[0])
		mode := "recursive"
		if q.Get("recursive") == "false" {
			mode = "direct"
		}
		f.mu.Lock()
		cur := f.pins[c]
		f.mu.Unlock()
		if cur == "recursive" && mode == "direct" {
			setHandled("pin/add refused: already recursive")
			ipfsErr(w, "pin: "+c+" already pinned recursively")
			return
		}
		flusher, _ := w.(http.Flusher)
		w.Header().Set("Content-Type", "application/json")
		w.Header().Set("X-Chunked-Output", "1")
		w.WriteHeader(200)
		steps, iv := rep.Steps, rep.Interval
		if q.Get("progress") == "true" {
			lastLine := arrived
			for i := 1; i <= steps; i++ {
				fmt.Fprintf(w, "{\"Progress\":%d}\n", i)
				if flusher != nil {
					flusher.Flush()
				}
				now := time.Now()
				setGap(now.Sub(lastLine))
				lastLine = now
				select {
				case <-r.Context().Done():
					setHandled("pin/add aborted by client during progress")
					return
				case <-time.After(iv):
				}
			}
		}
		switch rep.Kind {
		case "progress-repeat-stall":
			// a stuck pin: the daemon keeps reporting the same number of fetched nodes
			setHandled("pin/add progress stuck at the same value")
			deadline := time.After(rep.Stall)
			for {
				fmt.Fprintf(w, "{\"Progress\":%d}\n", steps)
				if flusher != nil {
					flusher.Flush()
				}
				select {
				case <-r.Context().Done():
					panic(http.ErrAbortHandler)
				case <-deadline:
					panic(http.ErrAbortHandler)
				case <-time.After(iv):
				}
			}
		case "progress-stall":
			setHandled("pin/add progress then stall")
			select {
			case <-r.Context().Done():
			case <-time.After(rep.Stall):
			}
			panic(http.ErrAbortHandler) // abort the response: never a clean end

		case "progress-late-error":
			// go-ipfs-cmds: a late error travels as trailer after a clean chunked EOF
			setHandled("pin/add late error in trailer")
			w.Header().Set("X-Stream-Error", rep.Message)
			return
		}
		if r.Context().Err() != nil {
			setHandled("pin/add aborted by client")
			return
		}
		f.mu.Lock()
		f.pins[c] = mode
		f.mu.Unlock()
		setHandled("pin/add ok " + mode)
		fmt.Fprintf(w, "{\"Pins\":[%q]}\n", c)
	case "pin/rm":
		if len(args) == 0 || normCid(args[0]) == "" {
			setHandled("pin/rm bad arg")
			ipfsErr(w, "invalid path")
			return
		}
		c := normCid(args[0])
		f.mu.Lock()
		_, ok := f.pins[c]
		if ok {
			delete(f.pins, c)
		}
		f.mu.Unlock()
		if !ok {
			setHandled("pin/rm not pinned")
			ipfsErr(w, "not pinned or pinned indirectly")
			return
		}
		setHandled("pin/rm ok")
		jsonOK(map[string]interface{}{"Pins": []string{c}})
	case "pin/ls":
		typ := q.Get("type")
		if typ == "" {
			typ = "all"
		}
		keys := map[string]map[string]string{}
		f.mu.Lock()
		if len(args) > 0 {
			c := normCid(args[0])
			if m, ok := f.pins[c]; ok && (typ == "all" || typ == m) {
				keys[c] = map[string]string{"Type": m}
			}
		} else {
			for c, m := range f.pins {
				if typ == "all" || typ == m {
					keys[c] = map[string]string{"Type": m}
				}
			}
		}
		f.mu.Unlock()
		if len(args) > 0 && len(keys) == 0 {
			setHandled("pin/ls arg not pinned")
			ipfsErr(w, fmt.Sprintf("path '%s' is not pinned", args[0]))
			return
		}
		setHandled("pin/ls ok")
		jsonOK(map[string]interface{}{"Keys": keys})
	case "pin/update":
		if len(args) < 2 || normCid(args[0]) == "" || normCid(args[1]) == "" {
			setHandled("pin/update bad args")
			ipfsErr(w, "argument \"to-path\" is required")
			return
		}
		from, to := normCid(args[0]), normCid(args[1])
		f.mu.Lock()
		if f.pins[from] != "recursive" {
			f.mu.Unlock()
			setHandled("pin/update from not recursive")
			ipfsErr(w, "'from' cid was not recursively pinned already")
			return
		}
		f.pins[to] = "recursive"
		if q.Get("unpin") != "false" {
			delete(f.pins, from)
		}
		f.mu.Unlock()
		setHandled("pin/update ok unpin=" + q.Get("unpin"))
		jsonOK(map[string]interface{}{"Pins": []string{from, to}})
	case "id":
		setHandled("id")
		jsonOK(map[string]interface{}{"ID": f.PeerID, "Addresses": []string{"/ip4/127.0.0.1/tcp/4001/p2p/" + f.PeerID}})
	case "version":
		setHandled("version")
		jsonOK(map[string]interface{}{"Version": "0.9.0"})
	case "swarm/connect":
		setHandled("swarm/connect")
		jsonOK(map[string]interface{}{"Strings": []string{"connect success"}})
	case "swarm/peers":
		setHandled("swarm/peers")
		jsonOK(map[string]interface{}{"Peers": []interface{}{}})
	case "repo/stat":
		setHandled("repo/stat")
		jsonOK(map[string]interface{}{"RepoSize": 1000, "StorageMax": 100000, "NumObjects": 10})
	case "repo/gc":
		setHandled("repo/gc")
		w.WriteHeader(200)
	case "config/show":
		setHandled("config/show")
		jsonOK(map[string]interface{}{"Datastore": map[string]interface{}{"StorageMax": "10GB"}})
	case "resolve":
		setHandled("resolve")
		if len(args) == 0 {
			ipfsErr(w, "argument \"name\" is required")
			return
		}
		parts := strings.Split(strings.TrimPrefix(args[0], "/ipfs/"), "/")
		if c := normCid(parts[0]); c != "" && len(parts) == 1 {
			jsonOK(map[string]interface{}{"Path": "/ipfs/" + c})
			return
		}
		ipfsErr(w, "no link named under "+parts[0])
	case "block/put":
		data := body
		if mt, params, err := mime.ParseMediaType(r.Header.Get("Content-Type")); err == nil && strings.HasPrefix(mt, "multipart/") {
			mr := multipart.NewReader(bytes.NewReader(body), params["boundary"])
			if part, err := mr.NextPart(); err == nil {
				data, _ = ioutil.ReadAll(part)
			}
		}
		f.mu.Lock()
		key := fmt.Sprintf("blk%d", len(f.blocks))
		f.blocks[key] = data
		f.mu.Unlock()
		setHandled("block/put")
		jsonOK(map[string]interface{}{"Key": key, "Size": len(data)})
	default:
		// anything else: a unique, recognisable answer
		setHandled("echo")
		w.Header().Set("Content-Type", "text/plain")
		w.Header().Set("X-Fake-Ipfs-Seq", fmt.Sprint(idx))
		w.WriteHeader(200 + (idx % 3)) // 200, 201, 202: statuses must be relayed too
		fmt.Fprintf(w, "fake-ipfs-answer seq=%d %s %s?%s len=%d", idx, r.Method, r.URL.Path, r.URL.RawQuery, len(body))
	}
}

// SortedPins renders the table.
func (f *FakeIPFS) SortedPins() string {
	var s []string
	for k, v := range f.Pins() {
		s = append(s, k[len(k)-6:]+"="+v)
	}
	sort.Strings(s)
	return strings.Join(s, " ")
}

var _ = io.EOF
