package sim

import (
	"context"
	"errors"
	"fmt"
	"sync"
	"sync/atomic"

	cid "github.com/ipfs/go-cid"
	"github.com/ipfs/ipfs-cluster/api"
	peer "github.com/libp2p/go-libp2p-core/peer"
	rpc "github.com/libp2p/go-libp2p-gorpc"
)

// IPFSCall is one call that reached the model daemon.
type IPFSCall struct {
	Seq    int64
	Op     string // pin | unpin | pinlscid | pinls | blockput | blockget | resolve | ...
	Cid    cid.Cid
	Mode   string // for pin: recursive | direct
	Arg    string
	Err    string // outcome
	Commit bool   // whether the call took effect
}

// Decision is what the driver decides for one call.
type Decision struct {
	// Hold, when non-nil, makes the call wait until the channel is closed
	// (or the call's context is done).
	Hold <-chan struct{}
	// Err, when non-nil, is returned and the call has no effect.
	Err error
}

// IPFSModel is an ipfscluster.IPFSConnector whose pin table and block store
// are the ground truth about "IPFS" in a scenario. Calls are linearizable;
// a call whose context is cancelled when it would commit has no effect.
type IPFSModel struct {
	ID_ peer.ID

	mu     sync.Mutex
	pins   map[string]string // cid key -> "recursive" | "direct"
	cids   map[string]cid.Cid
	blocks map[string][]byte
	calls  []IPFSCall
	seq    int64
	// Gate decides per call; nil = complete now.
	gate     func(call IPFSCall) Decision
	inflight int64
	resolve  func(path string) (cid.Cid, error)
}

// NewIPFSModel makes an empty daemon.
func NewIPFSModel(id peer.ID) *IPFSModel {
	return &IPFSModel{ID_: id, pins: map[string]string{}, cids: map[string]cid.Cid{}, blocks: map[string][]byte{}}
}

// SetGate installs the per-call decision function.
func (m *IPFSModel) SetGate(g func(call IPFSCall) Decision) {
	m.mu.Lock()
	m.gate = g
	m.mu.Unlock()
}

// SetResolve installs the path resolver.
func (m *IPFSModel) SetResolve(f func(path string) (cid.Cid, error)) {
	m.mu.Lock()
	m.resolve = f
	m.mu.Unlock()
}

// Inflight tells how many calls are currently inside the model.
func (m *IPFSModel) Inflight() int { return int(atomic.LoadInt64(&m.inflight)) }

// Calls returns a copy of the call log.
func (m *IPFSModel) Calls() []IPFSCall {
	m.mu.Lock()
	defer m.mu.Unlock()
	return append([]IPFSCall{}, m.calls...)
}

// NCalls returns the number of logged calls.
func (m *IPFSModel) NCalls() int {
	m.mu.Lock()
	defer m.mu.Unlock()
	return len(m.calls)
}

// PinTable returns a copy of the pin table (cid string -> mode).
func (m *IPFSModel) PinTable() map[string]string {
	m.mu.Lock()
	defer m.mu.Unlock()
	out := map[string]string{}
	for k, v := range m.pins {
		out[m.cids[k].String()] = v
	}
	return out
}

// ModeOf returns the mode a cid is held in ("" = not pinned).
func (m *IPFSModel) ModeOf(c cid.Cid) string {
	m.mu.Lock()
	defer m.mu.Unlock()
	return m.pins[c.KeyString()]
}

// SetPin writes the table directly (scenario construction).
func (m *IPFSModel) SetPin(c cid.Cid, mode string) {
	m.mu.Lock()
	defer m.mu.Unlock()
	if mode == "" {
		delete(m.pins, c.KeyString())
		return
	}
	m.pins[c.KeyString()] = mode
	m.cids[c.KeyString()] = c
}

// Blocks returns a copy of the block store.
func (m *IPFSModel) Blocks() map[string][]byte {
	m.mu.Lock()
	defer m.mu.Unlock()
	out := map[string][]byte{}
	for k, v := range m.blocks {
		out[k] = v
	}
	return out
}

// do runs one call through the gate; effect runs under the lock at the
// linearization point and only if the context is still alive.
func (m *IPFSModel) do(ctx context.Context, call IPFSCall, effect func() error) error {
	atomic.AddInt64(&m.inflight, 1)
	defer atomic.AddInt64(&m.inflight, -1)
	m.mu.Lock()
	m.seq++
	call.Seq = m.seq
	g := m.gate
	m.mu.Unlock()
	var d Decision
	if g != nil {
		d = g(call)
	}
	if d.Hold != nil {
		select {
		case <-d.Hold:
		case <-ctx.Done():
		}
	}
	m.mu.Lock()
	defer m.mu.Unlock()
	var err error
	switch {
	case ctx.Err() != nil:
		err = ctx.Err()
	case d.Err != nil:
		err = d.Err
	default:
		err = effect()
		call.Commit = err == nil
	}
	if err != nil {
		call.Err = err.Error()
	}
	m.calls = append(m.calls, call)
	return err
}

func modeOf(pin *api.Pin) string {
	if pin.MaxDepth == 0 {
		return "direct"
	}
	return "recursive"
}

// SetClient implements Component.
func (m *IPFSModel) SetClient(*rpc.Client) {}

// Shutdown implements Component.
func (m *IPFSModel) Shutdown(context.Context) error { return nil }

// ID implements IPFSConnector.
func (m *IPFSModel) ID(context.Context) (*api.IPFSID, error) {
	return &api.IPFSID{ID: m.ID_}, nil
}

// Pin implements IPFSConnector.
func (m *IPFSModel) Pin(ctx context.Context, pin *api.Pin) error {
	mode := modeOf(pin)
	return m.do(ctx, IPFSCall{Op: "pin", Cid: pin.Cid, Mode: mode}, func() error {
		k := pin.Cid.KeyString()
		if cur := m.pins[k]; cur == "recursive" && mode == "direct" {
			// go-ipfs refuses: already pinned recursively
			return errors.New("pin: " + pin.Cid.String() + " already pinned recursively")
		}
		m.pins[k] = mode
		m.cids[k] = pin.Cid
		return nil
	})
}

// Unpin implements IPFSConnector (not pinned = success, like the real connector).
func (m *IPFSModel) Unpin(ctx context.Context, c cid.Cid) error {
	return m.do(ctx, IPFSCall{Op: "unpin", Cid: c}, func() error {
		delete(m.pins, c.KeyString())
		return nil
	})
}

// PinLsCid implements IPFSConnector: answers like connector+daemon do, the
// held status if the CID is held in the mode the pin asks about, unpinned
// otherwise.
func (m *IPFSModel) PinLsCid(ctx context.Context, pin *api.Pin) (api.IPFSPinStatus, error) {
	st := api.IPFSPinStatusUnpinned
	err := m.do(ctx, IPFSCall{Op: "pinlscid", Cid: pin.Cid, Mode: modeOf(pin)}, func() error {
		cur := m.pins[pin.Cid.KeyString()]
		want := modeOf(pin)
		if cur == want {
			if cur == "direct" {
				st = api.IPFSPinStatusDirect
			} else {
				st = api.IPFSPinStatusRecursive
			}
		}
		return nil
	})
	if err != nil {
		return api.IPFSPinStatusError, err
	}
	return st, nil
}

// PinLs implements IPFSConnector.
func (m *IPFSModel) PinLs(ctx context.Context, typeFilter string) (map[string]api.IPFSPinStatus, error) {
	out := map[string]api.IPFSPinStatus{}
	err := m.do(ctx, IPFSCall{Op: "pinls", Arg: typeFilter}, func() error {
		for k, mode := range m.pins {
			if typeFilter != "" && typeFilter != "all" && typeFilter != mode {
				continue
			}
			st := api.IPFSPinStatusRecursive
			if mode == "direct" {
				st = api.IPFSPinStatusDirect
			}
			out[m.cids[k].String()] = st
		}
		return nil
	})
	if err != nil {
		return nil, err
	}
	return out, nil
}

// ConnectSwarms implements IPFSConnector.
func (m *IPFSModel) ConnectSwarms(context.Context) error { return nil }

// SwarmPeers implements IPFSConnector.
func (m *IPFSModel) SwarmPeers(context.Context) ([]peer.ID, error) { return nil, nil }

// ConfigKey implements IPFSConnector.
func (m *IPFSModel) ConfigKey(string) (interface{}, error) { return nil, errors.New("no such key") }

// RepoStat implements IPFSConnector.
func (m *IPFSModel) RepoStat(context.Context) (*api.IPFSRepoStat, error) {
	return &api.IPFSRepoStat{RepoSize: 1000, StorageMax: 1000000}, nil
}

// RepoGC implements IPFSConnector.
func (m *IPFSModel) RepoGC(context.Context) (*api.RepoGC, error) { return &api.RepoGC{}, nil }

// Resolve implements IPFSConnector.
func (m *IPFSModel) Resolve(ctx context.Context, path string) (cid.Cid, error) {
	m.mu.Lock()
	f := m.resolve
	m.mu.Unlock()
	if f == nil {
		return cid.Undef, fmt.Errorf("cannot resolve %s", path)
	}
	return f(path)
}

// BlockPut implements IPFSConnector.
func (m *IPFSModel) BlockPut(ctx context.Context, n *api.NodeWithMeta) error {
	return m.do(ctx, IPFSCall{Op: "blockput", Cid: n.Cid}, func() error {
		m.blocks[n.Cid.KeyString()] = append([]byte{}, n.Data...)
		return nil
	})
}

// BlockGet implements IPFSConnector.
func (m *IPFSModel) BlockGet(ctx context.Context, c cid.Cid) ([]byte, error) {
	var out []byte
	err := m.do(ctx, IPFSCall{Op: "blockget", Cid: c}, func() error {
		b, ok := m.blocks[c.KeyString()]
		if !ok {
			return errors.New("blockstore: block not found")
		}
		out = b
		return nil
	})
	return out, err
}
