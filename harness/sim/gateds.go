package sim

import (
	"sync"

	ds "github.com/ipfs/go-datastore"
	dsq "github.com/ipfs/go-datastore/query"
)

// GateDS wraps a datastore; while the gate is held every write waits. It lets
// a check make "the state has not been written yet" a logical fact instead of
// a matter of timing.
type GateDS struct {
	ds.Datastore
	mu      sync.Mutex
	held    chan struct{}
	Waiting int // writes that arrived while the gate was held
}

// NewGateDS wraps inner with an open gate.
func NewGateDS(inner ds.Datastore) *GateDS { return &GateDS{Datastore: inner} }

// Hold closes the gate.
func (g *GateDS) Hold() {
	g.mu.Lock()
	if g.held == nil {
		g.held = make(chan struct{})
	}
	g.mu.Unlock()
}

// Release opens the gate.
func (g *GateDS) Release() {
	g.mu.Lock()
	if g.held != nil {
		close(g.held)
		g.held = nil
	}
	g.mu.Unlock()
}

// WaitingWrites is the number of writes that met a held gate so far.
func (g *GateDS) WaitingWrites() int {
	g.mu.Lock()
	defer g.mu.Unlock()
	return g.Waiting
}

func (g *GateDS) wait() {
	g.mu.Lock()
	ch := g.held
	if ch != nil {
		g.Waiting++
	}
	g.mu.Unlock()
	if ch != nil {
		<-ch
	}
}

func (g *GateDS) Put(k ds.Key, v []byte) error { g.wait(); return g.Datastore.Put(k, v) }
func (g *GateDS) Delete(k ds.Key) error        { g.wait(); return g.Datastore.Delete(k) }
func (g *GateDS) Close() error                 { return nil }
func (g *GateDS) Query(q dsq.Query) (dsq.Results, error) {
	return g.Datastore.Query(q)
}

// Batch implements ds.Batching.
func (g *GateDS) Batch() (ds.Batch, error) {
	b, err := g.Datastore.(ds.Batching).Batch()
	if err != nil {
		return nil, err
	}
	return &gateBatch{Batch: b, g: g}, nil
}

type gateBatch struct {
	ds.Batch
	g *GateDS
}

func (b *gateBatch) Commit() error { b.g.wait(); return b.Batch.Commit() }
