package sim

import (
	"context"
	"errors"
	"sync"

	ds "github.com/ipfs/go-datastore"
	dssync "github.com/ipfs/go-datastore/sync"
	"github.com/ipfs/ipfs-cluster/api"
	"github.com/ipfs/ipfs-cluster/state"
	"github.com/ipfs/ipfs-cluster/state/dsstate"
	peer "github.com/libp2p/go-libp2p-core/peer"
	rpc "github.com/libp2p/go-libp2p-gorpc"
)

// LogEntry is one submission that reached the model consensus.
type LogEntry struct {
	Op   string // pin | unpin | addpeer | rmpeer
	By   peer.ID
	Pin  *api.Pin
	Peer peer.ID
}

// SharedState is the pinset + peerset + log that several ModelConsensus
// instances (one per Cluster) share, so that "members agree" by construction.
type SharedState struct {
	mu      sync.Mutex
	St      *dsstate.State
	peers   []peer.ID
	log     []LogEntry
	FailLog error // when set, LogPin/LogUnpin fail with it and change nothing
}

// NewSharedState makes an empty shared state.
func NewSharedState(peers []peer.ID) *SharedState {
	st, _ := dsstate.New(dssync.MutexWrap(ds.NewMapDatastore()), "/m", dsstate.DefaultHandle())
	return &SharedState{St: st, peers: append([]peer.ID{}, peers...)}
}

// Reset empties pinset and log and sets the peerset.
func (s *SharedState) Reset(peers []peer.ID) {
	s.mu.Lock()
	defer s.mu.Unlock()
	st, _ := dsstate.New(dssync.MutexWrap(ds.NewMapDatastore()), "/m", dsstate.DefaultHandle())
	s.St = st
	s.peers = append([]peer.ID{}, peers...)
	s.log = nil
	s.FailLog = nil
}

// Log returns a copy of the submission log.
func (s *SharedState) Log() []LogEntry {
	s.mu.Lock()
	defer s.mu.Unlock()
	return append([]LogEntry{}, s.log...)
}

// Peers returns the peerset.
func (s *SharedState) Peers() []peer.ID {
	s.mu.Lock()
	defer s.mu.Unlock()
	return append([]peer.ID{}, s.peers...)
}

// SetPeers replaces the peerset.
func (s *SharedState) SetPeers(ps []peer.ID) {
	s.mu.Lock()
	s.peers = append([]peer.ID{}, ps...)
	s.mu.Unlock()
}

// State returns the current dsstate.
func (s *SharedState) State() *dsstate.State {
	s.mu.Lock()
	defer s.mu.Unlock()
	return s.St
}

// ModelConsensus implements ipfscluster.Consensus where consensus itself is
// not under test: a real dsstate, a recorded submission log, scripted trust.
type ModelConsensus struct {
	Self    peer.ID
	Shared  *SharedState
	Trusted func(peer.ID) bool // nil = everyone
	// Notify, when true, hands applied changes to the local PinTracker over
	// RPC like the real components do.
	Notify bool

	mu      sync.Mutex
	client  *rpc.Client
	readyCh chan struct{}
}

// NewModelConsensus builds one instance over shared state.
func NewModelConsensus(self peer.ID, shared *SharedState) *ModelConsensus {
	ch := make(chan struct{}, 1)
	ch <- struct{}{}
	return &ModelConsensus{Self: self, Shared: shared, readyCh: ch}
}

func (m *ModelConsensus) SetClient(c *rpc.Client) {
	m.mu.Lock()
	m.client = c
	m.mu.Unlock()
}
func (m *ModelConsensus) Shutdown(context.Context) error        { return nil }
func (m *ModelConsensus) Ready(context.Context) <-chan struct{} { return m.readyCh }

// NeverReady makes Ready() a channel that never fires (a consensus component
// that cannot find its cluster).
func (m *ModelConsensus) NeverReady() { m.readyCh = make(chan struct{}) }

func (m *ModelConsensus) LogPin(ctx context.Context, pin *api.Pin) error {
	s := m.Shared
	s.mu.Lock()
	if s.FailLog != nil {
		err := s.FailLog
		s.mu.Unlock()
		return err
	}
	cp := *pin
	s.log = append(s.log, LogEntry{Op: "pin", By: m.Self, Pin: &cp})
	err := s.St.Add(ctx, pin)
	s.mu.Unlock()
	if err == nil && m.Notify {
		m.mu.Lock()
		c := m.client
		m.mu.Unlock()
		if c != nil {
			c.GoContext(ctx, "", "PinTracker", "Track", pin, &struct{}{}, nil)
		}
	}
	return err
}

func (m *ModelConsensus) LogUnpin(ctx context.Context, pin *api.Pin) error {
	s := m.Shared
	s.mu.Lock()
	if s.FailLog != nil {
		err := s.FailLog
		s.mu.Unlock()
		return err
	}
	cp := *pin
	s.log = append(s.log, LogEntry{Op: "unpin", By: m.Self, Pin: &cp})
	err := s.St.Rm(ctx, pin.Cid)
	s.mu.Unlock()
	if err == nil && m.Notify {
		m.mu.Lock()
		c := m.client
		m.mu.Unlock()
		if c != nil {
			c.GoContext(ctx, "", "PinTracker", "Untrack", pin, &struct{}{}, nil)
		}
	}
	return err
}

func (m *ModelConsensus) AddPeer(ctx context.Context, p peer.ID) error {
	s := m.Shared
	s.mu.Lock()
	defer s.mu.Unlock()
	s.log = append(s.log, LogEntry{Op: "addpeer", By: m.Self, Peer: p})
	for _, q := range s.peers {
		if q == p {
			return nil
		}
	}
	s.peers = append(s.peers, p)
	return nil
}

func (m *ModelConsensus) RmPeer(ctx context.Context, p peer.ID) error {
	s := m.Shared
	s.mu.Lock()
	defer s.mu.Unlock()
	s.log = append(s.log, LogEntry{Op: "rmpeer", By: m.Self, Peer: p})
	var out []peer.ID
	for _, q := range s.peers {
		if q != p {
			out = append(out, q)
		}
	}
	s.peers = out
	return nil
}

func (m *ModelConsensus) State(context.Context) (state.ReadOnly, error) {
	return m.Shared.State(), nil
}
func (m *ModelConsensus) Leader(context.Context) (peer.ID, error) { return m.Self, nil }
func (m *ModelConsensus) WaitForSync(context.Context) error       { return nil }
func (m *ModelConsensus) Clean(context.Context) error             { return nil }
func (m *ModelConsensus) Peers(context.Context) ([]peer.ID, error) {
	ps := m.Shared.Peers()
	if ps == nil {
		return nil, errors.New("no peerset")
	}
	return ps, nil
}
func (m *ModelConsensus) IsTrustedPeer(_ context.Context, p peer.ID) bool {
	if m.Trusted == nil {
		return true
	}
	return m.Trusted(p)
}
func (m *ModelConsensus) Trust(context.Context, peer.ID) error    { return nil }
func (m *ModelConsensus) Distrust(context.Context, peer.ID) error { return nil }
