// Package sim is the simulation kit: everything that stands in for the world
// outside the component under test (RPC peers, IPFS daemon, consensus,
// monitor, tracker, datastore faults). None of it re-implements ipfs-cluster
// logic.
package sim

import (
	"context"
	"encoding/json"
	"fmt"
	"sync"
	"sync/atomic"

	"github.com/ipfs/ipfs-cluster/version"
	rpc "github.com/libp2p/go-libp2p-gorpc"
)

// Call is one recorded RPC.
type Call struct {
	Seq     int64
	Service string
	Method  string
	In      interface{}
}

// Name returns Service.Method.
func (c Call) Name() string { return c.Service + "." + c.Method }

// InJSON renders the argument.
func (c Call) InJSON() string {
	b, err := json.Marshal(c.In)
	if err != nil {
		return fmt.Sprintf("%+v", c.In)
	}
	return string(b)
}

// Handler answers a recorded call by filling out (a pointer) or erroring.
type Handler func(ctx context.Context, call Call, out interface{}) error

// RPCRecorder is a hostless gorpc server+client whose services record every
// call and answer from a handler.
type RPCRecorder struct {
	Server *rpc.Server
	Client *rpc.Client

	mu      sync.Mutex
	calls   []Call
	handler Handler
	seq     int64
}

// NewRPCRecorder builds the recorder with all ipfs-cluster services.
func NewRPCRecorder(h Handler) *RPCRecorder {
	r := &RPCRecorder{handler: h}
	r.Server = rpc.NewServer(nil, version.RPCProtocol)
	if err := r.registerAll(); err != nil {
		panic(err)
	}
	r.Client = rpc.NewClientWithServer(nil, version.RPCProtocol, r.Server)
	return r
}

// SetHandler replaces the handler.
func (r *RPCRecorder) SetHandler(h Handler) {
	r.mu.Lock()
	r.handler = h
	r.mu.Unlock()
}

func (r *RPCRecorder) handle(ctx context.Context, svc, method string, in, out interface{}) error {
	call := Call{Seq: atomic.AddInt64(&r.seq, 1), Service: svc, Method: method, In: in}
	r.mu.Lock()
	r.calls = append(r.calls, call)
	h := r.handler
	r.mu.Unlock()
	if h == nil {
		return nil
	}
	return h(ctx, call, out)
}

// Calls returns a copy of the recorded calls.
func (r *RPCRecorder) Calls() []Call {
	r.mu.Lock()
	defer r.mu.Unlock()
	return append([]Call{}, r.calls...)
}

// Reset forgets recorded calls.
func (r *RPCRecorder) Reset() {
	r.mu.Lock()
	r.calls = nil
	r.mu.Unlock()
}

// CallsTo filters by Service.Method.
func (r *RPCRecorder) CallsTo(name string) []Call {
	var out []Call
	for _, c := range r.Calls() {
		if c.Name() == name {
			out = append(out, c)
		}
	}
	return out
}
