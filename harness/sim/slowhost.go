package sim

import (
	"strings"
	"sync/atomic"
	"time"

	host "github.com/libp2p/go-libp2p-core/host"
	"github.com/libp2p/go-libp2p-core/network"
	"github.com/libp2p/go-libp2p-core/protocol"
)

// SlowHost wraps a host: every read on an incoming stream of a protocol whose
// id contains Match waits Delay first (a slow link towards this peer). It
// makes "this peer is still catching up" last long enough to be observed.
type SlowHost struct {
	host.Host
	Match string
	delay int64 // nanoseconds
	Reads int64
}

// NewSlowHost wraps h.
func NewSlowHost(h host.Host, match string, d time.Duration) *SlowHost {
	return &SlowHost{Host: h, Match: match, delay: int64(d)}
}

// SetDelay changes the per-read delay.
func (h *SlowHost) SetDelay(d time.Duration) { atomic.StoreInt64(&h.delay, int64(d)) }

// SetStreamHandler interposes on matching protocols.
func (h *SlowHost) SetStreamHandler(pid protocol.ID, handler network.StreamHandler) {
	if !strings.Contains(string(pid), h.Match) {
		h.Host.SetStreamHandler(pid, handler)
		return
	}
	h.Host.SetStreamHandler(pid, func(s network.Stream) {
		handler(&slowStream{Stream: s, h: h})
	})
}

type slowStream struct {
	network.Stream
	h *SlowHost
}

func (s *slowStream) Read(p []byte) (int, error) {
	if d := atomic.LoadInt64(&s.h.delay); d > 0 {
		time.Sleep(time.Duration(d))
	}
	atomic.AddInt64(&s.h.Reads, 1)
	return s.Stream.Read(p)
}
