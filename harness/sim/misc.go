package sim

import (
	"context"
	"sync"
	"time"

	cid "github.com/ipfs/go-cid"
	"github.com/ipfs/ipfs-cluster/api"
	peer "github.com/libp2p/go-libp2p-core/peer"
	rpc "github.com/libp2p/go-libp2p-gorpc"
)

// ScriptedMonitor implements ipfscluster.PeerMonitor where the monitor is not
// under test: the driver owns the alert channel and the metrics, and every
// PublishMetric is recorded with its time.
type ScriptedMonitor struct {
	mu        sync.Mutex
	metrics   map[string][]*api.Metric
	AlertCh   chan *api.Alert
	Published []Published
	PublishF  func(m *api.Metric) error
}

// Published is one recorded PublishMetric call.
type Published struct {
	At     time.Time
	Metric api.Metric
	Err    error
}

// NewScriptedMonitor makes one.
func NewScriptedMonitor() *ScriptedMonitor {
	return &ScriptedMonitor{metrics: map[string][]*api.Metric{}, AlertCh: make(chan *api.Alert, 4096)}
}

func (s *ScriptedMonitor) SetClient(*rpc.Client)          {}
func (s *ScriptedMonitor) Shutdown(context.Context) error { return nil }
func (s *ScriptedMonitor) LogMetric(_ context.Context, m *api.Metric) error {
	return nil
}
func (s *ScriptedMonitor) PublishMetric(_ context.Context, m *api.Metric) error {
	s.mu.Lock()
	f := s.PublishF
	s.mu.Unlock()
	var err error
	if f != nil {
		err = f(m)
	}
	s.mu.Lock()
	s.Published = append(s.Published, Published{At: time.Now(), Metric: *m, Err: err})
	s.mu.Unlock()
	return err
}

// SetMetrics sets what LatestMetrics(name) answers.
func (s *ScriptedMonitor) SetMetrics(name string, ms []*api.Metric) {
	s.mu.Lock()
	s.metrics[name] = ms
	s.mu.Unlock()
}
func (s *ScriptedMonitor) LatestMetrics(_ context.Context, name string) []*api.Metric {
	s.mu.Lock()
	defer s.mu.Unlock()
	return append([]*api.Metric{}, s.metrics[name]...)
}
func (s *ScriptedMonitor) MetricNames(context.Context) []string {
	s.mu.Lock()
	defer s.mu.Unlock()
	var out []string
	for k := range s.metrics {
		out = append(out, k)
	}
	return out
}
func (s *ScriptedMonitor) Alerts() <-chan *api.Alert { return s.AlertCh }

// PublishedCopy returns the recorded publishes.
func (s *ScriptedMonitor) PublishedCopy() []Published {
	s.mu.Lock()
	defer s.mu.Unlock()
	return append([]Published{}, s.Published...)
}

// TrackCall is one recorded tracker instruction.
type TrackCall struct {
	Seq int
	Op  string // track | untrack
	Pin *api.Pin
	Cid cid.Cid
}

// RecTracker implements ipfscluster.PinTracker where the tracker is not under
// test; it records Track/Untrack in arrival order.
type RecTracker struct {
	Self  peer.ID
	mu    sync.Mutex
	calls []TrackCall
}

func (t *RecTracker) SetClient(*rpc.Client)          {}
func (t *RecTracker) Shutdown(context.Context) error { return nil }
func (t *RecTracker) Track(_ context.Context, p *api.Pin) error {
	t.mu.Lock()
	cp := *p
	t.calls = append(t.calls, TrackCall{Seq: len(t.calls), Op: "track", Pin: &cp, Cid: p.Cid})
	t.mu.Unlock()
	return nil
}
func (t *RecTracker) Untrack(_ context.Context, c cid.Cid) error {
	t.mu.Lock()
	t.calls = append(t.calls, TrackCall{Seq: len(t.calls), Op: "untrack", Cid: c})
	t.mu.Unlock()
	return nil
}
func (t *RecTracker) StatusAll(context.Context, api.TrackerStatus) []*api.PinInfo { return nil }
func (t *RecTracker) Status(_ context.Context, c cid.Cid) *api.PinInfo {
	return &api.PinInfo{Cid: c, Peer: t.Self, PinInfoShort: api.PinInfoShort{Status: api.TrackerStatusUnpinned, TS: time.Now()}}
}
func (t *RecTracker) RecoverAll(context.Context) ([]*api.PinInfo, error) { return nil, nil }
func (t *RecTracker) Recover(_ context.Context, c cid.Cid) (*api.PinInfo, error) {
	return t.Status(context.Background(), c), nil
}

// Calls returns the recorded instructions.
func (t *RecTracker) Calls() []TrackCall {
	t.mu.Lock()
	defer t.mu.Unlock()
	return append([]TrackCall{}, t.calls...)
}

// Reset forgets recorded calls.
func (t *RecTracker) Reset() {
	t.mu.Lock()
	t.calls = nil
	t.mu.Unlock()
}

// StubInformer implements ipfscluster.Informer with a mutable name and a
// scripted metric.
type StubInformer struct {
	mu    sync.Mutex
	name  string
	TTL   time.Duration
	Valid bool
	Value string
	Calls int
}

// NewStubInformer makes one.
func NewStubInformer(name string) *StubInformer {
	return &StubInformer{name: name, TTL: time.Hour, Valid: false, Value: "0"}
}
func (s *StubInformer) SetClient(*rpc.Client)          {}
func (s *StubInformer) Shutdown(context.Context) error { return nil }
func (s *StubInformer) Name() string {
	s.mu.Lock()
	defer s.mu.Unlock()
	return s.name
}

// SetName changes the metric name the cluster allocates by.
func (s *StubInformer) SetName(n string) {
	s.mu.Lock()
	s.name = n
	s.mu.Unlock()
}
func (s *StubInformer) GetMetric(context.Context) *api.Metric {
	s.mu.Lock()
	defer s.mu.Unlock()
	s.Calls++
	m := &api.Metric{Name: s.name, Value: s.Value, Valid: s.Valid}
	m.SetTTL(s.TTL)
	return m
}

// CatchTracer implements ipfscluster.Tracer and ipfscluster.API; passed as an
// extra API component it keeps the cluster's RPC
// client, so the driver can issue any RPC "as self" (local calls bypass the
// authorization function exactly like the components' own calls do).
type CatchTracer struct {
	mu     sync.Mutex
	client *rpc.Client
}

func (t *CatchTracer) SetClient(c *rpc.Client) {
	t.mu.Lock()
	t.client = c
	t.mu.Unlock()
}
func (t *CatchTracer) Shutdown(context.Context) error { return nil }

// Client returns the captured client.
func (t *CatchTracer) Client() *rpc.Client {
	t.mu.Lock()
	defer t.mu.Unlock()
	return t.client
}
