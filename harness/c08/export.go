package c08

import (
	"bytes"
	"context"
	"fmt"
	"os"
	"path/filepath"

	"verif/fw"
	"verif/gen"
	"verif/mon"

	ds "github.com/ipfs/go-datastore"
	dssync "github.com/ipfs/go-datastore/sync"
	ipfscluster "github.com/ipfs/ipfs-cluster"
	"github.com/ipfs/ipfs-cluster/api"
	"github.com/ipfs/ipfs-cluster/cmdutils"
	"github.com/ipfs/ipfs-cluster/config"
	"github.com/ipfs/ipfs-cluster/consensus/crdt"
	"github.com/ipfs/ipfs-cluster/consensus/raft"
	"github.com/ipfs/ipfs-cluster/datastore/badger"
	"github.com/ipfs/ipfs-cluster/datastore/leveldb"
	"github.com/ipfs/ipfs-cluster/state/dsstate"
	peer "github.com/libp2p/go-libp2p-core/peer"
)

// exportCase: the JSON form of the state export. A pinset of pins of every
// type (metadata maps of different key sets next to each other, empty and nil
// maps) is stored as a Raft snapshot, exported with the real StateManager,
// imported into a fresh installation and read back offline: every pin must
// come back equal (compared through the state's own protobuf form).
func exportCase(c *fw.Ctx, r *fw.Rand, idx int) {
	dir := filepath.Join(c.Dir, fmt.Sprintf("export%d", idx))
	os.RemoveAll(dir)
	defer os.RemoveAll(dir)
	mk := func(sub string) (cmdutils.StateManager, *cmdutils.Configs, *config.Identity) {
		d := filepath.Join(dir, sub)
		os.MkdirAll(d, 0o755)
		cfgs := &cmdutils.Configs{Cluster: &ipfscluster.Config{}, Raft: &raft.Config{}, Crdt: &crdt.Config{}, Badger: &badger.Config{}, LevelDB: &leveldb.Config{}}
		for _, cc := range []config.ComponentConfig{cfgs.Cluster, cfgs.Raft, cfgs.Crdt, cfgs.Badger, cfgs.LevelDB} {
			cc.Default()
			cc.SetBaseDir(d)
		}
		ident, err := config.NewIdentity()
		if err != nil {
			return nil, nil, nil
		}
		sm, err := cmdutils.NewStateManager("raft", "", ident, cfgs)
		if err != nil {
			return nil, nil, nil
		}
		return sm, cfgs, ident
	}
	src, scfg, sid := mk("src")
	dst, _, _ := mk("dst")
	if src == nil || dst == nil {
		c.Inconclusive("state manager")
		return
	}
	n := r.Range(2, 12)
	want := map[string]*api.Pin{}
	st, _ := dsstate.New(dssync.MutexWrap(ds.NewMapDatastore()), "/x", dsstate.DefaultHandle())
	for k := 0; k < n; k++ {
		p := gen.Pin(r, gen.PinParams{NPeers: 4, AllTypes: true, NoOrigins: true})
		p.Cid = gen.Cid(8800+idx*20+k, k)
		p.UserAllocations = nil
		// neighbouring pins with different metadata key sets
		switch r.Intn(4) {
		case 0:
			p.Metadata = nil
		case 1:
			p.Metadata = map[string]string{fmt.Sprintf("k%d", k): "v", "shared": fmt.Sprint(k)}
		case 2:
			p.Metadata = map[string]string{fmt.Sprintf("only%d", k): r.Str(3)}
		}
		if err := st.Add(context.Background(), p); err != nil {
			c.Inconclusive("state add: " + err.Error())
			return
		}
		b, err := p.ProtoMarshal()
		if err != nil {
			continue
		}
		w := &api.Pin{}
		if w.ProtoUnmarshal(b) == nil {
			want[p.Cid.String()] = w
		}
	}
	if err := raft.SnapshotSave(scfg.Raft, st, []peer.ID{sid.ID}); err != nil {
		c.Inconclusive("snapshot: " + err.Error())
		return
	}
	var buf bytes.Buffer
	if err := src.ExportState(&buf); err != nil {
		c.Violation("C08/export/export-error", "exporting a well-formed pinset failed: "+err.Error(), nil)
		return
	}
	exported := buf.String()
	if err := dst.ImportState(&buf); err != nil {
		c.Violation("C08/export/import-error", "importing an exported pinset failed: "+err.Error(), exported)
		return
	}
	store, err := dst.GetStore()
	if err != nil {
		c.Inconclusive("store: " + err.Error())
		return
	}
	defer store.Close()
	ost, err := dst.GetOfflineState(store)
	if err != nil {
		c.Inconclusive("offline state: " + err.Error())
		return
	}
	got, err := ost.List(context.Background())
	if err != nil {
		c.Inconclusive("list: " + err.Error())
		return
	}
	c.Eval(fmt.Sprintf("export-import/pins=%d", len(want)))
	seen := map[string]bool{}
	for _, g := range got {
		k := g.Cid.String()
		seen[k] = true
		w := want[k]
		if w == nil {
			c.Violation("C08/export/extra-pin", "a pin appeared that was not exported: "+k, nil)
			continue
		}
		if d := mon.DeepEq(w, g, nil); d != "" {
			field := d
			for i := 0; i < len(d); i++ {
				if d[i] == ':' {
					field = d[:i]
					break
				}
			}
			c.Violation("C08/export/field-"+field, "export -> import changed a pin: "+d, exported)
		}
	}
	for k := range want {
		if !seen[k] {
			c.Violation("C08/export/pin-lost", "an exported pin is missing after import: "+k, nil)
		}
	}
}
