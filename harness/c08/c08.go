// Package c08: records survive every encoding boundary; decoders never crash.
package c08

import (
	"bytes"
	"context"
	"encoding/json"
	"fmt"
	ma "github.com/multiformats/go-multiaddr"
	"net/url"
	"reflect"
	"runtime/debug"
	"strings"
	"time"

	"verif/fw"
	"verif/gen"
	"verif/mon"

	cid "github.com/ipfs/go-cid"
	ds "github.com/ipfs/go-datastore"
	dsq "github.com/ipfs/go-datastore/query"
	dssync "github.com/ipfs/go-datastore/sync"
	"github.com/ipfs/ipfs-cluster/api"
	"github.com/ipfs/ipfs-cluster/consensus/raft"
	"github.com/ipfs/ipfs-cluster/state/dsstate"
	peer "github.com/libp2p/go-libp2p-core/peer"
	protocol "github.com/libp2p/go-libp2p-core/protocol"
	"github.com/ugorji/go/codec"
)

func init() {
	fw.Register(&fw.Prop{
		ID:    "C08",
		Level: "exploration",
		Rule: "Cases are drawn from a splitmix64 stream keyed by (seed, property, case#). Round-trip cases generate a well-formed record " +
			"(Pin of every type/mode/depth with allocations, origins, metadata incl. empty key, reference/update CIDs of both versions, expiries; PinInfo, " +
			"GlobalPinInfo, ID, IPFSID, Metric, Alert, AddedOutput, RepoGC, GlobalRepoGC, ConnectGraph, Error, Version, IPFSRepoStat, NodeWithMeta, " +
			"TrackerStatus/PinType/PinMode names, PinOptions/AddParams query strings), encode it with the real encoder at its real boundary " +
			"(dsstate.Add/Get protobuf, dsstate.Marshal/Unmarshal, ugorji msgpack handle as gorpc/libp2p-raft configure it incl. raft.LogOp, encoding/json, ToQuery/FromQuery), " +
			"decode and compare with the harness's own reflective comparator up to the documented lossy fields. Garbage cases feed each decoder random bytes and " +
			"mutated valid encodings (flips, truncations, length inflation, splices); an accepted value must re-encode without panic. " +
			"distinct_nontrivial counts distinct (format, record type, shape-signature) keys, where the shape signature lists which optional fields are populated.",
		Assumptions: []string{
			"msgpack boundary is exercised through the same codec.MsgpackHandle{} configuration that go-libp2p-gorpc v0.1.3 and go-libp2p-raft v0.1.7 construct; the network transport itself is not in the loop here (it is in C01/C07)",
			"documented lossy fields: protobuf drops UserAllocations, derives Mode from MaxDepth and truncates ExpireAt to seconds; query strings drop empty metadata keys and carry only PinOptions",
			"a decoder hang is caught by the per-case watchdog (120 s) and reported as inconclusive",
		},
		Cases: func(tier string) int {
			if tier == "thorough" {
				return 40000
			}
			return 1600
		},
		MinEvals: func(tier string) int {
			if tier == "thorough" {
				return 1000000
			}
			return 50000
		},
		Run: run,
	})
}

// ---------------------------------------------------------------- generators

func genTime(r *fw.Rand) time.Time {
	switch r.Intn(4) {
	case 0:
		return time.Time{}
	case 1:
		return gen.ExpiryBase.Add(time.Duration(r.Intn(1e9)) * time.Second)
	case 2:
		return time.Unix(int64(r.Intn(2e9)), int64(r.Intn(1e9)))
	default:
		return time.Unix(int64(r.Intn(2e9)), 0).UTC()
	}
}

func genStatus(r *fw.Rand) api.TrackerStatus {
	singles := []api.TrackerStatus{api.TrackerStatusClusterError, api.TrackerStatusPinError, api.TrackerStatusUnpinError,
		api.TrackerStatusPinned, api.TrackerStatusPinning, api.TrackerStatusUnpinning, api.TrackerStatusUnpinned,
		api.TrackerStatusRemote, api.TrackerStatusPinQueued, api.TrackerStatusUnpinQueued, api.TrackerStatusSharded,
		api.TrackerStatusUnexpectedlyUnpinned}
	switch r.Intn(4) {
	case 0:
		return api.TrackerStatusUndefined
	case 1, 2:
		return singles[r.Intn(len(singles))]
	default:
		var s api.TrackerStatus
		n := r.Range(2, 5)
		for i := 0; i < n; i++ {
			s |= singles[r.Intn(len(singles))]
		}
		return s
	}
}

// genSingleStatus: a pin's status is one value (unions are filters, which
// are not records and whose textual form is deliberately not one-to-one).
func genSingleStatus(r *fw.Rand) api.TrackerStatus {
	for {
		s := genStatus(r)
		if s&(s-1) == 0 {
			return s
		}
	}
}

func genMaddrs(r *fw.Rand, n int, withPeer bool) []api.Multiaddr {
	var out []api.Multiaddr
	for i := 0; i < n; i++ {
		if r.Chance(1, 5) {
			// well-formed addresses whose text needs escaping in a JSON string
			odd := r.Pick(`/dns4/host\name.example/tcp/9096`, `/dns4/win\host/tcp/9096`, `/unix/tmp/my"cluster".sock`, "/dns4/tab\there.example/tcp/1", "/unix/tmp/a\u0041b.sock",
				"/dns4/h\u00e9.example/tcp/4001", "/unix/tmp/quote'and<angle>&amp.sock", "/dns4/ctl\x01x.example/tcp/2")
			if m, err := ma.NewMultiaddr(odd); err == nil {
				out = append(out, api.NewMultiaddrWithValue(m))
				continue
			}
		}
		out = append(out, api.NewMultiaddrWithValue(gen.Multiaddr(r, withPeer)))
	}
	return out
}

func genMetric(r *fw.Rand) api.Metric {
	return api.Metric{
		Name:       r.Pick("ping", "freespace", "numpin", "", r.Str(5)),
		Peer:       gen.Peer(r.Intn(24)),
		Value:      r.Pick("", "0", "18446744073709551615", r.Str(6), fmt.Sprint(r.U64())),
		Expire:     int64(r.U64() >> 1),
		Valid:      r.Bool(),
		ReceivedAt: int64(r.U64() >> 2),
	}
}

func genPinInfo(r *fw.Rand) api.PinInfo {
	return api.PinInfo{
		Cid:  gen.RandCid(r),
		Name: r.Str(r.Intn(10)),
		Peer: gen.Peer(r.Intn(24)),
		PinInfoShort: api.PinInfoShort{
			PeerName: r.Str(r.Intn(8)),
			Status:   genSingleStatus(r),
			TS:       genTime(r),
			Error:    r.Pick("", "context canceled", r.Str(12)),
		},
	}
}

func genIPFSID(r *fw.Rand) *api.IPFSID {
	return &api.IPFSID{ID: gen.Peer(r.Intn(24)), Addresses: genMaddrs(r, r.Intn(3), true), Error: r.Pick("", "err")}
}

type kind struct {
	name string
	gen  func(r *fw.Rand) interface{} // returns pointer to value
	zero func() interface{}
	// formats this record travels in
	msgpack, json bool
}

var kinds = []kind{
	{"PinInfo", func(r *fw.Rand) interface{} { v := genPinInfo(r); return &v }, func() interface{} { return &api.PinInfo{} }, true, true},
	{"GlobalPinInfo", func(r *fw.Rand) interface{} {
		g := &api.GlobalPinInfo{Cid: gen.RandCid(r), Name: r.Str(r.Intn(6))}
		n := r.Intn(4)
		if n > 0 {
			g.PeerMap = map[string]*api.PinInfoShort{}
		}
		for i := 0; i < n; i++ {
			pi := genPinInfo(r)
			s := pi.PinInfoShort
			g.PeerMap[peer.Encode(gen.Peer(r.Intn(24)))] = &s
		}
		return g
	}, func() interface{} { return &api.GlobalPinInfo{} }, true, true},
	{"ID", func(r *fw.Rand) interface{} {
		id := &api.ID{ID: gen.Peer(r.Intn(24)), Addresses: genMaddrs(r, r.Intn(3), true),
			ClusterPeersAddresses: genMaddrs(r, r.Intn(3), true), Version: r.Pick("0.14.0", ""), Commit: r.Str(r.Intn(8)),
			RPCProtocolVersion: protocol.ID(r.Pick("/ipfscluster/0.12/rpc", "")), Error: r.Pick("", "boom"), Peername: r.Str(r.Intn(8))}
		for i := r.Intn(4); i > 0; i-- {
			id.ClusterPeers = append(id.ClusterPeers, gen.Peer(r.Intn(24)))
		}
		if r.Bool() {
			id.IPFS = genIPFSID(r)
		}
		return id
	}, func() interface{} { return &api.ID{} }, true, true},
	{"IPFSID", func(r *fw.Rand) interface{} { return genIPFSID(r) }, func() interface{} { return &api.IPFSID{} }, true, true},
	{"Metric", func(r *fw.Rand) interface{} { m := genMetric(r); return &m }, func() interface{} { return &api.Metric{} }, true, true},
	{"Alert", func(r *fw.Rand) interface{} { return &api.Alert{Metric: genMetric(r), TriggeredAt: genTime(r)} }, func() interface{} { return &api.Alert{} }, true, true},
	{"AddedOutput", func(r *fw.Rand) interface{} {
		return &api.AddedOutput{Name: r.Str(r.Intn(12)), Cid: gen.RandCid(r), Bytes: r.U64() >> uint(r.Intn(64)), Size: r.U64() >> uint(r.Intn(64))}
	}, func() interface{} { return &api.AddedOutput{} }, true, true},
	{"RepoGC", func(r *fw.Rand) interface{} { return genRepoGC(r) }, func() interface{} { return &api.RepoGC{} }, true, true},
	{"GlobalRepoGC", func(r *fw.Rand) interface{} {
		g := &api.GlobalRepoGC{}
		n := r.Intn(3)
		if n > 0 {
			g.PeerMap = map[string]*api.RepoGC{}
		}
		for i := 0; i < n; i++ {
			g.PeerMap[peer.Encode(gen.Peer(r.Intn(24)))] = genRepoGC(r)
		}
		return g
	}, func() interface{} { return &api.GlobalRepoGC{} }, true, true},
	{"ConnectGraph", func(r *fw.Rand) interface{} {
		g := &api.ConnectGraph{ClusterID: gen.Peer(r.Intn(24))}
		n := r.Intn(4)
		if n > 0 {
			g.IDtoPeername = map[string]string{}
			g.IPFSLinks = map[string][]peer.ID{}
			g.ClusterLinks = map[string][]peer.ID{}
			g.ClusterTrustLinks = map[string]bool{}
			g.ClustertoIPFS = map[string]peer.ID{}
		}
		for i := 0; i < n; i++ {
			k := peer.Encode(gen.Peer(r.Intn(24)))
			g.IDtoPeername[k] = r.Str(4)
			g.IPFSLinks[k] = gen.Peers(r.Intn(3))
			g.ClusterLinks[k] = gen.Peers(r.Intn(3))
			g.ClusterTrustLinks[k] = r.Bool()
			g.ClustertoIPFS[k] = gen.Peer(r.Intn(24))
		}
		return g
	}, func() interface{} { return &api.ConnectGraph{} }, true, true},
	{"Error", func(r *fw.Rand) interface{} { return &api.Error{Code: r.Range(-1, 600), Message: r.Str(r.Intn(20))} }, func() interface{} { return &api.Error{} }, true, true},
	{"Version", func(r *fw.Rand) interface{} { return &api.Version{Version: r.Str(r.Intn(10))} }, func() interface{} { return &api.Version{} }, true, true},
	{"IPFSRepoStat", func(r *fw.Rand) interface{} { return &api.IPFSRepoStat{RepoSize: r.U64(), StorageMax: r.U64()} }, func() interface{} { return &api.IPFSRepoStat{} }, true, true},
	{"NodeWithMeta", func(r *fw.Rand) interface{} {
		return &api.NodeWithMeta{Data: r.Bytes(r.Intn(64)), Cid: gen.RandCid(r), CumSize: r.U64()}
	}, func() interface{} { return &api.NodeWithMeta{} }, true, false},
	{"PinPath", func(r *fw.Rand) interface{} {
		p := gen.Pin(r, gen.PinParams{NoOrigins: true})
		return &api.PinPath{PinOptions: p.PinOptions, Path: "/ipfs/" + p.Cid.String() + r.Pick("", "/a/b", "/x")}
	}, func() interface{} { return &api.PinPath{} }, true, true},
}

func genRepoGC(r *fw.Rand) *api.RepoGC {
	g := &api.RepoGC{Peer: gen.Peer(r.Intn(24)), Peername: r.Str(r.Intn(6)), Error: r.Pick("", "gc failed")}
	for i := r.Intn(4); i > 0; i-- {
		k := api.IPFSRepoGC{Error: r.Pick("", "x")}
		if r.Bool() {
			k.Key = gen.RandCid(r)
		}
		g.Keys = append(g.Keys, k)
	}
	return g
}

// ---------------------------------------------------------------- codecs

func mpEncode(v interface{}) ([]byte, error) {
	var buf bytes.Buffer
	err := codec.NewEncoder(&buf, &codec.MsgpackHandle{}).Encode(v)
	return buf.Bytes(), err
}

func mpDecode(b []byte, v interface{}) error {
	return codec.NewDecoder(bytes.NewReader(b), &codec.MsgpackHandle{}).Decode(v)
}

func pinShape(p *api.Pin) string {
	var s []string
	s = append(s, p.Type.String(), fmt.Sprintf("d%d", clamp(int(p.MaxDepth), -1, 2)))
	if len(p.Allocations) > 0 {
		s = append(s, "al")
	}
	if len(p.Origins) > 0 {
		s = append(s, "or")
	}
	if len(p.Metadata) > 0 {
		s = append(s, "md")
		if _, ok := p.Metadata[""]; ok {
			s = append(s, "ek")
		}
	}
	if !p.ExpireAt.IsZero() {
		s = append(s, "ex")
		if p.ExpireAt.Nanosecond() != 0 {
			s = append(s, "ns")
		}
	}
	if p.Reference != nil {
		s = append(s, "rf")
	}
	if p.PinUpdate.Defined() {
		s = append(s, "pu")
	}
	if len(p.UserAllocations) > 0 {
		s = append(s, "ua")
	}
	if p.ReplicationFactorMin == -1 {
		s = append(s, "ev")
	}
	s = append(s, fmt.Sprintf("v%d", p.Cid.Version()))
	return strings.Join(s, ",")
}

func clamp(v, lo, hi int) int {
	if v < lo {
		return lo
	}
	if v > hi {
		return hi
	}
	return v
}

func shapeOf(v interface{}) string {
	// which top-level fields are non-empty
	rv := reflect.ValueOf(v)
	for rv.Kind() == reflect.Ptr {
		rv = rv.Elem()
	}
	if rv.Kind() != reflect.Struct {
		return ""
	}
	var b strings.Builder
	for i := 0; i < rv.NumField(); i++ {
		if rv.Field(i).IsZero() {
			b.WriteByte('0')
		} else {
			b.WriteByte('1')
		}
	}
	return b.String()
}

// originsClass: the failing input class of the listed known finding.
func originsKey(format string) string { return "C08/" + format + "/pin/non-empty-origins-undecodable" }

// ---------------------------------------------------------------- case

func run(c *fw.Ctx, idx int) {
	r := c.Rand("main")
	// the first cases are the Raft-log family (a real single-peer raft.Consensus)
	nraft := 8
	if c.Thorough() {
		nraft = 64
	}
	if idx < nraft {
		raftLogCase(c, r, idx)
		return
	}
	if idx < 2*nraft {
		exportCase(c, r, idx)
		return
	}
	switch idx % 8 {
	case 0:
		protoRoundTrip(c, r)
	case 1:
		msgpackPin(c, r)
	case 2:
		jsonPin(c, r)
	case 3:
		queryRoundTrip(c, r)
	case 4:
		recordsRoundTrip(c, r)
	case 5:
		namesRoundTrip(c, r)
	case 6:
		garbage(c, r, false)
	case 7:
		garbage(c, r, true)
	}
}

func pinJSON(p *api.Pin) string {
	b, err := json.Marshal(p)
	if err != nil {
		return fmt.Sprintf("%+v", p)
	}
	return string(b)
}

func protoRoundTrip(c *fw.Ctx, r *fw.Rand) {
	ctx := context.Background()
	store := dssync.MutexWrap(ds.NewMapDatastore())
	st, err := dsstate.New(store, "/p", dsstate.DefaultHandle())
	if err != nil {
		c.Inconclusive("dsstate.New: " + err.Error())
		return
	}
	n := 30
	pins := map[string]*api.Pin{}
	// pins with exactly one option set (everything else at its zero value): an encoder
	// must not make the presence of one field depend on another
	oneHot := []func(p *api.Pin){
		func(p *api.Pin) { p.Origins = []ma.Multiaddr{gen.Multiaddr(r, true)} },
		func(p *api.Pin) { p.Name = "n" + r.Str(3) },
		func(p *api.Pin) { p.ShardSize = uint64(r.Range(1, 1<<20)) },
		func(p *api.Pin) { p.Metadata = map[string]string{"k": r.Str(2)} },
		func(p *api.Pin) { p.PinUpdate = gen.RandCid(r) },
		func(p *api.Pin) { p.ExpireAt = time.Unix(time.Now().Add(time.Hour).Unix(), 0) },
		func(p *api.Pin) { p.ReplicationFactorMin = r.Range(1, 5) },
		func(p *api.Pin) { p.ReplicationFactorMax = r.Range(1, 5) },
		func(p *api.Pin) { p.Allocations = gen.Peers(r.Range(1, 3)) },
	}
	for i := 0; i < n+len(oneHot); i++ {
		p := gen.Pin(r, gen.PinParams{AllTypes: true})
		if i >= n {
			bare := api.PinCid(gen.Cid(990000+i, i))
			bare.ReplicationFactorMin, bare.ReplicationFactorMax = 0, 0
			oneHot[i-n](bare)
			p = bare
		}
		c.Journal("proto %s", pinJSON(p))
		if err := st.Add(ctx, p); err != nil {
			c.Violation("C08/proto/add-error", "dsstate.Add refused a well-formed pin: "+err.Error(), pinJSON(p))
			continue
		}
		pins[p.Cid.KeyString()] = p
		got, err := st.Get(ctx, p.Cid)
		if err != nil {
			c.Violation("C08/proto/get-error", "dsstate.Get after Add: "+err.Error(), pinJSON(p))
			continue
		}
		checkProtoPin(c, "get", p, got)
		if i == 0 {
			c.Sample(map[string]interface{}{"format": "protobuf(dsstate.Add/Get)", "pin": json.RawMessage(pinJSON(p))})
		}
	}
	// list
	list, err := st.List(ctx)
	if err != nil {
		c.Violation("C08/proto/list-error", err.Error(), nil)
		return
	}
	if len(list) != len(pins) {
		c.Violation("C08/proto/list-count", fmt.Sprintf("List returned %d pins, %d stored", len(list), len(pins)), nil)
	}
	for _, got := range list {
		want := pins[got.Cid.KeyString()]
		if want == nil {
			c.Violation("C08/proto/list-unknown", "List returned a pin never stored: "+got.Cid.String(), nil)
			continue
		}
		checkProtoPin(c, "list", want, got)
	}
	// whole-state serialisation into an empty state
	var buf bytes.Buffer
	if err := st.Marshal(&buf); err != nil {
		c.Violation("C08/statecodec/marshal-error", err.Error(), nil)
		return
	}
	st2, _ := dsstate.New(dssync.MutexWrap(ds.NewMapDatastore()), "/q", dsstate.DefaultHandle())
	if err := st2.Unmarshal(bytes.NewReader(buf.Bytes())); err != nil {
		c.Violation("C08/statecodec/unmarshal-error", err.Error(), nil)
		return
	}
	list2, _ := st2.List(ctx)
	if len(list2) != len(pins) {
		c.Violation("C08/statecodec/count", fmt.Sprintf("state round trip holds %d pins, want %d", len(list2), len(pins)), nil)
	}
	for _, got := range list2 {
		want := pins[got.Cid.KeyString()]
		if want == nil {
			c.Violation("C08/statecodec/unknown", "pin appeared: "+got.Cid.String(), nil)
			continue
		}
		checkProtoPin(c, "statecodec", want, got)
	}
}

func checkProtoPin(c *fw.Ctx, where string, want, got *api.Pin) {
	exp := *want
	exp.UserAllocations = nil
	// the harness's own rule (not the code's): depth 0 is a direct pin, every
	// other depth (unlimited or bounded, as shard pins use) a recursive one
	exp.Mode = api.PinModeRecursive
	if want.MaxDepth == 0 {
		exp.Mode = api.PinModeDirect
	}
	if !exp.ExpireAt.IsZero() {
		exp.ExpireAt = time.Unix(exp.ExpireAt.Unix(), 0)
	}
	c.Eval("proto/" + where + "/" + pinShape(want))
	if d := mon.DeepEq(&exp, got, nil); d != "" {
		f := strings.SplitN(d, ":", 2)[0]
		f = strings.SplitN(f, "[", 2)[0]
		c.Violation("C08/proto/"+where+"/field-"+f, "protobuf round trip changed a pin: "+d, map[string]interface{}{"in": json.RawMessage(pinJSON(want)), "out": json.RawMessage(pinJSON(got))})
	}
}

func msgpackPin(c *fw.Ctx, r *fw.Rand) {
	for i := 0; i < 40; i++ {
		p := gen.Pin(r, gen.PinParams{AllTypes: true})
		c.Journal("msgpack %s", pinJSON(p))
		viaLogOp := i%2 == 1
		var got *api.Pin
		var err error
		var what string
		if viaLogOp {
			what = "logop"
			op := &raft.LogOp{Cid: p, Type: raft.LogOpType(r.Range(1, 2)), TagCtx: r.Bytes(r.Intn(8))}
			var b []byte
			b, err = mpEncode(op)
			if err == nil {
				var out raft.LogOp
				err = mpDecode(b, &out)
				got = out.Cid
				if err == nil && out.Type != op.Type {
					c.Violation("C08/msgpack/logop/type", fmt.Sprintf("LogOp type %d decoded as %d", op.Type, out.Type), nil)
				}
			}
		} else {
			what = "pin"
			var b []byte
			b, err = mpEncode(p)
			if err == nil {
				got = &api.Pin{}
				err = mpDecode(b, got)
			}
		}
		c.Eval("msgpack/" + what + "/" + pinShape(p))
		if i == 0 {
			c.Sample(map[string]interface{}{"format": "msgpack(" + what + ")", "pin": json.RawMessage(pinJSON(p))})
		}
		if err != nil {
			if len(p.Origins) > 0 && strings.Contains(err.Error(), "ultiaddr") {
				c.Violation(originsKey("msgpack"), "a pin with non-empty Origins cannot be decoded from msgpack: "+err.Error(), json.RawMessage(pinJSON(p)))
				// still check the rest of the pin without origins
				q := *p
				q.Origins = nil
				b, _ := mpEncode(&q)
				got = &api.Pin{}
				if err := mpDecode(b, got); err != nil {
					c.Violation("C08/msgpack/"+what+"/error", "msgpack round trip failed: "+err.Error(), json.RawMessage(pinJSON(&q)))
					continue
				}
				p = &q
			} else {
				c.Violation("C08/msgpack/"+what+"/error", "msgpack round trip failed: "+err.Error(), json.RawMessage(pinJSON(p)))
				continue
			}
		}
		if got == nil {
			c.Violation("C08/msgpack/"+what+"/nil", "pin decoded as nil", json.RawMessage(pinJSON(p)))
			continue
		}
		if d := mon.DeepEq(p, got, nil); d != "" {
			f := strings.SplitN(strings.SplitN(d, ":", 2)[0], "[", 2)[0]
			c.Violation("C08/msgpack/"+what+"/field-"+f, "msgpack round trip changed a pin: "+d, map[string]interface{}{"in": json.RawMessage(pinJSON(p)), "out": json.RawMessage(pinJSON(got))})
		}
	}
}

func jsonPin(c *fw.Ctx, r *fw.Rand) {
	for i := 0; i < 40; i++ {
		p := gen.Pin(r, gen.PinParams{AllTypes: true})
		c.Journal("json %s", pinJSON(p))
		c.Eval("json/pin/" + pinShape(p))
		// as exportState/importState and the REST API do: Encoder stream / Decoder
		var buf bytes.Buffer
		enc := json.NewEncoder(&buf)
		if err := enc.Encode(p); err != nil {
			c.Violation("C08/json/pin/encode-error", err.Error(), nil)
			continue
		}
		got := &api.Pin{}
		err := json.NewDecoder(bytes.NewReader(buf.Bytes())).Decode(got)
		if err != nil {
			if len(p.Origins) > 0 && strings.Contains(err.Error(), "ultiaddr") {
				c.Violation(originsKey("json"), "a pin with non-empty Origins cannot be decoded from JSON: "+err.Error(), json.RawMessage(buf.Bytes()))
				q := *p
				q.Origins = nil
				b, _ := json.Marshal(&q)
				got = &api.Pin{}
				if err := json.Unmarshal(b, got); err != nil {
					c.Violation("C08/json/pin/error", "json round trip failed: "+err.Error(), json.RawMessage(b))
					continue
				}
				p = &q
			} else {
				c.Violation("C08/json/pin/error", "json round trip failed: "+err.Error(), json.RawMessage(buf.Bytes()))
				continue
			}
		}
		if d := mon.DeepEq(p, got, nil); d != "" {
			f := strings.SplitN(strings.SplitN(d, ":", 2)[0], "[", 2)[0]
			c.Violation("C08/json/pin/field-"+f, "json round trip changed a pin: "+d, map[string]interface{}{"in": json.RawMessage(buf.Bytes()), "out": json.RawMessage(pinJSON(got))})
		}
	}
}

func queryRoundTrip(c *fw.Ctx, r *fw.Rand) {
	for i := 0; i < 40; i++ {
		p := gen.Pin(r, gen.PinParams{})
		po := p.PinOptions
		qs, err := po.ToQuery()
		if err != nil {
			c.Violation("C08/query/toquery-error", err.Error(), nil)
			continue
		}
		c.Journal("query %s", qs)
		vals, err := url.ParseQuery(qs)
		if err != nil {
			c.Violation("C08/query/unparsable", "ToQuery produced an unparsable query: "+err.Error(), qs)
			continue
		}
		var got api.PinOptions
		c.Eval("query/pinoptions/" + pinShape(p))
		if err := got.FromQuery(vals); err != nil {
			c.Violation("C08/query/fromquery-error", "FromQuery(ToQuery(v)) failed: "+err.Error(), qs)
			continue
		}
		exp := po
		if _, ok := exp.Metadata[""]; ok {
			m := map[string]string{}
			for k, v := range exp.Metadata {
				if k != "" {
					m[k] = v
				}
			}
			exp.Metadata = m
		}
		if d := mon.DeepEq(&exp, &got, nil); d != "" {
			f := strings.SplitN(strings.SplitN(d, ":", 2)[0], "[", 2)[0]
			c.Violation("C08/query/pinoptions/field-"+f, "query round trip changed pin options: "+d, qs)
		}
		if i == 0 {
			c.Sample(map[string]interface{}{"format": "query", "query": qs})
		}
		// AddParams
		ap := api.DefaultAddParams()
		ap.PinOptions = exp
		ap.PinUpdate = cid.Undef
		ap.Local, ap.Recursive, ap.Hidden, ap.Wrap, ap.Shard = r.Bool(), r.Bool(), r.Bool(), r.Bool(), r.Bool()
		ap.StreamChannels, ap.Progress, ap.NoCopy, ap.RawLeaves = r.Bool(), r.Bool(), r.Bool(), r.Bool()
		ap.Layout = r.Pick("", "trickle", "balanced")
		ap.Chunker = r.Pick("size-262144", "size-10", "rabin-16-32-64", "")
		if ap.Chunker == "" {
			ap.Chunker = "size-262144" // empty means default
		}
		ap.CidVersion = r.Intn(2)
		ap.HashFun = r.Pick("sha2-256", "sha2-512", "blake2b-256")
		ap.Format = r.Pick("", "unixfs", "car")
		aq, err := ap.ToQueryString()
		if err != nil {
			c.Violation("C08/query/addparams-toquery-error", err.Error(), nil)
			continue
		}
		av, _ := url.ParseQuery(aq)
		c.Eval("query/addparams/" + ap.Layout + "/" + ap.Format)
		gotAp, err := api.AddParamsFromQuery(av)
		if err != nil {
			c.Violation("C08/query/addparams-fromquery-error", err.Error(), aq)
			continue
		}
		if d := mon.DeepEq(ap, gotAp, nil); d != "" {
			f := strings.SplitN(strings.SplitN(d, ":", 2)[0], "[", 2)[0]
			c.Violation("C08/query/addparams/field-"+f, "query round trip changed add params: "+d, aq)
		}
	}
}

func recordsRoundTrip(c *fw.Ctx, r *fw.Rand) {
	for i := 0; i < 60; i++ {
		k := kinds[r.Intn(len(kinds))]
		v := k.gen(r)
		jb, _ := json.Marshal(v)
		c.Journal("record %s %s", k.name, jb)
		if k.msgpack {
			c.Eval("msgpack/" + k.name + "/" + shapeOf(v))
			b, err := mpEncode(v)
			if err != nil {
				c.Violation("C08/msgpack/"+k.name+"/encode-error", err.Error(), json.RawMessage(jb))
			} else {
				out := k.zero()
				if err := mpDecode(b, out); err != nil {
					c.Violation("C08/msgpack/"+k.name+"/decode-error", "msgpack decode of own encoding failed: "+err.Error(), json.RawMessage(jb))
				} else if d := mon.DeepEq(v, out, nil); d != "" {
					f := strings.SplitN(strings.SplitN(d, ":", 2)[0], "[", 2)[0]
					c.Violation("C08/msgpack/"+k.name+"/field-"+f, "msgpack round trip changed a "+k.name+": "+d, json.RawMessage(jb))
				}
			}
		}
		if k.json {
			c.Eval("json/" + k.name + "/" + shapeOf(v))
			out := k.zero()
			if err := json.Unmarshal(jb, out); err != nil {
				c.Violation("C08/json/"+k.name+"/decode-error", "json decode of own encoding failed: "+err.Error(), json.RawMessage(jb))
			} else if d := mon.DeepEq(v, out, nil); d != "" {
				f := strings.SplitN(strings.SplitN(d, ":", 2)[0], "[", 2)[0]
				c.Violation("C08/json/"+k.name+"/field-"+f, "json round trip changed a "+k.name+": "+d, json.RawMessage(jb))
			}
		}
		if i == 0 {
			c.Sample(map[string]interface{}{"format": "msgpack+json", "type": k.name, "value": json.RawMessage(jb)})
		}
	}
}

func namesRoundTrip(c *fw.Ctx, r *fw.Rand) {
	for i := 0; i < 60; i++ {
		st := genSingleStatus(r)
		c.Eval(fmt.Sprintf("names/status/%d", st))
		if got := api.TrackerStatusFromString(st.String()); got != st {
			c.Violation("C08/names/trackerstatus", fmt.Sprintf("status %d -> %q -> %d", st, st.String(), got), nil)
		}
		b, _ := json.Marshal(st)
		var st2 api.TrackerStatus
		if err := json.Unmarshal(b, &st2); err != nil || st2 != st {
			c.Violation("C08/names/trackerstatus-json", fmt.Sprintf("status %d -> %s -> %d (%v)", st, b, st2, err), nil)
		}
		// msgpack form of a status is its integer
		mb, _ := mpEncode(st)
		var st3 api.TrackerStatus
		if err := mpDecode(mb, &st3); err != nil || st3 != st {
			c.Violation("C08/names/trackerstatus-msgpack", fmt.Sprintf("status %d -> %d (%v)", st, st3, err), nil)
		}
	}
	for _, t := range []api.PinType{api.DataType, api.MetaType, api.ClusterDAGType, api.ShardType, api.AllType} {
		c.Eval("names/pintype/" + t.String())
		if got := api.PinTypeFromString(t.String()); got != t {
			c.Violation("C08/names/pintype", fmt.Sprintf("%d -> %q -> %d", t, t.String(), got), nil)
		}
	}
	for _, m := range []api.PinMode{api.PinModeRecursive, api.PinModeDirect} {
		c.Eval("names/pinmode/" + m.String())
		if got := api.PinModeFromString(m.String()); got != m {
			c.Violation("C08/names/pinmode", fmt.Sprintf("%d -> %q -> %d", m, m.String(), got), nil)
		}
		b, _ := json.Marshal(m)
		var m2 api.PinMode
		if err := json.Unmarshal(b, &m2); err != nil || m2 != m {
			c.Violation("C08/names/pinmode-json", fmt.Sprintf("%d -> %s -> %d (%v)", m, b, m2, err), nil)
		}
		if m.ToPinDepth().ToPinMode() != m {
			c.Violation("C08/names/pinmode-depth", fmt.Sprintf("mode %d -> depth %d -> mode %d", m, m.ToPinDepth(), m.ToPinDepth().ToPinMode()), nil)
		}
	}
	for _, s := range []struct {
		s string
		v api.IPFSPinStatus
	}{{"direct", api.IPFSPinStatusDirect}, {"recursive", api.IPFSPinStatusRecursive}, {"indirect", api.IPFSPinStatusIndirect},
		{"indirect through Qmx", api.IPFSPinStatusIndirect}} {
		c.Eval("names/ipfspinstatus/" + s.s)
		if got := api.IPFSPinStatusFromString(s.s); got != s.v {
			c.Violation("C08/names/ipfspinstatus", fmt.Sprintf("%q -> %d want %d", s.s, got, s.v), nil)
		}
	}
}

// ---------------------------------------------------------------- garbage

func mutate(r *fw.Rand, b []byte) []byte {
	out := append([]byte{}, b...)
	if len(out) == 0 {
		return r.Bytes(r.Intn(16))
	}
	switch r.Intn(6) {
	case 0: // bit flips
		for i := r.Range(1, 4); i > 0; i-- {
			out[r.Intn(len(out))] ^= 1 << uint(r.Intn(8))
		}
	case 1: // truncate
		out = out[:r.Intn(len(out))]
	case 2: // length inflation
		out[r.Intn(len(out))] = []byte{0xff, 0xde, 0xdc, 0xda, 0xc5, 0x7f, 0x80, 0x9f, 0x8f, 0xbf}[r.Intn(10)]
	case 3: // splice random bytes
		i := r.Intn(len(out))
		out = append(out[:i], append(r.Bytes(r.Range(1, 8)), out[i:]...)...)
	case 4: // byte overwrite
		for i := r.Range(1, 6); i > 0; i-- {
			out[r.Intn(len(out))] = byte(r.U64())
		}
	case 5: // duplicate tail
		i := r.Intn(len(out))
		out = append(out, out[i:]...)
	}
	return out
}

// panicSite returns the first ipfs-cluster frame (function name) below the
// panic in a debug.Stack() dump, or the first non-runtime frame.
func panicSite(stack []byte) string {
	lines := strings.Split(string(stack), "\n")
	seenPanic := false
	first := ""
	for _, l := range lines {
		if strings.HasPrefix(l, "panic(") {
			seenPanic = true
			continue
		}
		if !seenPanic || strings.HasPrefix(l, "\t") {
			continue
		}
		fn := l
		if i := strings.LastIndex(fn, "("); i > 0 {
			fn = fn[:i]
		}
		if strings.HasPrefix(fn, "runtime.") {
			continue
		}
		if first == "" {
			first = fn
		}
		if strings.HasPrefix(fn, "github.com/ipfs/ipfs-cluster/") {
			return strings.TrimPrefix(fn, "github.com/ipfs/ipfs-cluster/")
		}
		if strings.HasPrefix(fn, "verif/") {
			break
		}
	}
	return first
}

// has32 tells whether a msgpack input carries a 32-bit length marker. The
// ugorji decoder pre-allocates what such a marker announces (gigabytes from a
// few bytes); that is resource use inside the dependency, not a crash or a
// wrong value, and it would make 16 parallel children exhaust the sandbox.
func has32(b []byte) bool {
	for _, x := range b {
		switch x {
		case 0xdd, 0xdb, 0xdf, 0xc6, 0xc9:
			return true
		}
	}
	return false
}

func guard(c *fw.Ctx, key string, input []byte, f func()) {
	defer func() {
		if rec := recover(); rec != nil {
			site := panicSite(debug.Stack())
			c.Violation(key+"@"+site, fmt.Sprintf("decoder (or re-encoder of an accepted value) panicked at %s: %v", site, rec),
				map[string]interface{}{"input_hex": fmt.Sprintf("%x", input), "input": string(input)})
		}
	}()
	f()
}

func garbage(c *fw.Ctx, r *fw.Rand, mutated bool) {
	mode := "random"
	if mutated {
		mode = "mutated"
	}
	ctx := context.Background()
	for i := 0; i < 150; i++ {
		// 1. protobuf pin
		var in []byte
		if mutated {
			p := gen.Pin(r, gen.PinParams{AllTypes: true})
			in, _ = p.ProtoMarshal()
			in = mutate(r, in)
		} else {
			in = r.Bytes(r.Intn(80))
		}
		guard(c, "C08/garbage/proto/panic", in, func() {
			p := &api.Pin{}
			err := p.ProtoUnmarshal(in)
			c.Eval(fmt.Sprintf("garbage/proto/%s/%v", mode, err == nil))
			if err == nil {
				if _, err := p.ProtoMarshal(); err != nil {
					c.Violation("C08/garbage/proto/reencode-error", "accepted value cannot be re-encoded: "+err.Error(), fmt.Sprintf("%x", in))
				}
				json.Marshal(p)
				mpEncode(p)
				_ = p.String()
			}
		})
		// 1b. through the state: arbitrary value under a valid key, then Get/List
		guard(c, "C08/garbage/dsstate/panic", in, func() {
			store := dssync.MutexWrap(ds.NewMapDatastore())
			st, _ := dsstate.New(store, "/p", nil)
			good := gen.Pin(r, gen.PinParams{})
			st.Add(ctx, good)
			// overwrite the raw value
			res, _ := store.Query(dsQueryAll())
			ents, _ := res.Rest()
			for _, e := range ents {
				store.Put(ds.NewKey(e.Key), in)
			}
			store.Put(ds.NewKey("/p/"+r.Str(5)), in) // bad key
			c.Eval(fmt.Sprintf("garbage/dsstate/%s", mode))
			st.Get(ctx, good.Cid)
			st.List(ctx)
			var buf bytes.Buffer
			st.Marshal(&buf)
		})
		// 2. whole-state stream
		if mutated {
			st, _ := dsstate.New(dssync.MutexWrap(ds.NewMapDatastore()), "/p", nil)
			for j := r.Intn(3); j >= 0; j-- {
				st.Add(ctx, gen.Pin(r, gen.PinParams{AllTypes: true}))
			}
			var buf bytes.Buffer
			st.Marshal(&buf)
			in = mutate(r, buf.Bytes())
		} else {
			in = r.Bytes(r.Intn(80))
		}
		if has32(in) {
			in = []byte{0x81, 0xa1, 0x6b}
		}
		guard(c, "C08/garbage/statecodec/panic", in, func() {
			st, _ := dsstate.New(dssync.MutexWrap(ds.NewMapDatastore()), "/p", nil)
			err := st.Unmarshal(bytes.NewReader(in))
			c.Eval(fmt.Sprintf("garbage/statecodec/%s/%v", mode, err == nil))
			st.List(ctx)
			var buf bytes.Buffer
			st.Marshal(&buf)
		})
		// 3. msgpack + json into every record type
		k := kinds[r.Intn(len(kinds))]
		name := k.name
		var zero func() interface{} = k.zero
		var val interface{}
		if r.Chance(1, 3) {
			name = "Pin"
			zero = func() interface{} { return &api.Pin{} }
			val = gen.Pin(r, gen.PinParams{AllTypes: true, NoOrigins: r.Bool()})
		} else if r.Chance(1, 6) {
			name = "LogOp"
			zero = func() interface{} { return &raft.LogOp{} }
			val = &raft.LogOp{Cid: gen.Pin(r, gen.PinParams{AllTypes: true, NoOrigins: true}), Type: 1}
		} else {
			val = k.gen(r)
		}
		if mutated && r.Chance(1, 3) {
			in, _ = mpEncode(crafted(r, zero(), "codec"))
		} else if mutated {
			in, _ = mpEncode(val)
			in = mutate(r, in)
		} else {
			in = r.Bytes(r.Intn(80))
		}
		if has32(in) {
			c.Count("msgpack_inputs_skipped_32bit_length_marker", 1)
			in = []byte{0xc0}
		}
		guard(c, "C08/garbage/msgpack/"+name+"/panic", in, func() {
			out := zero()
			err := mpDecode(in, out)
			c.Eval(fmt.Sprintf("garbage/msgpack/%s/%s/%v", name, mode, err == nil))
			if err == nil {
				if _, err := mpEncode(out); err != nil {
					c.Violation("C08/garbage/msgpack/"+name+"/reencode-error", "accepted value cannot be re-encoded: "+err.Error(), fmt.Sprintf("%x", in))
				}
				json.Marshal(out)
				if p, ok := out.(*api.Pin); ok {
					p.ProtoMarshal()
					p.ToQuery()
				}
			}
		})
		if name != "NodeWithMeta" && name != "LogOp" {
			if mutated && r.Chance(1, 3) {
				in, _ = json.Marshal(crafted(r, zero(), "json"))
			} else if mutated {
				in, _ = json.Marshal(val)
				in = mutate(r, in)
			} else {
				in = []byte(r.Pick(`{`, `null`, `[]`, `{"cid":5}`, `{"cid":{"/":5}}`, `{"cid":{"/":"zzz"}}`, `{"peer_map":{"x":null}}`, `{"addresses":[""]}`,
					`{"addresses":["/ip4/1"]}`, `{"status":"pinned,bogus"}`, `{"timestamp":"yesterday"}`, `{"id":"Qm"}`, `{"allocations":["Qm"]}`,
					`{"origins":[null]}`, `{"metadata":{"":""}}`, `{"expire_at":"x"}`, `{"max_depth":1e99}`, `{"type":-1}`, `{"mode":7}`, `{"reference":""}`,
					`{"keys":[{"key":{"/":""}}]}`, r.Str(r.Intn(30))))
			}
			guard(c, "C08/garbage/json/"+name+"/panic", in, func() {
				out := zero()
				err := json.Unmarshal(in, out)
				c.Eval(fmt.Sprintf("garbage/json/%s/%s/%v", name, mode, err == nil))
				if err == nil {
					if _, err := json.Marshal(out); err != nil {
						c.Violation("C08/garbage/json/"+name+"/reencode-error", "accepted value cannot be re-encoded: "+err.Error(), string(in))
					}
					mpEncode(out)
					if p, ok := out.(*api.Pin); ok {
						p.ProtoMarshal()
						p.ToQuery()
					}
				}
			})
		}
		// 4. query strings
		q := url.Values{}
		keys := []string{"name", "mode", "replication", "replication-min", "replication-max", "shard-size", "user-allocations", "expire-at", "expire-in",
			"meta-", "meta-a", "pin-update", "origins", "layout", "chunker", "hash", "format", "local", "recursive", "hidden", "wrap-with-directory",
			"shard", "progress", "cid-version", "raw-leaves", "stream-channels", "nocopy"}
		for j := r.Intn(6); j > 0; j-- {
			q.Set(keys[r.Intn(len(keys))], r.Pick("", "x", "-1", "1", "99999999999999999999", "true", "1h", "1ns", "/ip4/1.2.3.4", "/ip4/1.2.3.4/tcp/1/p2p/x", ",", "Qm,", r.Str(r.Intn(10))))
		}
		guard(c, "C08/garbage/query/panic", []byte(q.Encode()), func() {
			var po api.PinOptions
			err := po.FromQuery(q)
			c.Eval(fmt.Sprintf("garbage/query/%v", err == nil))
			if err == nil {
				if _, err := po.ToQuery(); err != nil {
					c.Violation("C08/garbage/query/reencode-error", err.Error(), q.Encode())
				}
			}
			ap, err := api.AddParamsFromQuery(q)
			if err == nil {
				ap.ToQueryString()
			}
		})
		// 5. name parsers
		s := r.Str(r.Intn(12))
		guard(c, "C08/garbage/names/panic", []byte(s), func() {
			c.Eval("garbage/names")
			_ = api.TrackerStatusFromString(s).String()
			_ = api.PinTypeFromString(s).String()
			_ = api.PinModeFromString(s).String()
			_ = api.IPFSPinStatusFromString(s).ToTrackerStatus()
			api.StringsToPeers([]string{s, ""})
			var m api.Multiaddr
			m.UnmarshalJSON([]byte(s))
			var m2 api.Multiaddr
			m2.UnmarshalBinary([]byte(s))
		})
	}
}

func dsQueryAll() dsq.Query { return dsq.Query{} }

// crafted builds a structure-aware hostile document for a record type: a map
// keyed by the record's own codec/json field names whose values have
// unexpected shapes (nil, nil inside lists and maps, wrong scalar types).
func crafted(r *fw.Rand, zero interface{}, tag string) map[string]interface{} {
	out := map[string]interface{}{}
	var walk func(t reflect.Type)
	walk = func(t reflect.Type) {
		for t.Kind() == reflect.Ptr {
			t = t.Elem()
		}
		if t.Kind() != reflect.Struct {
			return
		}
		for i := 0; i < t.NumField(); i++ {
			f := t.Field(i)
			if f.Anonymous {
				walk(f.Type)
				continue
			}
			name := strings.Split(f.Tag.Get(tag), ",")[0]
			if name == "" || name == "-" {
				name = f.Name
			}
			if !r.Chance(2, 3) {
				continue
			}
			var v interface{}
			switch r.Intn(10) {
			case 0:
				v = nil
			case 1:
				v = []interface{}{nil}
			case 2:
				v = map[string]interface{}{"x": nil}
			case 3:
				v = r.Str(r.Intn(6))
			case 4:
				v = r.Intn(1000) - 500
			case 5:
				v = []interface{}{r.Str(3), nil, 7}
			case 6:
				v = r.Bytes(r.Intn(12))
			case 7:
				v = map[string]interface{}{"": []interface{}{nil}, "/": r.Str(4)}
			case 8:
				v = true
			default:
				v = []interface{}{map[string]interface{}{"k": nil, "key": map[string]interface{}{"/": nil}}}
			}
			out[name] = v
		}
	}
	walk(reflect.TypeOf(zero))
	return out
}
