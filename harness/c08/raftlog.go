package c08

import (
	"context"
	"fmt"
	"os"
	"path/filepath"
	"time"

	"verif/fw"
	"verif/gen"
	"verif/mon"
	"verif/sim"

	"github.com/ipfs/ipfs-cluster/api"
	peer "github.com/libp2p/go-libp2p-core/peer"
)

// raftLogCase: the Raft-log form. A real single-peer raft.Consensus (real
// LogOp encoding, real go-libp2p-raft FSM which decodes every committed entry
// onto one reused operation object, real dsstate) takes a sequence of pins of
// every type and of unpins carrying rich pins. After each commit the entry the
// state holds for the CID must equal the submitted pin (through the state's
// own protobuf form), whatever was committed before it.
func raftLogCase(c *fw.Ctx, r *fw.Rand, idx int) {
	ctx := context.Background()
	dir := filepath.Join(c.Dir, fmt.Sprintf("raftlog%d", idx))
	os.RemoveAll(dir)
	defer os.RemoveAll(dir)
	key := gen.Key(80 + idx%4)
	id, _ := peer.IDFromPrivateKey(key)
	p := &sim.NetPeer{Key: key, Dir: dir}
	if err := sim.StartPeer(ctx, p, sim.NetOpts{Consensus: "raft", Peers: []peer.ID{id}}); err != nil {
		c.Inconclusive("raft peer: " + err.Error())
		return
	}
	defer p.Node.Close()
	nops := 40
	var trace []string
	for k := 0; k < nops; k++ {
		pin := gen.Pin(r, gen.PinParams{NPeers: 5, Universe: 4, AllTypes: true, NoOrigins: true})
		pin.UserAllocations = nil
		kind := "pin"
		if r.Intn(3) == 0 {
			kind = "unpin"
		}
		method := map[string]string{"pin": "LogPin", "unpin": "LogUnpin"}[kind]
		trace = append(trace, fmt.Sprintf("%s %s", kind, pinJSON(pin)))
		if len(trace) > 4 {
			trace = trace[1:]
		}
		cctx, cancel := context.WithTimeout(ctx, 20*time.Second)
		err := p.Node.Client.CallContext(cctx, "", "Consensus", method, pin, &struct{}{})
		cancel()
		if err != nil {
			c.Violation("C08/raftlog/commit-failed/"+kind, "a well-formed pin could not be committed to the Raft log: "+err.Error(), trace)
			return
		}
		st, err := p.Node.Consensus.State(ctx)
		if err != nil {
			c.Inconclusive("state: " + err.Error())
			return
		}
		got, gerr := st.Get(ctx, pin.Cid)
		c.Eval("raftlog/" + kind + "/" + pin.Type.String())
		if kind == "unpin" {
			if gerr == nil {
				c.Violation("C08/raftlog/unpin-left-entry", "after a committed unpin the CID is still in the state", trace)
			}
			continue
		}
		if gerr != nil {
			c.Violation("C08/raftlog/pin-not-stored", "after a committed pin the state has no entry: "+gerr.Error(), trace)
			continue
		}
		b, err := pin.ProtoMarshal()
		if err != nil {
			continue
		}
		want := &api.Pin{}
		if want.ProtoUnmarshal(b) != nil {
			continue
		}
		if d := mon.DeepEq(want, got, nil); d != "" {
			field := d
			for i := 0; i < len(d); i++ {
				if d[i] == ':' {
					field = d[:i]
					break
				}
			}
			c.Violation("C08/raftlog/stored-differs-from-submitted/"+field, "the entry stored after going through the Raft log differs from the submitted pin: "+d, trace)
		}
	}
	c.Sample(map[string]interface{}{"family": "raftlog", "operations": nops})
}
