// Package c05: each peer's IPFS pinset converges to what the shared pinset assigns to it.
package c05

import (
	"context"
	"fmt"
	"runtime"
	"strings"
	"sync"
	"sync/atomic"
	"time"

	"verif/fw"
	"verif/gen"
	"verif/mon"
	"verif/sim"
	"verif/trk"

	cid "github.com/ipfs/go-cid"
	"github.com/ipfs/ipfs-cluster/api"
	"github.com/ipfs/ipfs-cluster/pintracker/stateless"
	peer "github.com/libp2p/go-libp2p-core/peer"
)

func init() {
	fw.Register(&fw.Prop{
		ID:    "C05",
		Level: "exploration",
		Rule: "Real stateless tracker + operation table (queue sizes 1-3 or 100, 1-3 pin workers) over a real dsstate pinset and the model IPFS daemon behind the IPFSConnector RPC service. " +
			"A case is a sequence of 5-60 instructions over 4 CIDs: track (allocated here | to everyone | elsewhere | meta; recursive or direct, direct->recursive upgrades), untrack, recover(c), recoverAll, " +
			"issued exactly as consensus does (pinset first, then Track/Untrack). For every IPFS pin/unpin call a gate decides from (cid, op, n-th call): complete now, fail with an error, or hold until j further instructions were issued / until the end, " +
			"which enumerates completion orders of in-flight calls relative to later instructions; a call cancelled before it commits has no effect. " +
			"Oracle at quiescence (nothing queued/in progress, no call inside the daemon, three stable polls): per CID, the daemon matches the last instruction (pinned in the recorded mode / not pinned) or Status(c) is an error status; remote => no demand; meta => never pinned; " +
			"ErrFullQueue => error returned and error status. Then the daemon is made healthy, one RecoverAll runs, and at the next quiescence every CID must match exactly, including the mode recorded in the pinset. " +
			"distinct_nontrivial counts distinct (status of the CID when the instruction arrived, instruction, returned error class) and (phase, last instruction, daemon state, status) keys.",
		Assumptions: []string{
			"daemon model: a call is atomic and a cancelled call that has not committed has no effect (the strongest daemon the tracker could hope for); PinLsCid answers like connector+daemon (held status only if held in the asked mode)",
			"quiescence not reached within 30 s is inconclusive here (deadlocks are C18's business)",
		},
		Cases: func(tier string) int {
			if tier == "thorough" {
				return 60000
			}
			return 3000
		},
		MinEvals: func(tier string) int {
			if tier == "thorough" {
				return 400000
			}
			return 20000
		},
		Run: run,
	})
}

type instr struct {
	kind string // track-local | track-everywhere | track-remote | track-meta | untrack | recover | recoverall
	c    int
	mode api.PinMode
}

func mix(a ...uint64) uint64 {
	var h uint64 = 1469598103934665603
	for _, x := range a {
		h ^= x
		h *= 1099511628211
		h ^= h >> 29
	}
	return h
}

func run(c *fw.Ctx, idx int) {
	r := c.Rand("main")
	ctx := context.Background()
	self := gen.Peer(0)
	other := gen.Peer(1)
	queue := []int{1, 1, 2, 3, 100}[r.Intn(5)]
	workers := r.Range(1, 3)
	rig := trk.New(self, queue, workers)
	defer rig.Close()
	cids := []cid.Cid{gen.UCid(0), gen.UCid(1), gen.UCid(2), gen.UCid(3)}
	salt := r.U64()
	errRate, holdRate := []int{0, 10, 25, 50}[r.Intn(4)], []int{0, 20, 40, 70}[r.Intn(4)]

	// gate state
	var mu sync.Mutex
	type hold struct {
		ch      chan struct{}
		release int // instruction index at which to release; -1 = at the end
	}
	var holds []*hold
	var special *struct {
		key   string
		ch    chan struct{}
		fail  bool
		armed bool
	}
	callN := map[string]uint64{}
	// once this process has reported three stuck operations the remaining cases fail
	// their calls the plain way only (each such report costs 40 s)
	stuckSeen, _ := c.Store["c05-stuck"].(int)
	plainErrors := stuckSeen >= 3
	blockers := map[string]chan struct{}{}
	var step int64
	var noHold int32
	healthy := int32(0)
	rig.IPFS.SetGate(func(call sim.IPFSCall) sim.Decision {
		if call.Op != "pin" && call.Op != "unpin" {
			return sim.Decision{}
		}
		if atomic.LoadInt32(&healthy) == 1 {
			return sim.Decision{}
		}
		mu.Lock()
		defer mu.Unlock()
		ks := call.Cid.KeyString()
		if special != nil && special.armed && call.Op == "unpin" && ks == special.key {
			// the one call of a concurrent pair: held until the driver releases it
			special.armed = false
			d := sim.Decision{Hold: special.ch}
			if special.fail {
				d.Err = fmt.Errorf("ipfs model: scripted failure of the held unpin")
			}
			return d
		}
		if ch := blockers[ks]; ch != nil && call.Op == "pin" {
			return sim.Decision{Hold: ch} // a helper pin that keeps a worker busy
		}
		k := call.Op + ks
		callN[k]++
		h := mix(salt, uint64(len(call.Op)), uint64(ks[len(ks)-1]), uint64(ks[len(ks)-2]), callN[k])
		var d sim.Decision
		if int(h%100) < errRate {
			d.Err = fmt.Errorf("ipfs model: scripted failure of %s #%d", call.Op, callN[k])
			// a third of the failures are the connector giving up on its own request
			// (context.Canceled as such or wrapped), not the caller's cancellation
			if !plainErrors {
				switch (h >> 8) % 6 {
				case 0:
					d.Err = context.Canceled
				case 1:
					d.Err = fmt.Errorf("ipfs model: %s gave up: %w", call.Op, context.Canceled)
				}
			}
		}
		if int((h>>20)%100) < holdRate && atomic.LoadInt32(&noHold) == 0 {
			hd := &hold{ch: make(chan struct{})}
			if (h>>40)%4 == 0 {
				hd.release = -1
			} else {
				hd.release = int(atomic.LoadInt64(&step)) + 1 + int((h>>44)%5)
			}
			holds = append(holds, hd)
			d.Hold = hd.ch
		}
		return d
	})
	releaseDue := func(all bool) {
		mu.Lock()
		defer mu.Unlock()
		var rest []*hold
		for _, h := range holds {
			if all || (h.release >= 0 && h.release <= int(atomic.LoadInt64(&step))) {
				close(h.ch)
			} else {
				rest = append(rest, h)
			}
		}
		holds = rest
	}

	// last instruction per cid, and the pin recorded in the shared pinset
	last := map[int]instr{}
	callsAtInstr := map[int]int{} // daemon call log length when the CID's last instruction was given
	curMode := map[int]api.PinMode{}
	tracked := map[int]bool{}
	var trace []string
	n := r.Range(5, 60)
	for i := 0; i < n; i++ {
		atomic.StoreInt64(&step, int64(i))
		releaseDue(false)
		var in instr
		in.c = r.Intn(4)
		switch k := r.Intn(12); {
		case k < 4:
			in.kind = "track-local"
		case k < 5:
			in.kind = "track-everywhere"
		case k < 6:
			in.kind = "track-remote"
		case k < 9:
			in.kind = "untrack"
		case k < 11:
			in.kind = "recover"
		default:
			in.kind = "recoverall"
		}
		if in.c == 3 { // the meta CID only ever sees meta / untrack
			if strings.HasPrefix(in.kind, "track") {
				in.kind = "track-meta"
			}
		}
		ci := cids[in.c]
		before := rig.T.Status(ctx, ci).Status
		var err error
		// a concurrent pair: the item is re-allocated elsewhere (the tracker's
		// best-effort unpin is held inside the daemon) and removed from the
		// pinset at the same time; the held unpin then fails or succeeds
		// (only when nothing is pending for this CID and the daemon is idle: otherwise an
		// earlier operation's call could be taken for the re-allocation's unpin and the
		// order in which the two instructions reach the tracker would not be the assumed one)
		pendingNow := before == api.TrackerStatusPinQueued || before == api.TrackerStatusUnpinQueued || before == api.TrackerStatusPinning || before == api.TrackerStatusUnpinning
		if in.c != 3 && r.Chance(1, 14) && atomic.LoadInt32(&healthy) == 0 && !pendingNow && rig.IPFS.Inflight() == 0 {
			pin := api.PinCid(ci)
			pin.Name = fmt.Sprintf("i%d", i)
			pin.ReplicationFactorMin, pin.ReplicationFactorMax = 1, 1
			pin.Allocations = []peer.ID{other}
			rig.St.Add(ctx, pin)
			mu.Lock()
			special = &struct {
				key   string
				ch    chan struct{}
				fail  bool
				armed bool
			}{key: ci.KeyString(), ch: make(chan struct{}), fail: r.Bool(), armed: true}
			sp := special
			mu.Unlock()
			c.Journal("%d track-remote c%d || untrack (held unpin fails=%v)", i, in.c, sp.fail)
			done := make(chan error, 1)
			atomic.StoreInt32(&noHold, 1) // only the one scripted hold during the pair
			go func() { done <- rig.T.Track(ctx, pin) }()
			// wait until the unpin sits in the daemon (or the Track returned without one)
			arrived := false
			for w := 0; w < 400 && !arrived; w++ {
				mu.Lock()
				arrived = !sp.armed
				mu.Unlock()
				select {
				case e := <-done:
					done <- e
					w = 400
				default:
				}
				if !arrived {
					time.Sleep(time.Millisecond)
				}
			}
			rig.St.Rm(ctx, ci)
			uerr := rig.T.Untrack(ctx, ci)
			close(sp.ch)
			<-done
			atomic.StoreInt32(&noHold, 0)
			mu.Lock()
			special = nil
			mu.Unlock()
			tracked[in.c] = false
			in.kind = "untrack"
			last[in.c] = in
			trace = append(trace, fmt.Sprintf("%d track-remote c%d || untrack (held unpin arrived=%v fails=%v) -> untrack err=%v", i, in.c, arrived, sp.fail, uerr))
			c.Cover(fmt.Sprintf("pair/remote-track+untrack/arrived=%v/fails=%v", arrived, sp.fail))
			continue
		}
		// a queued re-pin overtaken by a re-allocation: the daemon already holds the item,
		// every pin worker is busy with something else, the item is tracked again for this
		// peer (the operation waits in the queue) and then moves to another peer
		if in.c != 3 && r.Chance(1, 14) && atomic.LoadInt32(&healthy) == 0 && !pendingNow && rig.IPFS.Inflight() == 0 {
			rig.IPFS.SetPin(ci, "recursive")
			var helpers []cid.Cid
			mu.Lock()
			for w := 0; w < workers; w++ {
				h := gen.UCid(20 + w)
				helpers = append(helpers, h)
				blockers[h.KeyString()] = make(chan struct{})
			}
			mu.Unlock()
			busy := true
			for hi, h := range helpers {
				hp := api.PinCid(h)
				hp.ReplicationFactorMin, hp.ReplicationFactorMax = -1, -1
				rig.St.Add(ctx, hp)
				if rig.T.Track(ctx, hp) != nil {
					busy = false
				}
				// one after the other: the queue may hold a single operation
				for w := 0; w < 3000 && busy && rig.IPFS.Inflight() < hi+1; w++ {
					time.Sleep(time.Millisecond)
				}
			}
			busy = busy && rig.IPFS.Inflight() >= workers
			local := api.PinCid(ci)
			local.Name = fmt.Sprintf("i%d-local", i)
			local.ReplicationFactorMin, local.ReplicationFactorMax = 1, 2
			local.Allocations = []peer.ID{self, other}
			rig.St.Add(ctx, local)
			qerr := rig.T.Track(ctx, local)
			queued := rig.T.Status(ctx, ci).Status
			remote := api.PinCid(ci)
			remote.Name = fmt.Sprintf("i%d-remote", i)
			remote.ReplicationFactorMin, remote.ReplicationFactorMax = 1, 1
			remote.Allocations = []peer.ID{other}
			rig.St.Add(ctx, remote)
			atomic.StoreInt32(&noHold, 1) // the best-effort unpin runs in the caller
			callsAtInstr[in.c] = rig.IPFS.NCalls()
			rerr := rig.T.Track(ctx, remote)
			atomic.StoreInt32(&noHold, 0)
			mu.Lock()
			for k, ch := range blockers {
				close(ch)
				delete(blockers, k)
			}
			mu.Unlock()
			tracked[in.c] = true
			curMode[in.c] = api.PinModeRecursive
			in.kind, in.mode = "track-remote", api.PinModeRecursive
			last[in.c] = in
			trace = append(trace, fmt.Sprintf("%d c%d held by the daemon; workers busy=%v; track-local -> %v (status %s); track-remote -> %v", i, in.c, busy, qerr, queued, rerr))
			c.Journal("%s", trace[len(trace)-1])
			c.Cover(fmt.Sprintf("construct/queued-repin-then-remote/busy=%v/queued=%v", busy, queued == api.TrackerStatusPinQueued))
			continue
		}
		switch {
		case strings.HasPrefix(in.kind, "track"):
			pin := api.PinCid(ci)
			pin.Name = fmt.Sprintf("i%d", i)
			in.mode = api.PinModeRecursive
			if (in.kind == "track-local" || in.kind == "track-everywhere") && r.Chance(1, 3) && !(tracked[in.c] && curMode[in.c] == api.PinModeRecursive) {
				in.mode = api.PinModeDirect
			}
			pin.Mode = in.mode
			pin.MaxDepth = mon.DepthOf(in.mode)
			switch in.kind {
			case "track-local":
				pin.ReplicationFactorMin, pin.ReplicationFactorMax = 1, 2
				pin.Allocations = []peer.ID{self, other}
			case "track-everywhere":
				pin.ReplicationFactorMin, pin.ReplicationFactorMax = -1, -1
			case "track-remote":
				pin.ReplicationFactorMin, pin.ReplicationFactorMax = 1, 1
				pin.Allocations = []peer.ID{other}
			case "track-meta":
				pin.Type = api.MetaType
				ref := gen.UCid(9)
				pin.Reference = &ref
				pin.MaxDepth = 0
			}
			rig.St.Add(ctx, pin)
			tracked[in.c] = true
			curMode[in.c] = in.mode
			c.Journal("%d %s c%d mode=%s", i, in.kind, in.c, in.mode)
			if in.kind == "track-remote" {
				atomic.StoreInt32(&noHold, 1) // the best-effort unpin runs in the caller
			}
			callsAtInstr[in.c] = rig.IPFS.NCalls()
			err = rig.T.Track(ctx, pin)
			if in.kind == "track-remote" {
				atomic.StoreInt32(&noHold, 0)
			}
			last[in.c] = in
		case in.kind == "untrack":
			rig.St.Rm(ctx, ci)
			tracked[in.c] = false
			c.Journal("%d untrack c%d", i, in.c)
			err = rig.T.Untrack(ctx, ci)
			last[in.c] = in
		case in.kind == "recover":
			c.Journal("%d recover c%d", i, in.c)
			_, err = rig.T.Recover(ctx, ci)
		default:
			c.Journal("%d recoverall", i)
			_, err = rig.T.RecoverAll(ctx)
		}
		errClass := "nil"
		if err != nil {
			errClass = "err"
			if err == stateless.ErrFullQueue {
				errClass = "fullqueue"
			}
		}
		trace = append(trace, fmt.Sprintf("%s c%d %s (was %s) -> %s", in.kind, in.c, in.mode, before, errClass))
		c.Eval(fmt.Sprintf("%s/%s/was=%s/%s", in.kind, in.mode, before, errClass))
		if in.kind != "recover" && in.kind != "recoverall" {
			if err == stateless.ErrFullQueue {
				st := rig.T.Status(ctx, ci).Status
				if !trk.IsErrorStatus(st) {
					c.Violation("C05/fullqueue-without-error-status", fmt.Sprintf("%s returned ErrFullQueue but Status is %s", in.kind, st), trace)
				}
			} else if err != nil {
				c.Violation("C05/instruction-error/"+in.kind, "instruction failed with an unexpected error: "+err.Error(), trace)
			}
		}
	}
	atomic.StoreInt64(&step, int64(n+100))
	atomic.StoreInt32(&noHold, 1) // the history is over: nothing is held any more
	releaseDue(true)
	stuck := false
	if !rig.Quiesce(ctx, 30*time.Second) {
		// nothing is held any more. If nothing at all happens for 10 more seconds (no call
		// in the daemon, its call log silent), activity has quiesced as far as anybody can
		// tell: the statuses are judged as they stand
		n0 := rig.IPFS.NCalls()
		idle := true
		for w := 0; w < 100 && idle; w++ {
			time.Sleep(100 * time.Millisecond)
			if rig.IPFS.Inflight() > 0 || rig.IPFS.NCalls() != n0 {
				idle = false
			}
		}
		if !idle {
			c.Inconclusive("no quiescence after the history")
			return
		}
		stuck = true
		c.Store["c05-stuck"] = stuckSeen + 1
	}
	tail := func() []string {
		if len(trace) > 40 {
			return trace[len(trace)-40:]
		}
		return trace
	}
	cfgDesc := fmt.Sprintf("queue=%d workers=%d err%%=%d hold%%=%d", queue, workers, errRate, holdRate)
	diag := func() []string { return nil }
	check := func(phase string, exact bool) {
		for ci, in := range last {
			cc := cids[ci]
			held := rig.IPFS.ModeOf(cc)
			st := rig.T.Status(ctx, cc).Status
			sit := fmt.Sprintf("%s/%s/%s/held=%s/status=%s", phase, in.kind, in.mode, orDash(held), st)
			c.Eval(sit)
			detail := map[string]interface{}{"goroutines": trackerGoroutines(), "rounds": diag(), "config": cfgDesc, "cid": ci, "last_instruction": in.kind, "mode": in.mode.String(), "daemon_holds": held, "status": st.String(), "trace": tail()}
			switch in.kind {
			case "track-local", "track-everywhere":
				want := "recursive"
				if in.mode == api.PinModeDirect {
					want = "direct"
				}
				if held == want {
					continue
				}
				if !exact && trk.IsErrorStatus(st) {
					continue
				}
				c.Violation(fmt.Sprintf("C05/%s/should-be-pinned/%s/held=%s/status=%s", phase, want, orDash(held), st),
					fmt.Sprintf("last instruction pins c%d %s here, daemon holds %q, status %s", ci, want, held, st), detail)
			case "untrack":
				if held == "" {
					continue
				}
				if !exact && trk.IsErrorStatus(st) {
					continue
				}
				c.Violation(fmt.Sprintf("C05/%s/should-be-unpinned/held=%s/status=%s", phase, held, st),
					fmt.Sprintf("last instruction removes c%d, daemon still holds it %s, status %s", ci, held, st), detail)
			case "track-meta":
				if held != "" {
					c.Violation("C05/"+phase+"/meta-pinned", "a meta entry was pinned on the daemon", detail)
				}
			case "track-remote":
				// best effort: a daemon failure is tolerated, not trying is not. If the daemon
				// still holds the item, an unpin for it must have ended (whatever its outcome)
				// after the instruction was given
				if held == "" || exact {
					continue
				}
				attempted := false
				calls := rig.IPFS.Calls()
				for _, call := range calls[callsAtInstr[ci]:] {
					if call.Op == "unpin" && call.Cid.Equals(cids[ci]) {
						attempted = true
					}
				}
				c.Eval(fmt.Sprintf("%s/moved-elsewhere-still-held/unpin-attempted=%v", phase, attempted))
				if !attempted {
					c.Violation(fmt.Sprintf("C05/%s/moved-elsewhere/no-unpin-attempted/held=%s/status=%s", phase, held, st),
						fmt.Sprintf("c%d moved to other peers, the daemon still holds it (%s) and no unpin reached the daemon after that instruction", ci, held), detail)
				}
			}
		}
	}
	check("quiescent", false)
	if stuck {
		return // operations that never end: the recover phase could not come to rest either
	}
	// heal the daemon and recover
	atomic.StoreInt32(&healthy, 1)
	callsAtHeal := rig.IPFS.NCalls()
	heldAtHeal := map[int]string{}
	for ci := range cids {
		heldAtHeal[ci] = rig.IPFS.ModeOf(cids[ci])
	}
	// one recover round; with a queue smaller than the number of items to recover the
	// round is cut short by ErrFullQueue (reported, not dropped), so it is repeated
	// until a round completes
	var roundLog []string
	perCid := idx%2 == 1
	for round := 0; ; round++ {
		var pre []string
		for _, pi := range rig.T.StatusAll(ctx, api.TrackerStatusUndefined) {
			for ci := range cids {
				if cids[ci].Equals(pi.Cid) {
					pre = append(pre, fmt.Sprintf("c%d=%s", ci, pi.Status))
				}
			}
		}
		var err error
		if perCid {
			// the recover round done item by item (PinTracker.Recover), the less used entry point
			for ci := range cids {
				if _, e := rig.T.Recover(ctx, cids[ci]); e != nil {
					err = e
				}
			}
		} else {
			_, err = rig.T.RecoverAll(ctx)
		}
		roundLog = append(roundLog, fmt.Sprintf("round %d (per item: %v): before [%s] -> err=%v", round, perCid, strings.Join(pre, " "), err))
		if !rig.Quiesce(ctx, 30*time.Second) {
			c.Inconclusive("no quiescence after recover")
			return
		}
		if err == nil {
			break
		}
		if err != stateless.ErrFullQueue {
			c.Violation("C05/recoverall-error", fmt.Sprintf("recover round (per item: %v) with a healthy daemon failed: %v", perCid, err), tail())
			break
		}
		if round >= 8 {
			// items the daemon refuses for good (direct over a recursively held CID) are
			// re-queued every round and can keep a tiny queue full: every recoverable
			// item has had its turn by now (4 CIDs, at least one served per round)
			c.Count("recover_rounds_capped", 1)
			break
		}
	}
	diag = func() []string {
		out := append([]string{}, roundLog...)
		for _, call := range rig.IPFS.Calls()[callsAtHeal:] {
			if call.Op == "pin" || call.Op == "unpin" {
				out = append(out, fmt.Sprintf("call %s %s mode=%s err=%q commit=%v", call.Op, call.Cid, call.Mode, call.Err, call.Commit))
			}
		}
		return out
	}
	// the re-issued pins use the options recorded in the shared pinset
	for _, call := range rig.IPFS.Calls()[callsAtHeal:] {
		if call.Op != "pin" {
			continue
		}
		for ci, in := range last {
			if !cids[ci].Equals(call.Cid) || (in.kind != "track-local" && in.kind != "track-everywhere") {
				continue
			}
			c.Eval("recovered/reissued-pin-mode/" + in.mode.String())
			if call.Mode != in.mode.String() {
				c.Violation(fmt.Sprintf("C05/recovered/reissued-pin-ignores-recorded-mode/recorded=%s/issued=%s", in.mode, call.Mode),
					fmt.Sprintf("recover re-issued the pin of c%d as %s although the shared pinset records %s", ci, call.Mode, in.mode),
					map[string]interface{}{"trace": tail(), "calls_after_heal": fmt.Sprintf("%+v", rig.IPFS.Calls()[callsAtHeal:]), "config": cfgDesc})
			}
		}
	}
	// not demanded: turning a recursively held CID into a direct pin (the daemon refuses it and
	// the pinset rules forbid that downgrade without an unpin that succeeded)
	for ci, in := range last {
		if in.mode == api.PinModeDirect && heldAtHeal[ci] == "recursive" && (in.kind == "track-local" || in.kind == "track-everywhere") {
			c.Count("not_demanded_recursive_held_direct_wanted", 1)
			delete(last, ci)
		}
	}
	check("recovered", true)
	if idx%200 == 0 {
		t := trace
		if len(t) > 15 {
			t = t[:15]
		}
		c.Sample(map[string]interface{}{"config": cfgDesc, "instructions": t, "daemon_calls": rig.IPFS.NCalls()})
	}
	c.Count("daemon_calls", rig.IPFS.NCalls())
}

func orDash(s string) string {
	if s == "" {
		return "-"
	}
	return s
}

// trackerGoroutines returns the stacks of goroutines that are inside the
// tracker, for diagnosing a stuck worker.
func trackerGoroutines() []string {
	buf := make([]byte, 4<<20)
	n := runtime.Stack(buf, true)
	var out []string
	for _, g := range strings.Split(string(buf[:n]), "\n\n") {
		if strings.Contains(g, "pintracker/stateless") {
			if len(g) > 1500 {
				g = g[:1500]
			}
			out = append(out, g)
		}
	}
	return out
}
