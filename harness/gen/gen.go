// Package gen holds deterministic generators for CIDs, peer ids, multiaddrs
// and well-formed pins. Everything derives from an fw.Rand stream.
package gen

import (
	"crypto/sha256"
	"fmt"
	"sort"
	"sync"
	"time"

	"verif/fw"

	cid "github.com/ipfs/go-cid"
	"github.com/ipfs/ipfs-cluster/api"
	crypto "github.com/libp2p/go-libp2p-core/crypto"
	peer "github.com/libp2p/go-libp2p-core/peer"
	ma "github.com/multiformats/go-multiaddr"
	mh "github.com/multiformats/go-multihash"
)

type detReader struct{ r *fw.Rand }

func (d detReader) Read(p []byte) (int, error) {
	copy(p, d.r.Bytes(len(p)))
	return len(p), nil
}

var (
	peersOnce sync.Once
	peerPool  []peer.ID
	keyPool   []crypto.PrivKey
)

func initPeers() {
	peersOnce.Do(func() {
		for i := 0; i < 24; i++ {
			r := fw.NewRand(4242, "peerpool", i)
			var priv crypto.PrivKey
			var err error
			if i%3 == 2 {
				// an RSA-style long id is expensive; use secp256k1 for variety
				priv, _, err = crypto.GenerateSecp256k1Key(detReader{r})
			} else {
				priv, _, err = crypto.GenerateEd25519Key(detReader{r})
			}
			if err != nil {
				panic(err)
			}
			pid, err := peer.IDFromPrivateKey(priv)
			if err != nil {
				panic(err)
			}
			peerPool = append(peerPool, pid)
			keyPool = append(keyPool, priv)
		}
	})
}

// Peer returns the i-th peer id of a fixed pool of 24.
func Peer(i int) peer.ID {
	initPeers()
	return peerPool[i%len(peerPool)]
}

// Key returns the private key of the i-th pool peer.
func Key(i int) crypto.PrivKey {
	initPeers()
	return keyPool[i%len(keyPool)]
}

// Peers returns the first n pool peers.
func Peers(n int) []peer.ID {
	out := make([]peer.ID, n)
	for i := range out {
		out[i] = Peer(i)
	}
	return out
}

// PeerIndex returns the pool index of a peer id or -1.
func PeerIndex(p peer.ID) int {
	initPeers()
	for i, q := range peerPool {
		if p == q {
			return i
		}
	}
	return -1
}

// Cid returns a deterministic CID. kind selects the version/codec.
func Cid(i int, kind int) cid.Cid {
	h := sha256.Sum256([]byte(fmt.Sprintf("verif-cid-%d", i)))
	m, _ := mh.Encode(h[:], mh.SHA2_256)
	switch kind % 5 {
	case 0:
		return cid.NewCidV0(m)
	case 1:
		return cid.NewCidV1(cid.DagProtobuf, m)
	case 2:
		return cid.NewCidV1(cid.Raw, m)
	case 3:
		return cid.NewCidV1(cid.DagCBOR, m)
	default:
		// blake2b-256 multihash, v1 raw
		m2, _ := mh.Sum([]byte(fmt.Sprintf("verif-cid-%d", i)), mh.BLAKE2B_MIN+31, -1)
		return cid.NewCidV1(cid.Raw, m2)
	}
}

// UCid returns the i-th cid of the small universe (kind varies with i).
func UCid(i int) cid.Cid { return Cid(i, i) }

// RandCid returns an arbitrary well-formed cid.
func RandCid(r *fw.Rand) cid.Cid { return Cid(r.Intn(1<<20), r.Intn(5)) }

// Multiaddr returns a well-formed multiaddress, with /p2p/ when withPeer.
func Multiaddr(r *fw.Rand, withPeer bool) ma.Multiaddr {
	var s string
	switch r.Intn(6) {
	case 0:
		s = fmt.Sprintf("/ip4/%d.%d.%d.%d/tcp/%d", r.Range(1, 223), r.Intn(256), r.Intn(256), r.Range(1, 254), r.Range(1, 65535))
	case 1:
		s = fmt.Sprintf("/ip6/::1/tcp/%d", r.Range(1, 65535))
	case 2:
		s = fmt.Sprintf("/dns4/host%d.example.com/tcp/%d", r.Intn(100), r.Range(1, 65535))
	case 3:
		s = fmt.Sprintf("/dns6/h%d.example.org/tcp/%d", r.Intn(100), r.Range(1, 65535))
	case 4:
		s = fmt.Sprintf("/ip4/10.0.%d.%d/udp/%d/quic", r.Intn(256), r.Intn(256), r.Range(1, 65535))
	default:
		s = fmt.Sprintf("/dnsaddr/boot%d.example.net", r.Intn(100))
	}
	if withPeer {
		s += "/p2p/" + peer.Encode(Peer(r.Intn(24)))
	}
	m, err := ma.NewMultiaddr(s)
	if err != nil {
		panic(fmt.Sprintf("gen.Multiaddr %q: %v", s, err))
	}
	return m
}

// PinParams steers Pin generation.
type PinParams struct {
	NPeers    int  // allocation universe (pool prefix)
	Universe  int  // cid universe size (0 = arbitrary cids)
	AllTypes  bool // also meta/clusterdag/shard
	NoOrigins bool
	NoExpiry  bool
}

// ExpiryBase is a fixed instant far in the future used for generated expiries
// so that no oracle depends on the wall clock.
var ExpiryBase = time.Date(2100, 1, 2, 3, 4, 5, 0, time.UTC)

// Pin returns a well-formed pin.
func Pin(r *fw.Rand, pp PinParams) *api.Pin {
	if pp.NPeers == 0 {
		pp.NPeers = 8
	}
	var c cid.Cid
	if pp.Universe > 0 {
		c = UCid(r.Intn(pp.Universe))
	} else {
		c = RandCid(r)
	}
	p := &api.Pin{Cid: c}
	p.Type = api.DataType
	if pp.AllTypes {
		p.Type = []api.PinType{api.DataType, api.DataType, api.MetaType, api.ClusterDAGType, api.ShardType}[r.Intn(5)]
	}
	switch p.Type {
	case api.DataType:
		if r.Chance(1, 3) {
			p.Mode = api.PinModeDirect
			p.MaxDepth = 0
		} else {
			p.Mode = api.PinModeRecursive
			p.MaxDepth = -1
			if r.Chance(1, 8) {
				p.MaxDepth = api.PinDepth(r.Range(1, 5))
			}
		}
	case api.MetaType:
		p.MaxDepth = 0
		p.Mode = api.PinModeDirect
		ref := RandCid(r)
		p.Reference = &ref
	case api.ClusterDAGType:
		p.MaxDepth = 0
		p.Mode = api.PinModeDirect
		ref := RandCid(r)
		p.Reference = &ref
	case api.ShardType:
		p.MaxDepth = api.PinDepth(r.Range(1, 2))
		p.Mode = api.PinModeRecursive
		if r.Bool() {
			ref := RandCid(r)
			p.Reference = &ref
		}
	}
	// factors
	switch r.Intn(4) {
	case 0:
		p.ReplicationFactorMin, p.ReplicationFactorMax = -1, -1
	default:
		mn := r.Range(1, pp.NPeers)
		mx := r.Range(mn, pp.NPeers)
		p.ReplicationFactorMin, p.ReplicationFactorMax = mn, mx
	}
	// allocations
	na := r.Intn(pp.NPeers + 1)
	perm := r.Perm(pp.NPeers)
	p.Allocations = make([]peer.ID, 0, na)
	for i := 0; i < na; i++ {
		p.Allocations = append(p.Allocations, Peer(perm[i]))
	}
	if r.Chance(1, 2) {
		p.Name = r.Str(r.Intn(20))
	}
	if r.Chance(1, 4) {
		p.ShardSize = r.U64() >> uint(r.Intn(64))
	}
	if r.Chance(1, 4) {
		nu := r.Range(1, 3)
		for i := 0; i < nu; i++ {
			p.UserAllocations = append(p.UserAllocations, Peer(r.Intn(pp.NPeers)))
		}
	}
	if !pp.NoExpiry && r.Chance(1, 3) {
		p.ExpireAt = ExpiryBase.Add(time.Duration(r.Intn(1000000)) * time.Second)
		if r.Bool() {
			p.ExpireAt = p.ExpireAt.Add(time.Duration(r.Intn(999999999)))
		}
		// "never" as people write it: instants beyond what a nanosecond count since 1970 can hold
		if r.Chance(1, 8) {
			p.ExpireAt = []time.Time{time.Date(9999, 12, 31, 23, 59, 59, 0, time.UTC), time.Date(2300, 1, 1, 0, 0, 0, 0, time.UTC), time.Date(2262, 4, 12, 0, 0, 0, 0, time.UTC)}[r.Intn(3)]
		}
	}
	if r.Chance(1, 2) {
		nm := r.Intn(4)
		p.Metadata = map[string]string{}
		for i := 0; i < nm; i++ {
			k := r.Str(r.Range(1, 6))
			if r.Chance(1, 10) {
				k = ""
			}
			p.Metadata[k] = r.Str(r.Intn(8))
		}
	}
	if r.Chance(1, 5) {
		p.PinUpdate = RandCid(r)
	}
	if !pp.NoOrigins && r.Chance(1, 3) {
		no := r.Range(1, 3)
		for i := 0; i < no; i++ {
			p.Origins = append(p.Origins, Multiaddr(r, true))
		}
	}
	return p
}

// SortedPeers returns the sorted string forms.
func SortedPeers(ps []peer.ID) []string {
	out := make([]string, len(ps))
	for i, p := range ps {
		out[i] = peer.Encode(p)
	}
	sort.Strings(out)
	return out
}
