// Package c18: concurrent use of the public operations never races, panics,
// deadlocks or tears results. The race detector build is the sanitizer; the
// workloads below aim at shared mutable state and check the structure of what
// they get back.
package c18

import (
	"context"
	"errors"
	"fmt"
	"os"
	"path/filepath"
	"runtime"
	"sync"
	"sync/atomic"
	"time"

	"verif/fw"
	"verif/gen"
	"verif/sim"
	"verif/trk"

	cid "github.com/ipfs/go-cid"
	ds "github.com/ipfs/go-datastore"
	ipfscluster "github.com/ipfs/ipfs-cluster"
	"github.com/ipfs/ipfs-cluster/api"
	"github.com/ipfs/ipfs-cluster/consensus/crdt"
	"github.com/ipfs/ipfs-cluster/datastore/inmem"
	"github.com/ipfs/ipfs-cluster/informer/disk"
	"github.com/ipfs/ipfs-cluster/informer/numpin"
	"github.com/ipfs/ipfs-cluster/monitor/metrics"
	"github.com/ipfs/ipfs-cluster/monitor/pubsubmon"
	"github.com/ipfs/ipfs-cluster/pintracker/stateless"
	"github.com/ipfs/ipfs-cluster/state"
	peer "github.com/libp2p/go-libp2p-core/peer"
)

var scenarios = []struct {
	name string
	run  func(c *fw.Ctx, idx int)
}{
	{"tracker", tracker},
	{"alerts", alerts},
	{"metrics", metricsStore},
	{"monitor", monitor},
	{"informers", informers},
	{"crdt", crdtBursts},
	{"facade", facade},
	{"raft-restart", raftRestart},
	{"ready-timeout", readyTimeout},
}

func init() {
	fw.Register(&fw.Prop{
		ID:    "C18",
		Level: "exploration",
		Rule: "Race-detector build (go build -race). A case is one concurrent workload, its shape (goroutines, operations, shutdown point, queue sizes, batching, GOMAXPROCS) drawn from the PRNG: " +
			"tracker: 12-16 goroutines mixing Track/Untrack/Status/StatusAll/Recover/RecoverAll on 3 CIDs of the real stateless tracker, Shutdown mid-flight; " +
			"alerts: Cluster.Alerts() readers while 1200-2600 uniquely numbered alerts arrive (crossing the 1000 reset); " +
			"metrics: metrics.Store writers vs every reader and RemovePeer, Checker CheckAll/CheckPeers/Watch; monitor: real pubsubmon LogMetric/PublishMetric/LatestMetrics vs Shutdown; " +
			"informers: disk and numpin GetMetric vs SetClient/Shutdown; crdt: LogPin/LogUnpin bursts vs State/Peers readers vs Shutdown (batching on and off); " +
			"facade: Cluster Pin/Unpin/Status/StatusAll/Peers/StateSync/RecoverAllLocal/Alerts/Pins vs Shutdown with the real tracker; raft-restart: a Raft peer restarted on a log it replays while the Cluster wires its components. " +
			"Oracle: no race report with an ipfs-cluster frame in either access stack (deduplicated by innermost ipfs-cluster frame pair), no panic or fatal error (child exit, attributed to the journalled case), every case returns within the watchdog (else goroutine dump = deadlock), " +
			"and structural checks: alert lists contain only alerts that were sent, no zero entries, no duplicates, newest first; status listings have no nil or duplicated entries; metric listings contain only values that were written, at most one per (name, peer) where the call promises that. " +
			"distinct_nontrivial counts distinct (scenario, shape) keys.",
		Assumptions: []string{
			"the race detector reports races on the schedules that occurred; absence of a report is 'not observed on N executions', not race freedom",
			"reports whose two stacks contain no ipfs-cluster frame (dependencies, harness) are counted as external and are not violations",
		},
		Cases: func(tier string) int {
			if tier == "thorough" {
				return 640
			}
			return 64
		},
		Children: func(string) int { return 8 },
		MinEvals: func(tier string) int {
			if tier == "thorough" {
				return 20000
			}
			return 2000
		},
		CaseTimeout:     180 * time.Second,
		HangIsViolation: true,
		Race:            true,
		Run: func(c *fw.Ctx, idx int) {
			s := scenarios[idx%len(scenarios)]
			procs := []int{2, 4, 8, 16}[c.Rand("procs").Intn(4)]
			runtime.GOMAXPROCS(procs)
			c.Cover(fmt.Sprintf("%s/gomaxprocs=%d", s.name, procs))
			c.Journal("scenario %s gomaxprocs %d", s.name, procs)
			s.run(c, idx)
		},
	})
}

func capN(n, max int) int {
	if n > max {
		return max
	}
	return n
}

func testCids(base int) []cid.Cid {
	return []cid.Cid{gen.Cid(base, 0), gen.Cid(base+1, 1), gen.Cid(base+2, 2)}
}

// ---------------------------------------------------------------- tracker

func checkListing(c *fw.Ctx, scenario string, list []*api.PinInfo, self peer.ID) {
	seen := map[string]bool{}
	for _, pi := range list {
		if pi == nil {
			c.Violation("C18/"+scenario+"/status-listing-with-nil-entry", "a status listing contains a nil entry", nil)
			return
		}
		k := pi.Cid.String()
		if seen[k] {
			c.Violation("C18/"+scenario+"/status-listing-with-duplicate", "a status listing contains a CID twice", k)
			return
		}
		seen[k] = true
		if !pi.Cid.Defined() {
			c.Violation("C18/"+scenario+"/status-listing-with-empty-entry", "a status listing contains an entry without CID", nil)
			return
		}
	}
}

func tracker(c *fw.Ctx, idx int) {
	ctx := context.Background()
	r := c.Rand("tracker")
	self := gen.Peer(1)
	queue := []int{2, 8, 1000}[r.Intn(3)]
	conc := r.Range(1, 4)
	rig := trk.New(self, queue, conc)
	cids := testCids(18000)
	// the daemon takes 0-2 ms per call
	rig.IPFS.SetGate(func(call sim.IPFSCall) sim.Decision {
		if call.Seq%3 == 0 {
			ch := make(chan struct{})
			time.AfterFunc(time.Duration(call.Seq%5)*400*time.Microsecond, func() { close(ch) })
			return sim.Decision{Hold: ch}
		}
		if call.Seq%17 == 0 {
			return sim.Decision{Err: errors.New("scripted ipfs error")}
		}
		return sim.Decision{}
	})
	workers := r.Range(12, 16)
	ops := r.Range(40, 120)
	shutdownAt := -1
	if r.Intn(2) == 0 {
		shutdownAt = r.Intn(workers * ops)
	}
	var counter int64
	var wg sync.WaitGroup
	var sdOnce sync.Once
	for g := 0; g < workers; g++ {
		wr := c.Rand(fmt.Sprintf("tracker-w%d", g))
		wg.Add(1)
		go func(g int) {
			defer wg.Done()
			for k := 0; k < ops; k++ {
				n := atomic.AddInt64(&counter, 1)
				if shutdownAt >= 0 && int(n) == shutdownAt {
					sdOnce.Do(func() {
						sctx, cancel := context.WithTimeout(ctx, 60*time.Second)
						rig.T.Shutdown(sctx)
						cancel()
					})
				}
				ci := cids[wr.Intn(len(cids))]
				switch wr.Intn(8) {
				case 0, 1:
					p := api.PinCid(ci)
					p.Name = fmt.Sprintf("w%d-%d", g, k)
					rig.St.Add(ctx, p)
					rig.T.Track(ctx, p)
				case 2:
					rig.St.Rm(ctx, ci)
					rig.T.Untrack(ctx, ci)
				case 3:
					if pi := rig.T.Status(ctx, ci); pi == nil || !pi.Cid.Equals(ci) {
						c.Violation("C18/tracker/status-for-other-cid", "Status answered nil or another CID", nil)
					}
				case 4:
					checkListing(c, "tracker", rig.T.StatusAll(ctx, api.TrackerStatusUndefined), self)
				case 5:
					rig.T.Recover(ctx, ci)
				case 6:
					l, _ := rig.T.RecoverAll(ctx)
					checkListing(c, "tracker", l, self)
				case 7:
					checkListing(c, "tracker", rig.T.StatusAll(ctx, api.TrackerStatusQueued|api.TrackerStatusError), self)
				}
				c.Count("tracker-ops", 1)
			}
		}(g)
	}
	wg.Wait()
	rig.Close()
	// use after shutdown stays safe
	rig.T.Status(ctx, cids[0])
	checkListing(c, "tracker", rig.T.StatusAll(ctx, api.TrackerStatusUndefined), self)
	for i := 0; i < workers*ops/20; i++ {
		c.Eval(fmt.Sprintf("tracker/queue=%d/conc=%d/shutdown=%v", queue, conc, shutdownAt >= 0))
	}
	c.Sample(map[string]interface{}{"scenario": "tracker", "workers": workers, "ops_each": ops, "queue": queue, "concurrent_pins": conc, "shutdown_at_op": shutdownAt, "ipfs_calls": rig.IPFS.NCalls()})
}

// ---------------------------------------------------------------- alerts

func alerts(c *fw.Ctx, idx int) {
	ctx := context.Background()
	r := c.Rand("alerts")
	shared := sim.NewSharedState(nil)
	mon := sim.NewScriptedMonitor()
	repin := r.Intn(2) == 0
	n, err := sim.NewNode(ctx, sim.NodeOpts{
		Key:     gen.Key(2),
		Monitor: mon,
		Tune:    func(cfg *ipfscluster.Config) { cfg.DisableRepinning = !repin },
		Consensus: func(h host, _ pubsubT, _ dhtT, _ ds.Datastore, _ *ipfscluster.Config) (ipfscluster.Consensus, error) {
			shared.SetPeers([]peer.ID{h.ID()})
			return sim.NewModelConsensus(h.ID(), shared), nil
		},
	})
	if err != nil {
		c.Inconclusive("node: " + err.Error())
		return
	}
	defer n.Close()
	total := r.Range(1200, 2600)
	feeders := 1
	if r.Intn(3) == 0 {
		feeders = 3
	}
	readers := r.Range(2, 6)
	var sent sync.Map // value string -> true, stored before the alert is sent
	stop := make(chan struct{})
	var rwg sync.WaitGroup
	var reads int64
	for g := 0; g < readers; g++ {
		rwg.Add(1)
		go func() {
			defer rwg.Done()
			for {
				select {
				case <-stop:
					return
				default:
				}
				list := n.Cluster.Alerts()
				atomic.AddInt64(&reads, 1)
				checkAlerts(c, list, &sent, feeders == 1)
			}
		}()
	}
	var fwg sync.WaitGroup
	per := total / feeders
	for f := 0; f < feeders; f++ {
		fwg.Add(1)
		go func(f int) {
			defer fwg.Done()
			for k := 0; k < per; k++ {
				seq := f*1000000 + k + 1
				v := fmt.Sprint(seq)
				sent.Store(v, true)
				name := "verif"
				if k%50 == 0 {
					name = "ping" // the repin path (a peer that holds nothing)
				}
				mon.AlertCh <- &api.Alert{Metric: api.Metric{Name: name, Peer: gen.Peer(40 + k%3), Value: v, Valid: true}, TriggeredAt: time.Unix(0, int64(seq))}
			}
		}(f)
	}
	fwg.Wait()
	// drained?
	deadline := time.Now().Add(20 * time.Second)
	for len(mon.AlertCh) > 0 && time.Now().Before(deadline) {
		time.Sleep(5 * time.Millisecond)
	}
	time.Sleep(20 * time.Millisecond)
	close(stop)
	rwg.Wait()
	final := n.Cluster.Alerts()
	checkAlerts(c, final, &sent, feeders == 1)
	if len(final) == 0 {
		c.Violation("C18/alerts/none-recorded", "no alert is listed after alerts were delivered", nil)
	}
	for i := 0; i < capN(int(atomic.LoadInt64(&reads))/50+1, 300); i++ {
		c.Eval(fmt.Sprintf("alerts/feeders=%d/readers=%d/repin=%v", feeders, readers, repin))
	}
	c.Count("alerts-sent", per*feeders)
	c.Count("alerts-reads", int(reads))
	c.Sample(map[string]interface{}{"scenario": "alerts", "sent": per * feeders, "feeders": feeders, "readers": readers, "reads": reads, "final_len": len(final)})
}

func checkAlerts(c *fw.Ctx, list []api.Alert, sent *sync.Map, ordered bool) {
	seen := map[string]bool{}
	var prev int64 = 1 << 62
	for i, a := range list {
		if a.Value == "" && a.Name == "" && a.TriggeredAt.IsZero() {
			c.Violation("C18/alerts/empty-entry", fmt.Sprintf("Alerts() returned a list of %d with a zero entry at %d", len(list), i), nil)
			return
		}
		if _, ok := sent.Load(a.Value); !ok {
			c.Violation("C18/alerts/entry-never-sent", "Alerts() returned an alert that was never sent: "+a.Value, nil)
			return
		}
		if seen[a.Value] {
			c.Violation("C18/alerts/duplicate-entry", "Alerts() returned the same alert twice: "+a.Value, nil)
			return
		}
		seen[a.Value] = true
		if ordered {
			t := a.TriggeredAt.UnixNano()
			if t >= prev {
				c.Violation("C18/alerts/not-newest-first", fmt.Sprintf("alert %d is listed after alert %d", t, prev), nil)
				return
			}
			prev = t
		}
	}
}

// ---------------------------------------------------------------- metrics store + checker

func metricsStore(c *fw.Ctx, idx int) {
	r := c.Rand("metrics")
	ctx, cancel := context.WithCancel(context.Background())
	defer cancel()
	store := metrics.NewStore()
	checker := metrics.NewChecker(ctx, store, 3.0)
	peers := gen.Peers(4)
	names := []string{"ping", "freespace"}
	writers := r.Range(3, 8)
	readersN := r.Range(3, 8)
	ops := r.Range(300, 1200)
	var written sync.Map
	var wg sync.WaitGroup
	stop := make(chan struct{})
	go func() {
		for {
			select {
			case <-checker.Alerts():
			case <-stop:
				return
			}
		}
	}()
	go checker.Watch(ctx, func(context.Context) ([]peer.ID, error) { return peers, nil }, 2*time.Millisecond)
	for g := 0; g < writers; g++ {
		wr := c.Rand(fmt.Sprintf("metrics-w%d", g))
		wg.Add(1)
		go func(g int) {
			defer wg.Done()
			for k := 0; k < ops; k++ {
				m := &api.Metric{Name: names[wr.Intn(2)], Peer: peers[wr.Intn(4)], Value: fmt.Sprintf("%d-%d", g, k), Valid: true}
				ttl := time.Duration(wr.Intn(3)) * time.Millisecond // many expire at once
				if wr.Intn(3) == 0 {
					ttl = time.Minute
				}
				m.SetTTL(ttl)
				written.Store(m.Name+"/"+peer.Encode(m.Peer)+"/"+m.Value, true)
				store.Add(m)
				if wr.Intn(40) == 0 {
					store.RemovePeer(peers[wr.Intn(4)])
				}
				if wr.Intn(40) == 0 {
					store.RemovePeerMetrics(peers[wr.Intn(4)], names[wr.Intn(2)])
				}
			}
		}(g)
	}
	check := func(what string, ms []*api.Metric, unique bool) {
		seen := map[string]bool{}
		for _, m := range ms {
			if m == nil {
				c.Violation("C18/metrics/nil-entry/"+what, what+" returned a nil metric", nil)
				return
			}
			if _, ok := written.Load(m.Name + "/" + peer.Encode(m.Peer) + "/" + m.Value); !ok {
				c.Violation("C18/metrics/entry-never-written/"+what, what+" returned a metric nobody wrote", fmt.Sprintf("%s %s %s", m.Name, m.Peer, m.Value))
				return
			}
			k := m.Name + "/" + peer.Encode(m.Peer)
			if unique && seen[k] {
				c.Violation("C18/metrics/two-latest-for-one-peer/"+what, what+" returned two metrics for one (name, peer)", k)
				return
			}
			seen[k] = true
		}
	}
	var reads int64
	for g := 0; g < readersN; g++ {
		rr := c.Rand(fmt.Sprintf("metrics-r%d", g))
		wg.Add(1)
		go func() {
			defer wg.Done()
			for k := 0; k < ops; k++ {
				atomic.AddInt64(&reads, 1)
				switch rr.Intn(9) {
				case 0:
					check("LatestValid", store.LatestValid(names[rr.Intn(2)]), true)
				case 1:
					check("AllMetrics", store.AllMetrics(), true)
				case 2:
					check("PeerMetrics", store.PeerMetrics(peers[rr.Intn(4)]), true)
				case 3:
					check("PeerMetricAll", store.PeerMetricAll(names[rr.Intn(2)], peers[rr.Intn(4)]), false)
				case 4:
					if m := store.PeerLatest(names[rr.Intn(2)], peers[rr.Intn(4)]); m != nil {
						check("PeerLatest", []*api.Metric{m}, true)
					}
				case 5:
					store.Distribution(names[rr.Intn(2)], peers[rr.Intn(4)])
					store.MetricNames()
				case 6:
					checker.CheckAll()
				case 7:
					checker.CheckPeers(peers)
				case 8:
					checker.FailedMetric(names[rr.Intn(2)], peers[rr.Intn(4)])
				}
			}
		}()
	}
	wg.Wait()
	cancel()
	close(stop)
	for i := 0; i < int(reads)/100+1; i++ {
		c.Eval(fmt.Sprintf("metrics/writers=%d/readers=%d", writers, readersN))
	}
	c.Count("metrics-writes", writers*ops)
	c.Count("metrics-reads", int(reads))
	c.Sample(map[string]interface{}{"scenario": "metrics", "writers": writers, "readers": readersN, "ops_each": ops})
}

// ---------------------------------------------------------------- real pubsub monitor

func monitor(c *fw.Ctx, idx int) {
	r := c.Rand("monitor")
	ctx := context.Background()
	store := inmem.New()
	h, ps, dht, err := sim.NewNetHost(ctx, gen.Key(3), sim.NetSecret, store, nil)
	if err != nil {
		c.Inconclusive("host: " + err.Error())
		return
	}
	defer h.Close()
	defer dht.Close()
	cfg := &pubsubmon.Config{}
	cfg.Default()
	cfg.CheckInterval = 3 * time.Millisecond
	peers := append(gen.Peers(3), h.ID())
	var pmu sync.Mutex
	mon, err := pubsubmon.New(ctx, cfg, ps, func(context.Context) ([]peer.ID, error) {
		pmu.Lock()
		defer pmu.Unlock()
		return append([]peer.ID{}, peers...), nil
	})
	if err != nil {
		c.Inconclusive("monitor: " + err.Error())
		return
	}
	rec := sim.NewRPCRecorder(func(context.Context, sim.Call, interface{}) error { return nil })
	mon.SetClient(rec.Client)
	workers := r.Range(6, 12)
	ops := r.Range(150, 500)
	shutdownAt := -1
	if r.Intn(2) == 0 {
		shutdownAt = r.Intn(workers * ops)
	}
	stop := make(chan struct{})
	go func() {
		for {
			select {
			case <-mon.Alerts():
			case <-stop:
				return
			}
		}
	}()
	var counter int64
	var wg sync.WaitGroup
	var once sync.Once
	for g := 0; g < workers; g++ {
		wr := c.Rand(fmt.Sprintf("monitor-w%d", g))
		wg.Add(1)
		go func(g int) {
			defer wg.Done()
			for k := 0; k < ops; k++ {
				if n := atomic.AddInt64(&counter, 1); shutdownAt >= 0 && int(n) == shutdownAt {
					once.Do(func() { mon.Shutdown(ctx) })
				}
				m := &api.Metric{Name: []string{"ping", "freespace"}[wr.Intn(2)], Peer: peers[wr.Intn(len(peers))], Value: fmt.Sprintf("%d-%d", g, k), Valid: true}
				m.SetTTL(time.Duration(wr.Intn(4)) * time.Millisecond)
				switch wr.Intn(5) {
				case 0, 1:
					mon.LogMetric(ctx, m)
				case 2:
					m.Peer = h.ID()
					mon.PublishMetric(ctx, m)
				case 3:
					for _, x := range mon.LatestMetrics(ctx, m.Name) {
						if x == nil {
							c.Violation("C18/monitor/nil-entry", "LatestMetrics returned a nil metric", nil)
						}
					}
				case 4:
					mon.MetricNames(ctx)
				}
			}
		}(g)
	}
	wg.Wait()
	mon.Shutdown(ctx)
	mon.Shutdown(ctx)
	close(stop)
	for i := 0; i < workers*ops/100+1; i++ {
		c.Eval(fmt.Sprintf("monitor/workers=%d/shutdown=%v", workers, shutdownAt >= 0))
	}
	c.Count("monitor-ops", workers*ops)
	c.Sample(map[string]interface{}{"scenario": "monitor", "workers": workers, "ops_each": ops, "shutdown_at_op": shutdownAt})
}

// ---------------------------------------------------------------- informers

func informers(c *fw.Ctx, idx int) {
	r := c.Rand("informers")
	ctx := context.Background()
	rec := sim.NewRPCRecorder(func(ctx context.Context, call sim.Call, out interface{}) error {
		switch call.Name() {
		case "IPFSConnector.RepoStat":
			*(out.(*api.IPFSRepoStat)) = api.IPFSRepoStat{RepoSize: 10, StorageMax: 1000}
		case "IPFSConnector.PinLs":
			*(out.(*map[string]api.IPFSPinStatus)) = map[string]api.IPFSPinStatus{"a": api.IPFSPinStatusRecursive}
		}
		return nil
	})
	rounds := r.Range(20, 60)
	var calls int64
	for round := 0; round < rounds; round++ {
		dcfg := &disk.Config{}
		dcfg.Default()
		di, err := disk.NewInformer(dcfg)
		if err != nil {
			c.Inconclusive(err.Error())
			return
		}
		ncfg := &numpin.Config{}
		ncfg.Default()
		ni, err := numpin.NewInformer(ncfg)
		if err != nil {
			c.Inconclusive(err.Error())
			return
		}
		infs := []ipfscluster.Informer{di, ni}
		for _, inf := range infs {
			inf.SetClient(rec.Client)
		}
		var wg sync.WaitGroup
		start := make(chan struct{})
		for g := 0; g < 6; g++ {
			wg.Add(1)
			go func(g int) {
				defer wg.Done()
				<-start
				for k := 0; k < 30; k++ {
					inf := infs[(g+k)%2]
					m := inf.GetMetric(ctx)
					atomic.AddInt64(&calls, 1)
					if m == nil {
						c.Violation("C18/informers/nil-metric", "GetMetric returned nil", nil)
						return
					}
					inf.Name()
				}
			}(g)
		}
		wg.Add(1)
		go func() {
			defer wg.Done()
			<-start
			time.Sleep(time.Duration(r.Intn(300)) * time.Microsecond)
			for _, inf := range infs {
				inf.Shutdown(ctx)
			}
		}()
		close(start)
		wg.Wait()
		// after shutdown the informers answer invalid metrics
		for _, inf := range infs {
			if m := inf.GetMetric(ctx); m == nil || m.Valid {
				c.Violation("C18/informers/valid-metric-after-shutdown", "an informer that was shut down still answers a valid metric", inf.Name())
			}
		}
	}
	for i := 0; i < int(calls)/50+1; i++ {
		c.Eval("informers/getmetric-vs-shutdown")
	}
	c.Count("informer-calls", int(calls))
	c.Sample(map[string]interface{}{"scenario": "informers", "rounds": rounds, "getmetric_calls": calls})
}

// ---------------------------------------------------------------- crdt bursts

func crdtBursts(c *fw.Ctx, idx int) {
	r := c.Rand("crdt")
	ctx := context.Background()
	store := inmem.New()
	h, ps, dht, err := sim.NewNetHost(ctx, gen.Key(4), sim.NetSecret, store, nil)
	if err != nil {
		c.Inconclusive("host: " + err.Error())
		return
	}
	defer h.Close()
	defer dht.Close()
	rec := sim.NewRPCRecorder(func(ctx context.Context, call sim.Call, out interface{}) error {
		if call.Name() == "PeerMonitor.LatestMetrics" {
			*(out.(*[]*api.Metric)) = []*api.Metric{{Name: "ping", Peer: h.ID(), Valid: true}}
		}
		return nil
	})
	cfg := &crdt.Config{}
	cfg.Default()
	cfg.ClusterName = "verif-c18"
	cfg.TrustAll = true
	cfg.RebroadcastInterval = 100 * time.Millisecond
	mode := r.Pick("off", "size", "age")
	switch mode {
	case "size":
		cfg.Batching.MaxBatchSize = r.Range(2, 20)
		cfg.Batching.MaxBatchAge = time.Hour
		cfg.Batching.MaxQueueSize = []int{4, 50000}[r.Intn(2)]
	case "age":
		cfg.Batching.MaxBatchSize = 0
		cfg.Batching.MaxBatchAge = time.Duration(r.Range(1, 20)) * time.Millisecond
		cfg.Batching.MaxQueueSize = 50000
	}
	cons, err := crdt.New(h, dht, ps, cfg, store)
	if err != nil {
		c.Inconclusive("crdt: " + err.Error())
		return
	}
	cons.SetClient(rec.Client)
	select {
	case <-cons.Ready(ctx):
	case <-time.After(30 * time.Second):
		c.Inconclusive("crdt not ready")
		return
	}
	workers := r.Range(6, 12)
	ops := r.Range(30, 100)
	shutdownAt := -1
	if r.Intn(3) != 0 {
		shutdownAt = r.Intn(workers * ops)
	}
	cids := testCids(18100)
	var counter int64
	var wg sync.WaitGroup
	var once sync.Once
	for g := 0; g < workers; g++ {
		wr := c.Rand(fmt.Sprintf("crdt-w%d", g))
		wg.Add(1)
		go func(g int) {
			defer wg.Done()
			for k := 0; k < ops; k++ {
				if n := atomic.AddInt64(&counter, 1); shutdownAt >= 0 && int(n) == shutdownAt {
					once.Do(func() {
						sctx, cancel := context.WithTimeout(ctx, 60*time.Second)
						cons.Shutdown(sctx)
						cancel()
					})
				}
				p := api.PinCid(cids[wr.Intn(3)])
				p.Name = fmt.Sprintf("w%d-%d", g, k)
				octx, cancel := context.WithTimeout(ctx, 20*time.Second)
				t0 := time.Now()
				blocked := func(what string, err error) {
					// nothing this single in-memory replica does takes 19 s: a call that only came
					// back because its caller's deadline passed was stuck (and would be stuck for
					// good under a context without deadline, as the RPC layer's are)
					if err != nil && time.Since(t0) > 19*time.Second {
						c.Violation("C18/crdt/call-stuck-until-the-callers-deadline/"+what, fmt.Sprintf("%s came back after %s with %v (batching %s, shutdown during the run: %v)", what, time.Since(t0).Round(time.Second), err, mode, shutdownAt >= 0), nil)
					}
				}
				switch wr.Intn(6) {
				case 0, 1:
					blocked("LogPin", cons.LogPin(octx, p))
				case 2:
					blocked("LogUnpin", cons.LogUnpin(octx, p))
				case 3:
					if st, err := cons.State(octx); err == nil {
						if l, err := st.List(octx); err == nil {
							for _, x := range l {
								if x == nil || !x.Cid.Defined() {
									c.Violation("C18/crdt/listing-with-empty-entry", "State().List returned an empty entry", nil)
								}
							}
						}
					}
				case 4:
					cons.Peers(octx)
					cons.IsTrustedPeer(octx, h.ID())
				case 5:
					cons.Trust(octx, gen.Peer(50+wr.Intn(3)))
					cons.Distrust(octx, gen.Peer(50+wr.Intn(3)))
				}
				cancel()
			}
		}(g)
	}
	wg.Wait()
	sctx, cancel := context.WithTimeout(ctx, 60*time.Second)
	cons.Shutdown(sctx)
	cons.Shutdown(sctx)
	cancel()
	for i := 0; i < workers*ops/50+1; i++ {
		c.Eval(fmt.Sprintf("crdt/batching=%s/shutdown=%v", mode, shutdownAt >= 0))
	}
	c.Count("crdt-ops", workers*ops)
	c.Sample(map[string]interface{}{"scenario": "crdt", "batching": mode, "workers": workers, "ops_each": ops, "shutdown_at_op": shutdownAt})
}

// ---------------------------------------------------------------- cluster facade

func facade(c *fw.Ctx, idx int) {
	r := c.Rand("facade")
	ctx := context.Background()
	shared := sim.NewSharedState(nil)
	mon := sim.NewScriptedMonitor()
	key := gen.Key(5)
	self, _ := peer.IDFromPrivateKey(key)
	shared.SetPeers([]peer.ID{self})
	tcfg := &stateless.Config{}
	tcfg.Default()
	tcfg.MaxPinQueueSize = []int{4, 1000}[r.Intn(2)]
	tcfg.ConcurrentPins = r.Range(1, 4)
	cons := sim.NewModelConsensus(self, shared)
	tracker := stateless.New(tcfg, self, "verif", func(ctx context.Context) (state.ReadOnly, error) { return cons.State(ctx) })
	mon.SetMetrics("freespace", []*api.Metric{{Name: "freespace", Peer: self, Value: "100", Valid: true, Expire: time.Now().Add(time.Hour).UnixNano()}})
	n, err := sim.NewNode(ctx, sim.NodeOpts{
		Key:     key,
		Monitor: mon,
		Tracker: tracker,
		Tune:    func(cfg *ipfscluster.Config) { cfg.DisableRepinning = false },
		Consensus: func(h host, _ pubsubT, _ dhtT, _ ds.Datastore, _ *ipfscluster.Config) (ipfscluster.Consensus, error) {
			return cons, nil
		},
	})
	if err != nil {
		c.Inconclusive("node: " + err.Error())
		return
	}
	defer n.Close()
	workers := r.Range(8, 14)
	ops := r.Range(20, 60)
	shutdownAt := -1
	if r.Intn(2) == 0 {
		shutdownAt = r.Intn(workers * ops)
	}
	cids := testCids(18200)
	var counter int64
	var wg sync.WaitGroup
	var once sync.Once
	stop := make(chan struct{})
	go func() {
		k := 0
		for {
			select {
			case <-stop:
				return
			default:
			}
			k++
			select {
			case mon.AlertCh <- &api.Alert{Metric: api.Metric{Name: []string{"ping", "freespace"}[k%2], Peer: gen.Peer(60 + k%2), Value: fmt.Sprint(k)}, TriggeredAt: time.Unix(0, int64(k))}:
			case <-stop:
				return
			}
			time.Sleep(200 * time.Microsecond)
		}
	}()
	for g := 0; g < workers; g++ {
		wr := c.Rand(fmt.Sprintf("facade-w%d", g))
		wg.Add(1)
		go func(g int) {
			defer wg.Done()
			for k := 0; k < ops; k++ {
				if nn := atomic.AddInt64(&counter, 1); shutdownAt >= 0 && int(nn) == shutdownAt {
					once.Do(func() {
						sctx, cancel := context.WithTimeout(ctx, 60*time.Second)
						n.Cluster.Shutdown(sctx)
						cancel()
					})
				}
				ci := cids[wr.Intn(3)]
				octx, cancel := context.WithTimeout(ctx, 20*time.Second)
				switch wr.Intn(12) {
				case 0, 1:
					n.Cluster.Pin(octx, ci, api.PinOptions{Name: fmt.Sprintf("w%d-%d", g, k)})
				case 2:
					n.Cluster.Unpin(octx, ci)
				case 3:
					n.Cluster.Status(octx, ci)
				case 4:
					if l, err := n.Cluster.StatusAll(octx, api.TrackerStatusUndefined); err == nil {
						for _, gp := range l {
							if gp == nil {
								c.Violation("C18/facade/status-listing-with-nil-entry", "StatusAll returned a nil entry", nil)
							}
						}
					}
				case 5:
					for _, id := range n.Cluster.Peers(octx) {
						if id == nil {
							c.Violation("C18/facade/peers-with-nil-entry", "Peers returned a nil entry", nil)
						}
					}
				case 6:
					n.Cluster.StateSync(octx)
				case 7:
					n.Cluster.RecoverAllLocal(octx)
				case 8:
					for _, a := range n.Cluster.Alerts() {
						if a.Value == "" {
							c.Violation("C18/alerts/empty-entry", "Alerts() returned a zero entry (facade workload)", nil)
							break
						}
					}
				case 9:
					n.Cluster.Pins(octx)
					n.Cluster.PinGet(octx, ci)
				case 10:
					n.Cluster.ID(octx)
					n.Cluster.RecoverLocal(octx, ci)
				case 11:
					n.Cluster.StatusAllLocal(octx, api.TrackerStatusUndefined)
					n.Cluster.StatusLocal(octx, ci)
				}
				cancel()
			}
		}(g)
	}
	wg.Wait()
	close(stop)
	for i := 0; i < workers*ops/20+1; i++ {
		c.Eval(fmt.Sprintf("facade/queue=%d/conc=%d/shutdown=%v", tcfg.MaxPinQueueSize, tcfg.ConcurrentPins, shutdownAt >= 0))
	}
	c.Count("facade-ops", workers*ops)
	c.Sample(map[string]interface{}{"scenario": "facade", "workers": workers, "ops_each": ops, "shutdown_at_op": shutdownAt})
}

// ---------------------------------------------------------------- raft restart

func raftRestart(c *fw.Ctx, idx int) {
	r := c.Rand("raft")
	ctx := context.Background()
	dir := filepath.Join(c.Dir, fmt.Sprintf("case%d", idx))
	os.RemoveAll(dir)
	defer os.RemoveAll(dir)
	key := gen.Key(6)
	id, _ := peer.IDFromPrivateKey(key)
	entries := r.Range(10, 60)
	restarts := r.Range(2, 4)
	for round := 0; round <= restarts; round++ {
		p := &sim.NetPeer{Idx: 0, Key: key, Dir: filepath.Join(dir, "p0")}
		if err := sim.StartPeer(ctx, p, sim.NetOpts{Consensus: "raft", Peers: []peer.ID{id}, RaftTune: sim.RaftTune{SnapshotThreshold: 100000}}); err != nil {
			c.Violation("C18/raft-restart/peer-does-not-come-back", "a restarted single Raft peer did not become ready: "+err.Error(), nil)
			return
		}
		var wg sync.WaitGroup
		for g := 0; g < 4; g++ {
			wg.Add(1)
			go func(g int) {
				defer wg.Done()
				for k := 0; k < entries/4+1; k++ {
					ci := gen.Cid(18300+g, g)
					p.Node.Cluster.Pin(ctx, ci, api.PinOptions{Name: fmt.Sprintf("r%d-%d-%d", round, g, k)})
					p.Node.Cluster.Pins(ctx)
				}
			}(g)
		}
		wg.Wait()
		p.Node.Close()
		c.Eval(fmt.Sprintf("raft-restart/round=%d", round))
	}
	c.Count("raft-restarts", restarts)
	c.Sample(map[string]interface{}{"scenario": "raft-restart", "entries_per_round": entries, "restarts": restarts})
}

// ---------------------------------------------------------------- ready timeout

// readyTimeout: shutting a Cluster down while it is still waiting for its
// consensus component. The consensus never becomes ready; the Cluster gives up
// after ReadyTimeout (scaled down) and shuts itself down, while callers use
// the facade and call Shutdown themselves. Done() must close and every
// Shutdown call must return within the bound.
func readyTimeout(c *fw.Ctx, idx int) {
	ctx := context.Background()
	r := c.Rand("ready")
	old := ipfscluster.ReadyTimeout
	ipfscluster.ReadyTimeout = time.Duration(r.Range(50, 400)) * time.Millisecond
	defer func() { ipfscluster.ReadyTimeout = old }()
	shared := sim.NewSharedState(nil)
	callerShutdown := r.Pick("none", "before-timeout", "after-timeout")
	n, err := sim.NewNode(ctx, sim.NodeOpts{
		Key:         gen.Key(7),
		NoWaitReady: true,
		Consensus: func(h host, _ pubsubT, _ dhtT, _ ds.Datastore, _ *ipfscluster.Config) (ipfscluster.Consensus, error) {
			shared.SetPeers([]peer.ID{h.ID()})
			mc := sim.NewModelConsensus(h.ID(), shared)
			mc.NeverReady()
			return mc, nil
		},
	})
	if err != nil {
		c.Inconclusive("node: " + err.Error())
		return
	}
	// the facade is in use meanwhile
	stop := make(chan struct{})
	var wg sync.WaitGroup
	for g := 0; g < 3; g++ {
		wg.Add(1)
		go func() {
			defer wg.Done()
			for {
				select {
				case <-stop:
					return
				default:
				}
				octx, cancel := context.WithTimeout(ctx, 2*time.Second)
				n.Cluster.Pins(octx)
				n.Cluster.Peers(octx)
				n.Cluster.Alerts()
				cancel()
				time.Sleep(5 * time.Millisecond)
			}
		}()
	}
	shutdownReturned := make(chan struct{})
	go func() {
		switch callerShutdown {
		case "before-timeout":
			time.Sleep(ipfscluster.ReadyTimeout / 3)
		case "after-timeout":
			time.Sleep(ipfscluster.ReadyTimeout * 2)
		default:
			close(shutdownReturned)
			return
		}
		sctx, cancel := context.WithTimeout(ctx, 60*time.Second)
		n.Cluster.Shutdown(sctx)
		cancel()
		close(shutdownReturned)
	}()
	ok := true
	select {
	case <-n.Cluster.Done():
	case <-time.After(30 * time.Second):
		ok = false
		c.Violation("C18/ready-timeout/cluster-never-shuts-down/caller-shutdown="+callerShutdown, "the consensus component never became ready: 30 s after the ready time-out the Cluster has not finished shutting down (Done() not closed)", nil)
	}
	if ok {
		select {
		case <-shutdownReturned:
		case <-time.After(30 * time.Second):
			c.Violation("C18/ready-timeout/shutdown-call-never-returns/caller-shutdown="+callerShutdown, "a Shutdown call made around the ready time-out did not return within 30 s", nil)
		}
	}
	close(stop)
	wg.Wait()
	c.Eval("ready-timeout/caller-shutdown=" + callerShutdown)
	if ok {
		n.Close()
	} else {
		// the Cluster is stuck in Shutdown: closing it would block this case too
		if n.Host != nil {
			n.Host.Close()
		}
	}
	c.Sample(map[string]interface{}{"scenario": "ready-timeout", "ready_timeout": ipfscluster.ReadyTimeout.String(), "caller_shutdown": callerShutdown})
}
