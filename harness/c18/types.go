package c18

import (
	hostpkg "github.com/libp2p/go-libp2p-core/host"
	dual "github.com/libp2p/go-libp2p-kad-dht/dual"
	pubsub "github.com/libp2p/go-libp2p-pubsub"
)

type (
	host    = hostpkg.Host
	pubsubT = *pubsub.PubSub
	dhtT    = *dual.DHT
)
