// vcheck runs one property check: parent mode fans out to child processes,
// child mode runs a batch of cases, replay mode re-runs one recorded case.
package main

import (
	"encoding/json"
	"flag"
	"fmt"
	"os"
	"strconv"
	"strings"

	"verif/fw"
)

func main() {
	prop := flag.String("prop", "", "property id")
	tier := flag.String("tier", "quick", "quick|thorough")
	seed := flag.Int64("seed", 1, "seed")
	child := flag.String("child", "", "k/n (internal)")
	from := flag.Int("from", 0, "first case (internal)")
	only := flag.Int("case", -1, "run just this case")
	dir := flag.String("dir", "", "child scratch dir (internal)")
	replay := flag.String("replay", "", "replay file")
	list := flag.Bool("list", false, "list properties")
	role := flag.String("role", "", "helper process role (internal)")
	flag.Parse()

	if *role != "" {
		os.Exit(fw.RunRole(*role, flag.Args()))
	}

	if *list {
		for _, id := range fw.IDs() {
			fmt.Println(id)
		}
		return
	}
	if *replay != "" {
		b, err := os.ReadFile(*replay)
		if err != nil {
			fmt.Fprintln(os.Stderr, err)
			os.Exit(2)
		}
		var r struct {
			Property string `json:"property"`
			Tier     string `json:"tier"`
			Seed     int64  `json:"seed"`
			Case     int    `json:"case"`
		}
		if err := json.Unmarshal(b, &r); err != nil {
			fmt.Fprintln(os.Stderr, err)
			os.Exit(2)
		}
		*prop, *tier, *seed, *only = r.Property, r.Tier, r.Seed, r.Case
	}
	p := fw.Lookup(*prop)
	if p == nil {
		fmt.Fprintf(os.Stderr, "unknown property %q (have %v)\n", *prop, fw.IDs())
		os.Exit(2)
	}
	if *child != "" {
		parts := strings.Split(*child, "/")
		k, _ := strconv.Atoi(parts[0])
		n, _ := strconv.Atoi(parts[1])
		os.Exit(fw.RunChild(p, *tier, *seed, k, n, *from, *only, *dir))
	}
	exe, err := os.Executable()
	if err != nil {
		fmt.Fprintln(os.Stderr, err)
		os.Exit(2)
	}
	os.Exit(fw.RunParent(p, *tier, *seed, exe, *only))
}
