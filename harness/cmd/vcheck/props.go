package main

// one import per property package; each registers itself in init().
import (
	_ "verif/c01"
	_ "verif/c02"
	_ "verif/c03"
	_ "verif/c04"
	_ "verif/c05"
	_ "verif/c06"
	_ "verif/c07"
	_ "verif/c08"
	_ "verif/c09"
	_ "verif/c10"
	_ "verif/c11"
	_ "verif/c12"
	_ "verif/c13"
	_ "verif/c14"
	_ "verif/c15"
	_ "verif/c16"
	_ "verif/c17"
	_ "verif/c18"
)
