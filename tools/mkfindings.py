#!/usr/bin/env python3
"""Renders known_findings.json into DESIGN.md between the FINDINGS markers."""
import json, re
ROOT = "/verif"
d = json.load(open(ROOT + "/known_findings.json"))
lines = []
lines.append("| property | status | commit in /repo | key (what the check prints / matches) | what fails |")
lines.append("|---|---|---|---|---|")
for e in d:
    what = e["what"].replace("|", "\\|").replace("\n", " ")
    key = e["key"].replace("|", "\\|")
    lines.append("| %s | %s | %s | `%s` | %s |" % (e["property"], e["status"], e.get("commit", "—"), key, what))
block = "\n".join(lines)
p = ROOT + "/DESIGN.md"
s = open(p).read()
a, b = "<!-- FINDINGS:BEGIN -->", "<!-- FINDINGS:END -->"
assert a in s and b in s
s = s[:s.index(a) + len(a)] + "\n" + block + "\n" + s[s.index(b):]
open(p, "w").write(s)
print("findings:", len(d), "known:", sum(1 for e in d if e["status"] == "known"), "fixed:", sum(1 for e in d if e["status"] == "fixed"))
