#!/usr/bin/env python3
"""Regenerates /verif/MANIFEST.json from the table below (kept in one place so
the manifest stays valid while checks are added)."""
import json, subprocess, os
ROOT = os.path.dirname(os.path.dirname(os.path.abspath(__file__)))

CHECKS = {
 # id: (category, technique, text, note, design_ref)
 "C08": ("exploration", "runtime round-trip and garbage-decoding monitors over generated records (real encoders at their real boundaries, own comparator), child-process isolated",
         "Generated well-formed records are pushed through every real encoder/decoder pair (dsstate protobuf, state snapshot codec, gorpc/raft msgpack handle incl. raft.LogOp, encoding/json, query strings) and compared by the harness's own reflective comparator up to the documented lossy fields; each decoder is also fed random, mutated and structure-aware hostile documents and must return an error or a re-encodable value, never panic. Held = on every generated input of the run; not a proof over all inputs.",
         "Trusted: the comparator in harness/mon/deepeq.go, the generators' notion of well-formed, the Go runtime's panic reporting. Inputs carrying msgpack 32-bit length markers are skipped (the ugorji decoder pre-allocates gigabytes for them; resource use, not a crash).",
         "DESIGN.md §4 C08"),
 "C15": ("exploration", "runtime per-setting perturbation monitor: real LoadJSON/ToJSON/Validate/ApplyEnvVars/ToDisplayJSON of all 14 sections and config.Manager, oracles = validate-after-load, save/load fixed point, injectivity of accepted values, planted-secret scan",
         "Every JSON leaf of every component section (plus the keys elided at default) is set to pairs of semantically different well-formed values, alone, combined with a second leaf, inside a full file through config.Manager (saved to and loaded from disk) and through environment variables. An accepted document must validate and be a fixed point of save->load->save; two accepted documents differing in one non-zero setting must save differently (catches settings dropped on load or on save, or replaced by the default); malformed/zero values may be refused but never panic; display forms never contain planted secrets.",
         "Sections are compared via their own ToJSON text; a field neither loaded nor saved is invisible. Env var names are derived from JSON keys; ineffective names are counted, not judged. The value ranges a section should accept are not specified by the property, so a weakened Validate() is only seen through Default()/fixed-point effects.",
         "DESIGN.md §4 C15"),
 "C14": ("exploration", "runtime round-trip monitors on real files: StateManager export/import (raft snapshot, crdt badger/leveldb) onto non-empty targets, snapshot/backup histories against a directory model, peerstore save/load/import on real libp2p hosts, malformed peerstore files",
         "Generated pinsets are stored the way a peer leaves them (Raft snapshot via SnapshotSave, CRDT datastore), exported and imported with the real cmdutils StateManager onto a different non-empty installation and read back offline; every result is compared pin by pin with the harness's comparator. Histories of snapshot-save/clean with retention 1..6 over arbitrary pre-existing backup folders are checked after every step against a directory model, and the newest backup must be readable and hold the cleaned pinset. Peer address sets are saved, loaded and imported on a fresh host and must come back in the same order; files with malformed lines must load exactly their valid lines.",
         "Pins carry no Origins (known C08 finding would mask everything). /dnsaddr excluded (needs DNS). Starting a live peer on a snapshot is covered by C01/C17, not here.",
         "DESIGN.md §4 C14"),
 "C09": ("exploration", "runtime reference-model monitor: step-driven histories on the real metrics Store/Checker and pubsubmon.Monitor compared after every step with a latest-arrival/episode model; cadence sub-check on a real Cluster with a recording monitor",
         "Random histories of metric arrivals (valid/invalid, expired/live by construction, bursts beyond the window), peer removals and failure checks over the whole store or a chosen peerset are applied to the real Store and Checker; after every step LatestValid (and Monitor.LatestMetrics under nil/erroring/subset/superset peerset functions) must equal the model, and after every check the drained alerts must be exactly one per newly expired checked (peer,name), none for live ones, none repeated, with the stale metric gone one check later.",
         "Expiries are one hour from now so no verdict depends on wall-clock expiry during a case. With >=6 samples the accrual detector decides when to alert: only safety is asserted there. Alerts for peers whose latest metric is invalid, and for a failure whose preceding renewal was wiped by RemovePeer before any check saw it, are not demanded.",
         "DESIGN.md §4 C09"),
 "C03": ("exploration", "runtime differential monitor: real Cluster + real allocators + real pubsubmon against an allocation predicate computed from generated inputs",
         "A long-lived real Cluster (real allocate.go, both shipped allocators, real pubsubmon with peerset filter, model consensus holding the current pin) allocates through Cluster.Pin and the BlockAllocate RPC for generated peersets, per-peer metric states (absent/valid/expired/invalid/non-numeric, ties forced), current allocations, priority lists and factor pairs; each result is judged by a predicate derived from the inputs only (membership, health, min/max, priority-then-strategy order with free ties, refusal leaves the pinset unchanged).",
         "Metric expiry is +-1h so no metric changes class during a call. The exclusion list is reached only through the failure/removal path, covered by C10 with the same predicate. Filling up to max and the identity of tie winners are not demanded.",
         "DESIGN.md §4 C03"),
 "C04": ("exploration", "runtime reference-model monitor: random Pin/PinPath/PinUpdate/Unpin/UnpinPath histories on a real Cluster, pinset listed before/after every call and compared with the transition the property prescribes",
         "Histories over a 4-CID universe (options set, changed, added and removed between successive pins; sharded sets with a genuine CBOR cluster-DAG block; cluster default factors and follower mode varied; entries pre-committed by other peers) run on a real Cluster with real allocators and monitor and a model consensus over a real dsstate. After every call the whole pinset is compared: success replaces exactly that entry with the requested options and a C03-valid allocation, identical re-pin keeps allocations, every listed refusal leaves the pinset byte-identical, unpin removes exactly the entry (and the cluster-DAG and shards of a meta entry), update copies the source and leaves it intact.",
         "Consensus is a model (real dsstate behind it): commit failures of a real consensus are out of scope here (C01/C02). Expiries are +-1h from now.",
         "DESIGN.md §4 C04"),
 "C10": ("exploration", "runtime monitor over recorded consensus submissions: up to 8 real Clusters sharing a model consensus state receive the same alert / a PeerRemove / StateSync; before/after pinsets and per-peer submissions judged against the property",
         "Scenarios over 1-8 members, any one failing or removed, generated pinsets (arbitrary allocations, factors, options, pins created by pin-update, everywhere-pins), survivor metric states, re-pinning on/off, follower on/off, non-ping alerts only. From the recorded LogPin/LogUnpin per peer and the pinsets before/after: nothing disappears; at most one survivor acts per pin and exactly one when healthy holders fell below min and candidates exist; the new allocation satisfies the C03 predicate with the failed peer excluded and absent; all options preserved; everything else content-identical. Expired pins are unpinned by exactly one member's StateSync, live ones by none.",
         "Members agree on peerset and trust (premise of the property). The alert handler's sequential processing is used as the 'handled' barrier; a barrier not reached in 20 s is inconclusive. Alert path with re-pinning disabled is exercised on the removal path only (the handler goroutine of such a peer stops for good).",
         "DESIGN.md §4 C10"),
 "C06": ("exploration", "runtime truth-table monitor: quiescent situations constructed on the real tracker (pinset entry x daemon pin state x outcome of a really executed last operation), both local views and all filters compared",
         "For constructed situations over 6 CIDs, Status(c), the unfiltered listing and listings under every single status and random unions are taken from the real stateless tracker; the two views must fall in the same class, that class must be the one the constructed facts dictate, and each filtered listing must equal the unfiltered one restricted to the filter.",
         "pin_error and unexpectedly_unpinned count as the same class ('an error status'). Where the daemon holds a CID in another mode than recorded only agreement is demanded. The cluster-wide view (peer map) is checked in the networked case family when present in the evidence keys ('global/').",
         "DESIGN.md §4 C06"),
 "C11": ("exploration", "runtime request/response monitor: real rest.API over HTTP with a recording RPC service behind it; route x method sweeps, option fuzzing, malformed inputs, credential sweeps, multipart adds, and the bundled client library against scripted answers",
         "Every documented route and a set of unknown paths are requested with every HTTP method, with valid and invalid CIDs/paths/peer ids/bodies and every pin option valid and invalid (alone and combined), with and without configured credentials (missing, wrong user, wrong password, right). The recorder must show zero RPCs for malformed or unauthenticated requests and exactly the route's RPC with the generator's CID/path/options otherwise (max_depth consistent with mode); every body must be a single JSON document; each client-library method must deliver its arguments unchanged and return the scripted answer.",
         "The route table is data in the harness (the router is unexported); a route added by a change is still covered by the unknown-path and credential sweeps. libp2p-http transport not exercised (QUIC stub). Unknown 'mode' values and unparsable peer ids in user-allocations are accepted by design and not generated as invalid. Status-filter unions are not sent through the client (their textual form is not one-to-one).",
         "DESIGN.md §4 C11"),
 "C12": ("exploration", "runtime request/response monitor: real ipfsproxy.Server between an HTTP client, a recording fake IPFS daemon and a recording RPC service",
         "Hijacked routes are requested in ?arg= and /{arg} style with valid and invalid paths and their options under POST/GET/PUT; the same paths under other methods and arbitrary other paths/queries/bodies under every method. Hijacked+valid must perform exactly the corresponding recorded cluster operations with the requested path/options and never reach the daemon under a hijacked method; an error answer with all RPCs succeeding must leave zero mutating RPCs; everything else must arrive at the daemon with identical method, path, raw query and body and the daemon's unique status/body must come back.",
         "Multi-segment /{arg} forms and unclean paths are not generated. The proxy's own OPTIONS/header-extraction requests to the daemon are ignored. The fake daemon stands for go-ipfs (fidelity of its error conventions is an assumption).",
         "DESIGN.md §4 C12"),
 "C05": ("exploration", "runtime schedule-exploring monitor: real stateless tracker + operation table over a gated model IPFS daemon; completion order of in-flight calls chosen relative to later instructions; quiescence oracle, then heal + recover + exact oracle",
         "Instruction sequences (track local/everywhere/remote/meta in recursive or direct mode, untrack, recover, recoverAll) run against the real tracker with queue sizes down to 1 and 1-3 workers while a gate completes, fails or holds each IPFS pin/unpin call until a chosen later instruction. At quiescence each CID's daemon state must match the last instruction or its status be an error status; ErrFullQueue must come with an error status; after healing the daemon and recover rounds every CID must match exactly, and the re-issued pins must carry the mode recorded in the pinset.",
         "Daemon model: atomic calls, a cancelled uncommitted call has no effect. Not demanded: turning a recursively held CID into a direct pin (go-ipfs refuses). Recover rounds are repeated while they are cut short by ErrFullQueue, and up to 4 further rounds are granted before a mismatch is reported. No quiescence within 30 s = inconclusive.",
         "DESIGN.md §4 C05"),
 "C16": ("fault_enumeration", "runtime fault-injection monitor: real ipfshttp.Connector against a scripted fake IPFS HTTP daemon; one fault per conversation step; daemon pin table as ground truth",
         "Each case is one Pin/Unpin/PinLsCid conversation with a prior daemon pin state, an optional update source (recursive/direct/absent), origins, and one fault (IPFS error body, non-JSON 500, reset before/inside the body, stall, progress-then-stall, progress-then-late-trailer-error, slow steady progress, already/not pinned errors) on one step. Success must imply the table holds the CID in the asked mode; healthy conversations must succeed; already-pinned must send no pin/add or pin/update; stalls must end in an error within 30 x pin_timeout while steady progress is not aborted; pin/update must carry unpin=false, be sent only for a recursively pinned source, and leave it pinned.",
         "The fake daemon's fidelity to go-ipfs conventions is an assumption (no go-ipfs in the sandbox). Wall clock is intrinsic to the stall clauses; bounds are 30x the configured value and cases run 8-wide.",
         "DESIGN.md §4 C16"),
 "C13": ("exploration", "runtime conservation/read-back monitor: real adder pipeline (ipfsadd, single and sharding DAG services) over a recording RPC service; delivered blocks re-assembled with go-merkledag/go-unixfs and compared with the input; BlockPut faults at chosen positions",
         "Generated file trees are added unsharded and sharded under varied chunkers, layouts, raw-leaves, CID versions, hash functions, wrap and replication settings. From the returned root the recorded blocks must be closed under links, hash to their CIDs, and read back byte-identical (tree shape included); sharded, unsharded and (for single files) go-unixfs importer roots must be equal; the pins must be exactly the root with the requested options and the block destinations, or meta + cluster-DAG + shards whose links partition the delivered blocks under the size limit with a max_depth that covers them; a BlockPut failure at call k must either fail the add without pinning the root or leave every block delivered.",
         "Component level: a hostless RPC client runs every destination locally, so per-destination delivery is not distinguished. The reference importer is go-unixfs/importer (go-ipfs itself is not installed) and only single-file inputs have a reference root.",
         "DESIGN.md §4 C13"),
 "C07": ("exploration", "runtime authorization-matrix monitor: real Cluster peer on a real libp2p host, remote callers with rpc.NewClient, endpoints enumerated by reflection; plus a three-peer CRDT pubsub trust scenario with a control replica",
         "Every RPC endpoint (found by reflection over the exported RPCAPI types at run time) is called by a trusted and an untrusted remote libp2p peer under Raft, CRDT with explicit list / empty list / trust-all, and after Trust/Distrust at run time; the answer's class (authorization error or not) is judged against rules held as data: untrusted callers reach at most ID/Version/PeerAdd, local-only endpoints are refused to every remote caller, Raft trusts everyone. In the pubsub scenario an untrusted peer's pins must reach a control replica that trusts it while the replica that does not trust it stays without them two rebroadcast rounds later; Trust makes it accept them, Distrust makes it ignore later ones.",
         "Only the authorization class is judged, not success of authorized calls. Newly added endpoints are checked against the untrusted-caller rule only. The local-only list is data derived from the property text. Propagation to the control replica not reached within 30 s = inconclusive.",
         "DESIGN.md §4 C07"),
 "C01": ("exploration", "runtime history/trace monitor: real multi-peer Raft clusters on real libp2p hosts with connection gaters; versioned journal under each replica's state store, recording tracker, porcupine linearizability check of recorded histories, fault phases (restart, partition + forced snapshot install, shutdown + offline read)",
         "Concurrent pin/unpin histories with unique write ids are submitted through the Consensus RPCs at any member of real 1-3 peer Raft clusters while the leader is read; per-replica journals (tagged FSM.Apply/FSM.Restore from the call stack) are checked for order compatibility, listings against journal versions, acknowledgements against journal timestamps, content against the fold of the journal, tracker hand-offs against applied changes, and the fault-free history for linearizability (porcupine, per-CID register with delete). Then a member is restarted on its folder, or a running follower is partitioned while the leader commits beyond trailing_logs and snapshots (InstallSnapshot onto a non-empty replica), or all peers are shut down and read offline; replicas must converge to the leader's content and keep every acknowledged write.",
         "Pins carry no Origins (known C08 finding). Power loss and SIGKILL points are not covered in this revision. 'Caught up' is bounded by 30 s after faults stop. Snapshot/trailing settings are scaled down (3-10 entries) so that log truncation happens within seconds.",
         "DESIGN.md §4 C01"),
 "C02": ("exploration", "runtime sequential-spec and convergence monitor: real crdt.Consensus components on real hosts with connection gaters, recording tracker service, journalling fault datastore with a commit-failure window",
         "Single replicas run with batching disabled, size-triggered, age-triggered and with a queue smaller than the burst (one submitter per CID), and with datastore commit failures placed on a size- or age-triggered commit; the final entry per CID must be the last accepted operation, refused operations must have no effect, batches must become visible within W after their trigger, operations accepted after a failed commit must still take effect, and tracker calls must agree with the final state. Two or three replicas take operations while gaters form and heal partitions; once head sets (read from the stores) are equal the pinsets must be equal.",
         "W = max(5 s, 30 x age) is the only wall-clock bound. Equal heads not reached in 30 s = inconclusive. Concurrent-winner choice and tracker-call last-ness under multi-replica delivery are not demanded.",
         "DESIGN.md §4 C02"),
 "C17": ("exploration", "runtime history monitor: real multi-peer Raft Clusters (real PeerAdd/PeerRemove/Join/watchPeers/Shutdown) on real libp2p hosts; peerset and pinset of every member observed after each step; joiner's state store gated to make 'not caught up yet' a logical fact; Raft indexes read by reflection",
         "Histories of 4-10 steps on clusters of 1-4 peers: pin/unpin (varied replication factors) at any member, join of a staging peer through any member (optionally with a concurrent write, optionally with its state-store writes held back), removal of a member at leader or follower including leader and self, add-present, remove-absent, remove-last, restart. After every successful change all remaining members must report the same peerset within 30 s; no-ops change nothing; last-peer removal fails; when Join returns or Ready fires the joiner's Raft applied index covers every earlier acknowledged write and its pinset holds them; a removed peer's Done() closes and its Raft data folder is rotated away; with re-pinning on, pins that fell below their minimum were re-allocated off the removed peer before it left; every member's pinset equals the acknowledged pins after each step.",
         "Bounded progress (30 s) stands in for 'eventually'. peer_watch_interval scaled to 300 ms. Clusters of more than 4 peers and simultaneous membership changes are not driven.",
         "DESIGN.md §4 C17"),
 "C18": ("exploration", "sanitizer + runtime monitor: Go race detector build of the real components under concurrent hostile workloads; process-level crash and watchdog attribution; structural checks of returned lists",
         "Eight workload families with PRNG-drawn shapes (goroutines, operations, shutdown point, queue sizes, batching mode, GOMAXPROCS 2-16): stateless tracker + operation table (Track/Untrack/Status/StatusAll/Recover/RecoverAll vs Shutdown), Cluster.Alerts readers while 1200-2600 numbered alerts arrive, metrics.Store writers vs all readers/RemovePeer/Checker (CheckAll, CheckPeers, Watch), real pubsubmon LogMetric/PublishMetric/LatestMetrics vs Shutdown, disk and numpin informers GetMetric vs Shutdown, crdt LogPin/LogUnpin bursts vs State/Peers/Trust vs Shutdown with batching off/size/age, Cluster facade (Pin, Unpin, Status*, Peers, StateSync, Recover*, Alerts, Pins, ID) vs Shutdown with the real tracker, and a Raft peer restarted on a log it replays. A race report with an ipfs-cluster frame, a child that dies (panic, fatal error), a case that exceeds the watchdog twice, or a structurally wrong list (zero/duplicate/never-sent alert, order, nil or duplicate status entries, metrics nobody wrote, two 'latest' for one peer) is a violation.",
         "Race detection is per observed schedule. Reports with no ipfs-cluster frame in either stack are counted as external, not judged. API servers (REST, proxy) under concurrency are exercised by C11/C12, not here.",
         "DESIGN.md §4 C18"),
}

ALL = ["C%02d" % i for i in range(1, 19)]
PENDING_REASON = "check not built yet in this revision of /verif (runtime monitoring applies; see DESIGN.md §4); not claimed until its monitor exists and is silent on the unchanged tree"

def main():
    hooks_commits = []
    try:
        out = subprocess.check_output(["git", "-C", "/repo", "log", "--format=%H %s"]).decode().splitlines()
        hooks_commits = [l.split()[0] for l in out if l.split(" ", 1)[1].startswith("verif-hook:")]
    except Exception:
        pass
    m = {
        "version": 1,
        "setup_cmd": "./setup.sh",
        "hooks": {
            "guard": "verif",
            "enable": "nothing to enable: no instrumentation was added to /repo (observation through existing interfaces, harness-supplied wrappers and reflection); the tag is reserved",
            "baseline_off_cmd": "cd /repo && go test -mod=mod -vet=off -count=1 -timeout 25m ./...",
            "source_commits": hooks_commits,
            "add_only": True,
        },
        "engines": [
            {"name": "vcheck", "path": "/verif/harness/cmd/vcheck", "serves_properties": sorted(CHECKS),
             "kind_free_text": "Go harness module (replace ipfs-cluster => /repo): deterministic case lists fanned out to child processes, oracles over observed executions, Go race detector builds for concurrent workloads"},
        ],
        "checks": [],
        "notes": "Technique family: runtime monitoring and sanitizers. Every check rebuilds the harness against /repo's working tree (run.sh). Exit 0 held-on-observed, 1 VIOLATION, 2 harness error/observed too little. known_findings.json lists genuine defects recorded or fixed.",
        "not_applicable": [],
    }
    for pid in ALL:
        if pid in CHECKS:
            cat, tech, text, note, ref = CHECKS[pid]
            m["checks"].append({
                "property_id": pid,
                "quick_cmd": "./run.sh %s quick" % pid,
                "thorough_cmd": "./run.sh %s thorough" % pid,
                "evidence_file": "/verif/evidence/%s.json" % pid,
                "replay_cmd_template": "./run.sh %s --replay {path}" % pid,
                "engine": "vcheck",
                "level_claimed": {"category": cat, "text": text, "design_ref": ref},
                "level_note": note,
                "technique": tech,
            })
        else:
            m["not_applicable"].append({"property_id": pid, "reason": PENDING_REASON})
    json.dump(m, open(os.path.join(ROOT, "MANIFEST.json"), "w"), indent=1)
    print("MANIFEST.json: %d checks, %d not_applicable" % (len(m["checks"]), len(m["not_applicable"])))

main()
