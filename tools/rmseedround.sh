#!/bin/bash
# removes the scratch worktrees of a seeding round
for i in 01 02 03 04 05 06 07 08 09 10 11 12 13 14 15 16 17 18; do git -C /repo worktree remove --force /tmp/seed/C$i 2>/dev/null; done
git -C /repo worktree prune; rm -rf /tmp/seed; git -C /repo worktree list; git -C /repo status --short | head -3
