#!/bin/bash
# Re-runs the pinned baseline suite of /repo (hooks off) and lists the
# stable_pass tests that did not pass. Usage: tools/baseline.sh [outfile]
out=${1:-/tmp/baseline.$$.json}
export GOFLAGS=-mod=mod GOPROXY=off GOSUMDB=off
(cd /repo && go test -mod=mod -json -vet=off -count=1 -timeout 25m ./... > "$out" 2>/dev/null)
python3 - "$out" <<'PY'
import json,sys
want=set(json.load(open('/root/.vp/BASELINE.json'))['stable_pass'])
res={}
for l in open(sys.argv[1]):
    try: e=json.loads(l)
    except Exception: continue
    if e.get('Test') and e.get('Action') in('pass','fail','skip'):
        res[e['Package']+'::'+e['Test']]=e['Action']
bad=[t for t in sorted(want) if res.get(t)!='pass']
print("stable_pass tests:",len(want),"passed now:",len(want)-len(bad))
for t in bad: print("NOT PASSING:",t,res.get(t))
PY
rm -f "$out"
