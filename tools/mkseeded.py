#!/usr/bin/env python3
"""Renders seeded/*/meta.json + seeded/RESULTS.json into DESIGN.md between the SEEDED markers."""
import json, os
ROOT = "/verif"
res = json.load(open(ROOT + "/seeded/RESULTS.json"))
rows = ["| seeded change | what it does (from the sub-agent's meta.json) | needs | check that reports it | violation key(s) | first run | strengthening |", "|---|---|---|---|---|---|---|"]
for name in sorted(os.listdir(ROOT + "/seeded")):
    d = ROOT + "/seeded/" + name
    if not os.path.isdir(d):
        continue
    meta = {}
    try:
        meta = json.load(open(d + "/meta.json"))
    except Exception:
        pass
    r = res.get(name, {})
    esc = lambda s: str(s).replace("|", "\\|").replace("\n", " ")
    rows.append("| `seeded/%s` | %s | %s | %s %s%s | `%s` | %s | %s |" % (
        name, esc(meta.get("summary", ""))[:400], esc(meta.get("needs", ""))[:300],
        r.get("check", "?"), r.get("tier", ""), "" if r.get("caught") else " — NOT caught",
        esc(r.get("key", "")), esc(r.get("first_run", "")), esc(r.get("strengthened", "—"))))
block = "\n".join(rows)
p = ROOT + "/DESIGN.md"
s = open(p).read()
a, b = "<!-- SEEDED:BEGIN -->", "<!-- SEEDED:END -->"
assert a in s and b in s
s = s[:s.index(a) + len(a)] + "\n" + block + "\n" + s[s.index(b):]
open(p, "w").write(s)
print("seeded:", len(rows) - 2)
