#!/bin/bash
# tools/mkseedround.sh : prepares /tmp/seed/Cxx worktrees (at /repo HEAD), an
# alternative module file per worktree (quic stub) and one prompt file per
# property for a round of seeded changes written by sub-agents. The prompt
# lists the summaries of all earlier seeds of that property so that the new one
# breaks another clause. Nothing of /verif but the property text and those
# summaries reaches an agent. Remove with tools/rmseedround.sh.
set -e
export GOFLAGS=-mod=mod GOPROXY=off GOSUMDB=off GOTOOLCHAIN=local
mkdir -p /tmp/seed
rm -rf /tmp/seed/quicstub && cp -r /verif/third_party/quicstub /tmp/seed/quicstub
cd /repo
for i in 01 02 03 04 05 06 07 08 09 10 11 12 13 14 15 16 17 18; do
  git worktree add -q --detach /tmp/seed/C$i HEAD
  cp go.mod /tmp/seed/C$i.alt.mod; cp go.sum /tmp/seed/C$i.alt.sum
  echo 'replace github.com/libp2p/go-libp2p-quic-transport => /tmp/seed/quicstub' >> /tmp/seed/C$i.alt.mod
done
cd /verif && python3 - <<'EOF'
import json, glob, os
props={}
for l in open('/verif/properties.jsonl'):
    d=json.loads(l); props[d['id']]=d
for pid,d in props.items():
    text=json.dumps({k:d[k] for k in ('id','title','statement','quantifier','why_tests_cant','anchors')},indent=1)
    tried=[]
    for m in sorted(glob.glob(f'/verif/seeded/{pid}-*/meta.json')):
        try:
            prev=json.load(open(m))
            tried.append(f"- {prev.get('summary','')} (files: {', '.join(prev.get('files',[]))}; needed: {prev.get('needs','')})")
        except Exception: pass
    tried="\n".join(tried)
    prompt=f"""You are helping to evaluate how sensitive a verification effort is. You work ONLY inside the scratch git worktree /tmp/seed/{pid} (a checkout of the Go project ipfs/ipfs-cluster at a pinned commit). Do not touch any other directory (in particular never touch /repo or /verif, and do not read /verif).

Here is one semantic property that the code base is supposed to satisfy:

{text}

YOUR TASK: make ONE realistic, subtle source change inside /tmp/seed/{pid} (the kind of regression a maintainer could plausibly introduce in a refactoring or "optimisation") that BREAKS this property while the project still compiles and the existing test suite still passes. The change should need something specific to manifest — a particular interleaving, crash point, multi-step sequence, unusual input, or two cooperating code sites — rather than failing on every trivial use. Prefer a change in non-test .go files of at most ~30 lines. Do not edit or add _test.go files as part of the change itself and do not change go.mod.

IMPORTANT - other engineers already produced these changes for the same property:
{tried}
Yours must be DIFFERENT from all of them: break a clause of the property (or a part of its quantifier: look at the kinds of inputs, schedules, faults it ranges over, and at every file and mechanism listed under "anchors") that none of them touches, in a different function (preferably a different file), with a different condition needed to manifest. Prefer conditions that are rare in ordinary use: boundary values, a second occurrence of an event, an error path followed by a retry, concurrency between two specific operations, a particular order of three steps, an interaction with shutdown or restart, a less used configuration value, a less used entry point (RPC endpoint, path-based variant, libp2p transport, follower mode). The change must really violate the property AS STATED (not merely degrade performance or something the property does not speak about).

Environment (no network): always run `export GOFLAGS=-mod=mod GOPROXY=off GOSUMDB=off GOTOOLCHAIN=local` first. Sub-packages build and test normally (e.g. `go test -count=1 ./api/... ./consensus/... ./pintracker/... ./monitor/... ./adder/... ./ipfsconn/... ./state/... ./config/... ./informer/... ./allocator/... ./pstoremgr/... ./datastore/...`). The ROOT package (github.com/ipfs/ipfs-cluster) and ./cmd/... and ./api/rest/... do not build with the stock go.mod in this sandbox because one dependency (go-libp2p-quic-transport) is missing from the module cache; to build/vet/test them use the alternative module file prepared for you: `go vet -modfile=/tmp/seed/{pid}.alt.mod .` or `go test -modfile=/tmp/seed/{pid}.alt.mod -count=1 -run 'TestName' .` (the root test suite is slow and has some flaky tests - run only tests relevant to what you touch; the test TestLibp2pConfig fails under the alternative module file regardless). "The existing tests pass" means: the tests of the packages you touched (and obvious dependants) still pass.

DELIVERABLES, all written into the directory /tmp/seed/{pid}/SEED/ (create it):
 1. patch.diff — output of `git diff` for your change (source change only; not the SEED directory, not demo tests).
 2. demo.md — a short explanation: what the change is, why it breaks the property, exactly what is needed to make it manifest (the input / interleaving / sequence), and evidence that you demonstrated it (e.g. a small Go test or program you wrote and ran, with its output, showing the property broken with the change and fine without it). If you wrote a demo test, put it in SEED/ as well (e.g. SEED/demo_test.go.txt) with instructions on where to place it. Remove the demo test from the source tree afterwards.
 3. meta.json — {{"property": "{pid}", "summary": "...one line...", "files": ["..."], "needs": "...what specific condition makes it manifest...", "tests_run": "...which existing tests you ran and that they passed..."}}

Leave your source change applied in the worktree. Do not commit. Never use `git stash` (the stash is shared by all worktrees of this repository and other engineers work in sibling worktrees at the same time): to test without your change use `git diff > /tmp/seed/{pid}.my.diff; git apply -R /tmp/seed/{pid}.my.diff; ...; git apply /tmp/seed/{pid}.my.diff`. Keep your effort bounded (roughly 15 minutes). When done, reply with a brief summary of the change (3-6 lines)."""
    open(f'/tmp/seed/{pid}.prompt.txt','w').write(prompt)
print("prompts written")
EOF
