#!/bin/bash
# tools/sweep.sh <tier> <seed> <Cxx>... : runs the checks one after the other on the tree as it is
# (each run holds the /repo lock that tools/tryseed.sh also takes) and prints one summary line per check.
tier=$1; seed=$2; shift 2
cd /verif
for p in "$@"; do
  (
    exec 9>/tmp/verif-repo.lock; flock 9
    if [ -n "$(git -C /repo status --porcelain)" ]; then echo "$p: /repo dirty, skipped"; exit; fi
    VERIF_SEED=$seed ./run.sh $p $tier > /tmp/sweep.$p.$tier.$seed.log 2>&1; rc=$?
    echo "$(date +%H:%M:%S) rc=$rc $(grep -c '^VIOLATION' /tmp/sweep.$p.$tier.$seed.log) violations :: $(tail -1 /tmp/sweep.$p.$tier.$seed.log | cut -c1-220)"
  )
done
