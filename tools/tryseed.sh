#!/bin/bash
# tools/tryseed.sh <seeded-dir> <Cxx> [tier] : applies a seeded change to /repo, runs the check, undoes it.
dir=$1; prop=$2; tier=${3:-quick}
# serialise with other users of /repo's working tree (tools/sweep.sh)
exec 9>/tmp/verif-repo.lock; flock 9
cd /repo || exit 9
if [ -n "$(git status --porcelain)" ]; then echo "repo dirty"; exit 9; fi
git apply "$dir/patch.diff" || { echo "patch does not apply"; exit 9; }
cd /verif && ./run.sh $prop $tier > /tmp/tryseed.$$.log 2>&1; rc=$?
git -C /repo checkout -- . ; git -C /repo clean -fdq
grep -v "^KNOWN-FINDING" /tmp/tryseed.$$.log | tail -6 | cut -c1-330
echo "exit=$rc"
rm -f /tmp/tryseed.$$.log
