#!/bin/bash
# ./run.sh <Cxx> <quick|thorough>          run a property check
# ./run.sh <Cxx> --replay <file>           re-run the recorded case of a violation
# Rebuilds the harness against /repo's current working tree on every call.
set -u
cd "$(dirname "$0")"
ROOT=$(pwd)
export GOFLAGS=-mod=mod GOPROXY=off GOSUMDB=off GOTOOLCHAIN=local
export VERIF_ROOT="$ROOT"
PROP=${1:?property id}
MODE=${2:-${VERIF_TIER:-quick}}
SEED=${VERIF_SEED:-1}
ulimit -n 65536 2>/dev/null || ulimit -n 16384 2>/dev/null || true

# properties whose workloads are concurrent run on the race-detector build
case "$PROP" in
  C01|C02|C05|C06|C07|C17|C18) BIN=vcheck-race; FLAGS="-race -gcflags=all=-d=checkptr=0" ;;
  *) BIN=vcheck; FLAGS="" ;;
esac

mkdir -p bin work
(
  flock 9
  cd harness && go build -tags verif $FLAGS -o "../bin/$BIN" ./cmd/vcheck
) 9>work/.build.lock
rc=$?
if [ $rc -ne 0 ]; then
  echo "HARNESS: build of $BIN against /repo failed (exit $rc); no verdict" >&2
  exit 2
fi

# run a private copy: another run.sh (another property, or an edit in between)
# may rebuild bin/$BIN while this run is still spawning its child processes
find work -maxdepth 1 -name '.vcheck*' -mmin +600 -delete 2>/dev/null
RUNBIN="work/.$BIN.$PROP.$$"
cp "bin/$BIN" "$RUNBIN" || exit 2
trap 'rm -f "$RUNBIN"' EXIT
if [ "$MODE" = "--replay" ]; then
  "$RUNBIN" -replay "${3:?replay file}"
  exit $?
fi
case "$MODE" in quick) LIMIT=1500 ;; thorough) LIMIT=14000 ;; *) echo "unknown tier $MODE" >&2; exit 2 ;; esac
timeout -k 30 $LIMIT "$RUNBIN" -prop "$PROP" -tier "$MODE" -seed "$SEED"
rc=$?
if [ $rc -eq 124 ] || [ $rc -eq 137 ]; then
  echo "HARNESS: $PROP $MODE exceeded the overall watchdog (${LIMIT}s); inconclusive, no verdict" >&2
  exit 2
fi
exit $rc
