#!/bin/bash
# Builds the framework offline from files on disk, and cross-checks that the
# harness module selects the same dependency versions as /repo.
set -eu
cd "$(dirname "$0")"
export GOFLAGS=-mod=mod GOPROXY=off GOSUMDB=off GOTOOLCHAIN=local
mkdir -p bin work evidence replays
(cd harness && go build -tags verif -o ../bin/vcheck ./cmd/vcheck)
(cd harness && go build -tags verif -race -gcflags=all=-d=checkptr=0 -o ../bin/vcheck-race ./cmd/vcheck)
(cd harness && go list -m all | sed 's/ => .*//' | sort) > work/mods.harness
(cd /repo && go list -m all | sort) > work/mods.repo
# expected differences: the harness module itself, the two tools, the quic stub's
# unused deps, and test-only libraries pulled by porcupine/gofail
diff work/mods.harness work/mods.repo | grep '^[<>]' | grep -v -E 'verif$|ipfs-cluster|porcupine|gofail|stretchr/testify|yaml.v3|marten-seemann/qtls|objx|go-spew|go-difflib' > work/mods.diff || true
if [ -s work/mods.diff ]; then
  echo "setup: harness resolves dependencies differently from /repo:" >&2
  cat work/mods.diff >&2
  exit 1
fi
echo "setup ok: $(bin/vcheck -list | tr '\n' ' ')"
